"""
Generic HISTORY / OBJECT-IDENTITY probes, shared by the property harnesses (DESIGN §2.2; HISTORIES_NOTES.md).

A property module describes each of its entry points ONCE by an adapter record `EP(...)` and calls
`histories.run(ctx, ENTRY_POINTS)` inside its run(ctx).  The engine knows nothing about DMR: it only calls the
entry point with arguments the adapter makes, canonicalises what comes back and compares ANSWERS OF THE SAME
REQUEST at different points of an object-level history.  It is not an oracle of correctness (the module's own
oracle is); its verdicts are all of the form "the same request, asked again after <step>, is answered differently"
or "an object the caller holds changed although the caller did not touch it":

  repeat          P1  call(fresh args) twice
  result-edit     P2  edit the returned object graph in place (every mutable node, generic mutators, one at a time),
                      ask again with fresh equal arguments; a second result held meanwhile must not change either
  parse-sharing   P7  the same for entry points of kind "parse"/"decode" (the name only tells the reader which class)
  same-object     P3  call(*a); copy the CONTENT of another valid draw into the same container objects; call(*a) again
                      must answer like a call with fresh objects of that content
  argument-kept   P4  the arguments are unchanged after the call
  failed-call     P5  a call with one argument replaced by a bad value (generic list + type confusions of the good value +
                      the adapter's bad_args); when it raised, the next legal call (same and other entry points of the
                      group) must answer like before
  twin            P6  o, t built alike; only o is serialised; the same in-place edit on both; serialise(o) == serialise(t)
  interleave      P8  pristine-order probe: in a child interpreter that has imported the module but made no call yet, every
                      sequence runs in a process forked from that pristine state: "g(B) then f(A)" must answer f(A) like
                      "f(A) alone"; A, B adversarially close (near variants); results held during the sequence must keep
                      their canonical value
  held            P9  every result of the pool is held until the end of the engine's run and re-canonicalised

Everything is deterministic from ctx.rng (one integer, `base`, drawn at the start; every argument tuple is made from
random.Random(f"hist:{ep.name}:{draw}")), every failure input is a JSON description that `replay()` re-runs.
"""
import enum
import json
import os
import random
import subprocess
import sys
import time

HERE = os.path.dirname(os.path.abspath(__file__))
ALIASES_FILE = os.path.join(HERE, "props", "c19.aliases.json")
PY = "/venv/bin/python"

try:  # optional types
    from bitarray import bitarray, frozenbitarray
except Exception:  # pragma: no cover
    bitarray = frozenbitarray = None
try:
    import numpy as _np
except Exception:  # pragma: no cover
    _np = None
import array as _array


# ------------------------------------------------------------------------------------------------ adapter record
class EP:
    """one entry point of the real library.

    name       unique within the module
    call       call(*args) -> result (runs the real code; may raise)
    make_args  make_args(rng) -> tuple of FRESH argument objects, equal by value for equal rng states
    canon      canon(result) -> JSON-able canonical value (default: histories.canon)
    kind       "encode" | "decode" | "check" | "serialise" | "parse" | "build"  (reader's hint; "parse"/"decode" name P2 "parse-sharing")
    serialise  for entry points that return an object with a serialiser: serialise(obj) -> bytes / bits  (enables the twin probe)
    bad_args   extra bad values for the failed-call probe: list of (label, value) or {position: [(label, value), ...]}
    near       near(args, rng) -> [(label, args), ...] adversarially close valid argument tuples (module knowledge);
               generic near variants are derived by the engine as well
    domain     entry points with the same domain tag accept each other's argument tuples (same content, other
               configuration: CRC calculators of different width, codecs of different data type)
    observe    observe() -> JSON-able canonical view of library state that every call must leave as it was after a
               COMPLETED call (class-level registers, tables); compared around every probe
    mutators   extra in-place mutators for result nodes: list of (label, fn(node) -> undo())
    probes     restrict the probes run on this entry point (default: all applicable)
    draws      multiplier of the number of argument draws (cheap entry points may take more)
    edit_skip  attribute names never edited by P2/P6 (non-semantic: loggers, locks)
    """

    def __init__(self, name, call, make_args, canon=None, kind="encode", mutators=None, bad_args=None, observe=None,
                 serialise=None, near=None, domain=None, probes=None, draws=1, edit_skip=(), group=None):
        self.name = name
        self.call = call
        self.make_args = make_args
        self.canon = canon or globals()["canon"]
        self.kind = kind
        self.mutators = mutators or []
        self.bad_args = bad_args
        self.observe = observe
        self.serialise = serialise
        self.near = near
        self.domain = domain
        self.probes = probes
        self.draws = draws
        self.edit_skip = tuple(edit_skip)
        self.group = group

    def args(self, draw):
        a = self.make_args(random.Random(f"hist:{self.name}:{draw}"))
        return tuple(a) if isinstance(a, (tuple, list)) else (a,)

    def run(self, args, limit=None):
        try:
            return _limited(self.call, args, limit) if limit else self.call(*args)
        except Exception as e:  # noqa: the real code may raise anything
            return _Raised(e)

    def ans(self, args):
        return self.can(self.run(args))

    def can(self, r):
        if isinstance(r, _Raised):
            return "ERR " + type(r.exc).__name__
        try:
            return self.canon(r)
        except Exception as e:  # noqa: canonicalising a half-built object may raise: that is an observable too
            return "ERR(canon) " + type(e).__name__


class _Raised:
    def __init__(self, exc):
        self.exc = exc


class CallTimeout(Exception):
    """a call with a BAD argument did not return within the limit (a huge int taken as a count ...): treated as raised"""


def _limited(fn, args, seconds=2.0):
    """fn(*args) with an interval timer (main thread only; elsewhere: no limit)"""
    import signal
    import threading
    if threading.current_thread() is not threading.main_thread():
        return fn(*args)

    def on_alarm(signum, frame):
        raise CallTimeout()
    old = signal.signal(signal.SIGALRM, on_alarm)
    signal.setitimer(signal.ITIMER_REAL, seconds)
    try:
        return fn(*args)
    finally:
        signal.setitimer(signal.ITIMER_REAL, 0)
        signal.signal(signal.SIGALRM, old)


def class_state(*classes):
    """observe() helper: canonical value of the non-callable class attributes (class-level registers, memo tables)"""
    def observe():
        out = {}
        for c in classes:
            for k, v in sorted(vars(c).items()):
                if k.startswith("__") or callable(v) or isinstance(v, (staticmethod, classmethod, property)):
                    continue
                if type(v).__name__ in ("Logger", "member_descriptor", "getset_descriptor"):
                    continue
                out[f"{c.__name__}.{k}"] = canon(v)
        return out
    return observe


# ------------------------------------------------------------------------------------------------ canonical form
def _is_lib_obj(x):
    t = type(x)
    return hasattr(x, "__dict__") and not isinstance(x, (type, enum.Enum)) and t.__module__ not in ("builtins",) and not callable(x)


def canon(x, _path=(), _depth=0):
    """bits -> '0101', bytes -> hex, enums -> Class.NAME, objects -> sorted field dict (shared sub-objects are expanded
    again, only a reference to an ANCESTOR becomes '<cycle>'), exceptions -> 'ERR <Class>'; no reprs with addresses"""
    if isinstance(x, _Raised):
        return "ERR " + type(x.exc).__name__
    if isinstance(x, BaseException):
        return "ERR " + type(x).__name__
    if x is None or isinstance(x, (bool, str)):
        return x
    if isinstance(x, enum.Enum):
        v = x.value  # the value belongs to the canonical form: a member whose _value_ was overwritten is another answer
        return f"{type(x).__name__}.{x.name}" + (f"={v}" if isinstance(v, (int, str, bool)) else "")
    if isinstance(x, int):
        return x if abs(x) < (1 << 62) else str(x)
    if isinstance(x, float):
        return repr(x)
    if bitarray is not None and isinstance(x, bitarray):
        # the bit sequence is the value: a little-endian bitarray with the same bits answers the same (the entry
        # point's own canon may add .tobytes() where the octet image matters)
        return "b:" + x.to01()
    if isinstance(x, (bytes, bytearray)):
        return "x:" + bytes(x).hex()
    if isinstance(x, memoryview):
        return "x:" + x.tobytes().hex()
    if isinstance(x, _array.array):
        return {"array": x.tolist(), "typecode": x.typecode}
    if _np is not None and isinstance(x, _np.ndarray):
        return {"np": x.tolist(), "shape": list(x.shape)}
    if _np is not None and isinstance(x, _np.generic):
        return canon(x.item())
    if _depth > 12:
        return "<deep>"
    if any(x is a for a in _path):
        return f"<cycle:{type(x).__name__}>"
    p = _path + (x,)
    if isinstance(x, (list, tuple)):
        return [canon(v, p, _depth + 1) for v in x]
    if isinstance(x, (set, frozenset)):
        return {"set": sorted((canon(v, p, _depth + 1) for v in x), key=lambda v: json.dumps(v, sort_keys=True, default=str))}
    if isinstance(x, dict):
        items = [(json.dumps(canon(k, p, _depth + 1), sort_keys=True, default=str), canon(v, p, _depth + 1)) for k, v in x.items()]
        return {"dict": sorted(items, key=lambda kv: kv[0])}
    if hasattr(x, "isoformat"):
        try:
            return "t:" + x.isoformat()
        except Exception:  # noqa
            pass
    d = _fields(x)
    if d is not None:
        out = {"__class__": type(x).__name__}
        for k in sorted(d):
            v = d[k]
            if callable(v) and not isinstance(v, enum.Enum):
                continue
            out[k] = canon(v, p, _depth + 1)
        return out
    r = repr(x)
    return f"<{type(x).__name__}>" if " at 0x" in r else f"<{type(x).__name__}:{r[:80]}>"


def _fields(x):
    if isinstance(x, type):
        return None
    d = None
    if hasattr(x, "__dict__") and isinstance(getattr(x, "__dict__"), dict):
        d = dict(x.__dict__)
    slots = []
    for c in type(x).__mro__:
        s = c.__dict__.get("__slots__")
        if s:
            slots += [s] if isinstance(s, str) else list(s)
    if slots:
        d = d or {}
        for s in slots:
            if s not in ("__dict__", "__weakref__") and hasattr(x, s):
                d[s] = getattr(x, s)
    if d is None:
        return None
    return {k: v for k, v in d.items() if type(v).__name__ not in ("Logger", "lock", "RLock")}


def diff(exp, act, path="", out=None, cap=6):
    """the places where two canonical values differ: [(path, expected, actual)]"""
    out = [] if out is None else out
    if len(out) >= cap or exp == act:
        return out
    if isinstance(exp, dict) and isinstance(act, dict) and "dict" in exp and "dict" in act and isinstance(exp["dict"], list):
        e, a = dict(map(tuple, exp["dict"])), dict(map(tuple, act["dict"]))
        for k in sorted(set(e) | set(a)):
            diff(e.get(k, "<absent>"), a.get(k, "<absent>"), f"{path}[{k}]", out, cap)
    elif isinstance(exp, dict) and isinstance(act, dict):
        for k in sorted(set(exp) | set(act)):
            diff(exp.get(k, "<absent>"), act.get(k, "<absent>"), f"{path}.{k}", out, cap)
    elif isinstance(exp, list) and isinstance(act, list) and len(exp) == len(act):
        for i, (x, y) in enumerate(zip(exp, act)):
            diff(x, y, f"{path}[{i}]", out, cap)
    else:
        out.append((path or "<value>", exp, act))
    return out


def short(c, n=160):
    s = c if isinstance(c, str) else json.dumps(c, sort_keys=True, default=str)
    return s if len(s) <= n else s[: n - 12] + f"...({len(s)} chars)"


# ------------------------------------------------------------------------------------------------ object graph
def _mutable_leaf(x):
    if bitarray is not None and isinstance(x, bitarray):
        return not (frozenbitarray is not None and isinstance(x, frozenbitarray))
    if isinstance(x, (bytearray, list, dict, set, _array.array)):
        return True
    if _np is not None and isinstance(x, _np.ndarray):
        return True
    return False


def nodes(root, cap=64):
    """[(path, node)] of the mutable nodes reachable from root (breadth first, each object once)"""
    out, seen, todo = [], set(), [("", root, 0)]
    while todo and len(out) < cap:
        path, x, depth = todo.pop(0)
        if id(x) in seen or depth > 8:
            continue
        if isinstance(x, (type, enum.Enum)) or x is None or isinstance(x, (int, float, str, bytes, bool)):
            continue
        seen.add(id(x))
        if _mutable_leaf(x):
            out.append((path or "<result>", x))
        if isinstance(x, (list, tuple)):
            for i, v in enumerate(x[:32]):
                todo.append((f"{path}[{i}]", v, depth + 1))
        elif isinstance(x, dict):
            for k, v in list(x.items())[:32]:
                todo.append((f"{path}[{k!r}]", v, depth + 1))
        elif not _mutable_leaf(x):
            d = _fields(x)
            if d is not None and not callable(x):
                out.append((path or "<result>", x))
                for k in sorted(d):
                    todo.append((f"{path}.{k}", d[k], depth + 1))
    return out


def _other_value(v, donor=None, salt=0):
    """another value of the same kind as v (never v itself); None when there is nothing sensible"""
    if donor is not None and type(donor) is type(v):
        try:
            if donor != v:
                return donor
        except Exception:  # noqa
            pass
    if isinstance(v, bool):
        return not v
    if isinstance(v, enum.Enum):
        ms = list(type(v))
        if len(ms) < 2:
            return None
        m = ms[(ms.index(v) + 1 + salt) % len(ms)]
        return m if m is not v else ms[(ms.index(v) + 1) % len(ms)]
    if isinstance(v, int):
        return v ^ (1 << (salt % 3)) if v >= 0 else v - 1
    if isinstance(v, float):
        return v + 1.0
    if isinstance(v, bytes):
        return (bytes([v[0] ^ 1]) + v[1:]) if v else b"\x01"
    if isinstance(v, str):
        return (v[:-1] + ("y" if v[-1:] != "y" else "z")) if v else "x"
    if bitarray is not None and isinstance(v, bitarray):
        w = v.copy()
        if len(w):
            w[salt % len(w)] = not w[salt % len(w)]
        else:
            w.append(1)
        return w
    if isinstance(v, bytearray):
        return bytearray(_other_value(bytes(v)))
    if isinstance(v, tuple) and v and all(isinstance(e, int) for e in v):
        return (v[0] ^ 1,) + v[1:]
    return None


def node_mutators(x, ep=None, all_of_them=False):
    """[(label, apply)] where apply() edits x in place and returns an undo closure (or raises: the edit is skipped)"""
    ms = []
    if bitarray is not None and isinstance(x, bitarray):
        def mk(fn):
            def apply():
                saved = x.copy()
                fn()

                def undo():
                    x.clear()
                    x.extend(saved)
                return undo
            return apply
        if len(x):
            ms.append(("invert-bit-0", mk(lambda: x.__setitem__(0, not x[0]))))
            ms.append(("invert-last-bit", mk(lambda: x.__setitem__(len(x) - 1, not x[len(x) - 1]))))
            ms.append(("del-first-bits", mk(lambda: x.__delitem__(slice(0, max(1, len(x) // 3))))))
            ms.append(("clear", mk(lambda: x.clear())))
            ms.append(("setall-complement", mk(lambda: x.invert())))
        ms.append(("extend", mk(lambda: x.extend([1, 0, 1]))))
    elif isinstance(x, (bytearray, list, _array.array)):
        def mk(fn):
            def apply():
                saved = list(x)
                fn()

                def undo():
                    x[:] = _array.array(x.typecode, saved) if isinstance(x, _array.array) else type(x)(saved)
                return undo
            return apply

        def tweak0():
            v = _other_value(x[0])
            if v is None:
                raise ValueError("no other value")
            x[0] = v
        if len(x):
            ms.append(("edit-[0]", mk(tweak0)))
            ms.append(("del-first", mk(lambda: x.__delitem__(0))))
            ms.append(("clear", mk(lambda: x.__delitem__(slice(None, None)))))
            if len(x) > 1:
                ms.append(("reverse", mk(lambda: x.reverse())))
        ms.append(("append", mk(lambda: x.append(x[-1] if len(x) else 1))))
    elif isinstance(x, dict):
        def mk(fn):
            def apply():
                saved = dict(x)
                fn()

                def undo():
                    x.clear()
                    x.update(saved)
                return undo
            return apply
        if x:
            k0 = next(iter(x))
            ms.append(("pop-first-key", mk(lambda: x.pop(k0))))
            ms.append(("clear", mk(lambda: x.clear())))

            def tweakv():
                v = _other_value(x[k0])
                if v is None:
                    raise ValueError("no other value")
                x[k0] = v
            ms.append(("edit-first-value", mk(tweakv)))
        ms.append(("add-key", mk(lambda: x.__setitem__("__hist_probe__", 1))))
    elif isinstance(x, set):
        def apply():
            saved = set(x)
            x.clear()

            def undo():
                x.update(saved)
            return undo
        ms.append(("clear", apply))
    elif _np is not None and isinstance(x, _np.ndarray):
        if x.size and x.flags.writeable:
            def mkflip(pos):
                def apply():
                    flat = x.reshape(-1)  # a view for contiguous arrays: writes through
                    if not _np.shares_memory(flat, x):
                        raise ValueError("reshape copied")
                    old = flat[pos].copy()
                    flat[pos] = (not old) if x.dtype == bool else (old ^ 1 if _np.issubdtype(x.dtype, _np.integer) else old + 1)

                    def undo():
                        flat[pos] = old
                    return undo
                return apply
            ms.append(("flip-entry-0", mkflip(0)))
            ms.append(("flip-last-entry", mkflip(x.size - 1)))
    else:
        d = _fields(x) or {}
        skip = ep.edit_skip if ep is not None else ()
        for k in sorted(d):
            if k in skip:
                continue
            v = d[k]
            nv = _other_value(v)
            if nv is None or _mutable_leaf(v):
                continue  # mutable members are nodes of their own

            def apply(k=k, v=v, nv=nv):
                setattr(x, k, nv)

                def undo():
                    setattr(x, k, v)
                return undo
            ms.append((f"setattr {k}", apply))
    for label, fn in (ep.mutators if ep is not None else []):
        ms.append((label, (lambda fn=fn: fn(x))))
    if not all_of_them and len(ms) > 3:
        ms = ms[:2] + [ms[-1]] if not _is_lib_obj(x) else ms
    return ms


# ------------------------------------------------------------------------------------------------ reviewed sharing (C19)
_REVIEWED = None


def reviewed_ids():
    """ids of the library-held objects that c19.aliases.json records as shared with results / other instances on the
    UNCHANGED tree (labels `default:Cls.__init__(param)`, `class:Cls.attr...`) plus everything reachable from the
    `reviewed_result_roots` prefixes (`class:LRRP.`).  A node with such an identity is not edited (counted)."""
    global _REVIEWED
    if _REVIEWED is not None:
        return _REVIEWED
    ids = {}
    try:
        doc = json.load(open(ALIASES_FILE))
    except Exception:  # noqa
        _REVIEWED = ids
        return ids
    import importlib
    for e in doc.get("reviewed", []):
        # the module that defines the class of the entry may not have been imported yet (lazy imports of the library)
        try:
            importlib.import_module("okdmr.dmrlib." + e["cls"].split(":")[0])
        except Exception:  # noqa
            pass
    classes = {}
    for mn, m in list(sys.modules.items()):
        if m is None or not mn.startswith("okdmr."):
            continue
        for k, v in list(vars(m).items()):
            if isinstance(v, type) and getattr(v, "__module__", "").startswith("okdmr."):
                classes.setdefault(k, v)

    def resolve(label):
        import inspect
        if label.startswith("default:"):
            cn, rest = label[8:].split(".", 1)
            fn, param = rest.rstrip(")").split("(")
            c = classes.get(cn)
            if c is None:
                return None
            try:
                return inspect.signature(getattr(c, fn)).parameters[param].default
            except Exception:  # noqa
                return None
        if label.startswith("class:"):
            parts = label[6:].split(".")
            o = classes.get(parts[0])
            for a in parts[1:]:
                if o is None:
                    return None
                o = getattr(o, a, None)
            return o
        return None

    for e in doc.get("reviewed", []):
        if e.get("with") == "library":
            o = resolve(e.get("label", ""))
            if o is not None and _mutable_leaf(o) or (o is not None and _is_lib_obj(o)):
                ids[id(o)] = e["label"]
    for r in doc.get("reviewed_result_roots", []):
        pre = r.get("prefix", "")
        if pre.startswith("class:"):
            c = classes.get(pre[6:].rstrip("."))
            if c is None:
                continue
            for k, v in list(vars(c).items()):
                if k.startswith("__") or callable(v) or isinstance(v, (staticmethod, classmethod, property)):
                    continue
                for _, n in nodes(v, cap=20000):
                    ids[id(n)] = pre + k
    _REVIEWED = ids
    return ids


# ------------------------------------------------------------------------------------------------ bad values, near variants
class _Colour(enum.Enum):
    RED = 1


def generic_bad(good):
    """[(label, value)]: generic bad values plus value-preserving type confusions / length errors of the good value"""
    out = [
        ("None", None), ("int 0", 0), ("int 7", 7), ("int -1", -1), ("huge int", 1 << 70), ("float", 1.5), ("str", "x"),
        ("empty str", ""), ("bytes", b"\x01\x02"), ("empty bytes", b""), ("list", [1, 2, 3]), ("empty list", []),
        ("list with 300", [1, 300, 2]), ("tuple", (1, 2)), ("object()", object()), ("Enum member", _Colour.RED), ("True", True),
        ("dict", {"a": 1}),
    ]
    if bitarray is not None:
        out += [("empty bitarray", bitarray()), ("bitarray 101", bitarray("101"))]
    g = good
    if isinstance(g, (bytes, bytearray)):
        b = bytes(g)
        out += [("good as int", int.from_bytes(b, "big") if b else 0), ("good as hex str", b.hex()), ("good as list", list(b)),
                ("good as list, one element 256", list(b[:-1]) + [256] if b else [256]),
                ("good as list, first element 256", [256] + list(b[1:])),
                ("good as list, middle element -1", list(b[: len(b) // 2]) + [-1] + list(b[len(b) // 2 + 1:])),
                ("good as list, last element None", list(b[:-1]) + [None]),
                ("good as str", b.decode("latin-1")), ("good minus last octet", b[:-1]), ("good plus one octet", b + b"\x00"),
                ("good as tuple", tuple(b)), ("good as memoryview", memoryview(b))]
        if bitarray is not None:
            ba = bitarray(endian="big")
            ba.frombytes(b)
            out.append(("good as bitarray", ba))
    elif bitarray is not None and isinstance(g, bitarray):
        out += [("good as 01 str", g.to01()), ("good as bytes", g.tobytes()), ("good as list of bools", g.tolist()),
                ("good as int", int(g.to01() or "0", 2)), ("good minus last bit", g[:-1]), ("good plus one bit", g + bitarray("0")),
                ("good as list, last element 2", g.tolist()[:-1] + [2]), ("good as list, last element None", g.tolist()[:-1] + [None])]
    elif isinstance(g, enum.Enum):
        out += [("good's value", g.value), ("good's name", g.name)]
    elif isinstance(g, bool):
        out += [("good as str", str(g))]
    elif isinstance(g, int):
        out += [("good as str", str(g)), ("good as bytes", g.to_bytes(max(1, (g.bit_length() + 7) // 8), "big") if g >= 0 else b"\xff"),
                ("good as float + .5", g + 0.5), ("good + 2^64", g + (1 << 64)), ("negative good", -g - 1)]
    elif isinstance(g, str):
        out += [("good as bytes", g.encode("utf-8", "surrogatepass")), ("good as list of chars", list(g))]
    elif isinstance(g, (list, tuple)):
        out += [("good minus last", g[:-1]), ("good plus None", type(g)(list(g) + [None])), ("good as other sequence type", tuple(g) if isinstance(g, list) else list(g))]
    elif _np is not None and isinstance(g, _np.ndarray):
        out += [("good as list", g.tolist()), ("good flattened minus one", g.reshape(-1)[:-1].copy()), ("good as float array", g.astype(float)),
                ("good as bytes", g.tobytes())]
    elif _is_lib_obj(g):
        d = _fields(g) or {}
        for k in sorted(d)[:6]:
            out.append((f"good with .{k} = None", ("__setattr__", k, None)))
            out.append((f"good without .{k}", ("__delattr__", k)))
        # one nested scalar made unusable (a call that fails AFTER part of the work was done: last elements first)
        deep = [(pth, v) for pth, v in _attr_paths(g, cap=40) if len(pth) > 1]
        for pth, v in deep[-6:] + deep[:4]:
            out.append((f"good with {_pathstr(pth)} = None", ("__setpath__", list(pth), None)))
            out.append((f"good with {_pathstr(pth)} = 2^70", ("__setpath__", list(pth), 1 << 70)))
    return out


def _bad_list(ep, pos, good):
    out = generic_bad(good)
    ba = ep.bad_args
    if isinstance(ba, dict):
        out += list(ba.get(pos, [])) + list(ba.get("*", []))
    elif ba:
        out += list(ba)
    return out


def _apply_bad(args, pos, bad):
    a = list(args)
    if isinstance(bad, tuple) and len(bad) >= 2 and bad[0] in ("__setattr__", "__delattr__", "__setpath__"):
        try:
            if bad[0] == "__setpath__":
                owner = _walk(a[pos], bad[1][:-1])
                if id(owner) in reviewed_ids():
                    return None  # an object the library shares by (reviewed) design (a default argument object): not written to
                setattr(owner, bad[1][-1], bad[2])
            elif bad[0] == "__setattr__":
                setattr(a[pos], bad[1], bad[2])
            else:
                delattr(a[pos], bad[1])
        except Exception:  # noqa
            return None
        return tuple(a)
    a[pos] = bad
    return tuple(a)


def generic_near(args):
    """[(label, args)] argument tuples adversarially close to args: same octet image / other bit length, same bits other
    endianness, values colliding modulo 128 / 256, equal-comparing values of another type"""
    out = []

    def put(label, pos, v):
        a = list(args)
        a[pos] = v
        out.append((f"arg{pos}: {label}", tuple(a)))

    for i, g in enumerate(args):
        if bitarray is not None and isinstance(g, bitarray):
            n = len(g)
            pad = (-n) % 8
            put("plus one zero bit", i, g + bitarray("0"))
            if pad:
                put("zero-padded to the octet boundary (same octet image)", i, g + bitarray(pad))
            else:
                put("plus eight zero bits", i, g + bitarray(8))
            if n:
                put("minus last bit", i, g[:-1])
                put("first bit inverted", i, ~g[:1] + g[1:])
                put("last bit inverted", i, g[:-1] + ~g[-1:])
                put("all-zero of the same length", i, bitarray(n))
                put("complement", i, ~g)
                put("reversed", i, g[::-1])
            le = bitarray(g.to01(), endian="little" if g.endian() == "big" else "big")
            put("same bits, other endianness", i, le)
            le2 = bitarray(endian="little" if g.endian() == "big" else "big")
            le2.frombytes(g.tobytes())
            if pad == 0:
                put("same octets, other endianness", i, le2)
        elif isinstance(g, (bytes, bytearray)):
            t = type(g)
            b = bytes(g)
            put("plus one zero octet", i, t(b + b"\x00"))
            if b:
                put("minus last octet", i, t(b[:-1]))
                put("last octet ^ 0x80", i, t(b[:-1] + bytes([b[-1] ^ 0x80])))
                put("first octet ^ 0x80", i, t(bytes([b[0] ^ 0x80]) + b[1:]))
                put("last octet = 0xff", i, t(b[:-1] + b"\xff"))
                put("every octet | 0x80", i, t(bytes(x | 0x80 for x in b)))
                put("every octet & 0x7f", i, t(bytes(x & 0x7F for x in b)))
                put("all-zero of the same length", i, t(bytes(len(b))))
                put("reversed", i, t(b[::-1]))
                put("last octet + 1", i, t(b[:-1] + bytes([(b[-1] + 1) & 0xFF])))
            put("other octet-string type", i, bytearray(b) if isinstance(g, bytes) else bytes(b))
        elif isinstance(g, bool):
            put("int of the bool", i, int(g))
            put("negated", i, not g)
        elif isinstance(g, enum.Enum):
            ms = list(type(g))
            j = ms.index(g)
            for k in (1, -1):
                if ms[(j + k) % len(ms)] is not g:
                    put(f"enum neighbour {k:+d}", i, ms[(j + k) % len(ms)])
        elif isinstance(g, int):
            for d in (128, 256, -128, -256, 1, -1, 65536):
                put(f"{d:+d}", i, g + d)
            put("^0x80", i, g ^ 0x80)
            if g in (0, 1):
                put("bool of the int", i, bool(g))
            put("float of the int", i, float(g))
        elif isinstance(g, str):
            put("plus NUL", i, g + "\x00")
            put("upper", i, g.upper())
            put("plus space", i, g + " ")
        elif hasattr(g, "tzinfo") and hasattr(g, "astimezone"):
            import datetime as _dt
            try:
                if g.tzinfo is not None:
                    put("same instant, other zone", i, g.astimezone(_dt.timezone(_dt.timedelta(hours=5, minutes=30))))
                else:
                    put("plus one microsecond", i, g + _dt.timedelta(microseconds=1))
            except Exception:  # noqa
                pass
        elif _np is not None and isinstance(g, _np.ndarray) and g.size:
            h = g.copy()
            f = h.reshape(-1)
            f[0] = (not f[0]) if h.dtype == bool else f[0] ^ 1 if _np.issubdtype(h.dtype, _np.integer) else f[0] + 1
            put("first entry flipped", i, h)
            put("all-zero of the same shape", i, _np.zeros_like(g))
            ro = g.copy()
            ro.setflags(write=False)
            put("read-only copy", i, ro)
    return out


def near_variants(ep, draw):
    """module-made variants first (label 'module: ...'), then the generic ones"""
    out = []
    if ep.near is not None:
        try:
            out += [(f"module: {l}", tuple(a)) for l, a in ep.near(ep.args(draw), random.Random(f"hist-near:{ep.name}:{draw}"))]
        except Exception:  # noqa
            pass
    return out + generic_near(ep.args(draw))


def materialise(eps, spec):
    """spec {"ep", "draw", "near": label | None, "bad": [pos, label] | None, "as": ep name whose args are used} -> (ep, args) or (ep, None)"""
    ep = eps[spec["ep"]]
    src = eps[spec.get("as") or spec["ep"]]
    args = src.args(spec["draw"])
    if spec.get("near"):
        for l, a in near_variants(src, spec["draw"]):
            if l == spec["near"]:
                args = a
                break
        else:
            return ep, None
    if spec.get("bad"):
        pos, label = spec["bad"]
        for l, v in _bad_list(ep, pos, args[pos]):
            if l == label:
                args = _apply_bad(args, pos, v)
                break
        else:
            return ep, None
    return ep, args


# ------------------------------------------------------------------------------------------------ the probes
# each probe: fn(eps: {name: EP}, p: params dict) -> None | {"what", "expected", "actual", "steps"}; params are JSON-able


def probe_repeat(eps, p):
    ep = eps[p["ep"]]
    c0 = ep.ans(ep.args(p["draw"]))
    c1 = ep.ans(ep.args(p["draw"]))
    if c1 != c0:
        return {"what": f"{ep.name}: the same request with fresh, equal arguments is answered differently the second time",
                "expected": c0, "actual": c1, "steps": [f"r0 = {ep.name}(args#{p['draw']})", f"r1 = {ep.name}(fresh equal args)"]}
    return None


def _copy_into(dst, src):
    """copy the content of src INTO the container object dst (same type family); True when done"""
    if bitarray is not None and isinstance(dst, bitarray) and isinstance(src, bitarray) and not (frozenbitarray and isinstance(dst, frozenbitarray)):
        dst.clear()
        dst.extend(src)
        return True
    if isinstance(dst, bytearray) and isinstance(src, (bytes, bytearray)):
        dst[:] = src
        return True
    if isinstance(dst, _array.array) and isinstance(src, _array.array) and dst.typecode == src.typecode:
        dst[:] = src
        return True
    if isinstance(dst, list) and isinstance(src, (list, tuple)):
        dst[:] = list(src)
        return True
    if isinstance(dst, dict) and isinstance(src, dict):
        dst.clear()
        dst.update(src)
        return True
    if isinstance(dst, set) and isinstance(src, (set, frozenset)):
        dst.clear()
        dst.update(src)
        return True
    if _np is not None and isinstance(dst, _np.ndarray) and isinstance(src, _np.ndarray) and dst.shape == src.shape and dst.flags.writeable:
        dst[...] = src
        return True
    if _is_lib_obj(dst) and type(dst) is type(src):
        d = _fields(src) or {}
        ok = False
        for k, v in d.items():
            try:
                setattr(dst, k, v)
                ok = True
            except Exception:  # noqa
                pass
        return ok
    return False


def _promote(x):
    """a mutable object of equal content for an immutable octet / bit string"""
    if isinstance(x, bytes):
        return bytearray(x)
    if frozenbitarray is not None and isinstance(x, frozenbitarray):
        return bitarray(x)
    if isinstance(x, tuple) and all(isinstance(e, int) for e in x):
        return list(x)
    return None


def probe_same_object(eps, p):
    ep = eps[p["ep"]]
    d, d2 = p["draw"], p["draw2"]
    a = list(ep.args(d))
    steps = []
    if p.get("promote"):
        ref = ep.ans(ep.args(d))
        for i, x in enumerate(a):
            m = _promote(x)
            if m is not None:
                trial = list(ep.args(d))
                trial[i] = m
                if not (isinstance(ref, str) and ref.startswith("ERR")) and ep.ans(tuple(trial)) == ref:
                    a[i] = _promote(x)
                    steps.append(f"argument {i} given as {type(a[i]).__name__} (accepted: same answer as {type(x).__name__})")
    b = ep.args(d2)
    if len(b) != len(a):
        return "n/a"
    fresh_b = list(ep.args(d2))
    for i, x in enumerate(a):
        if i < len(fresh_b) and type(x) is not type(fresh_b[i]) and _promote(fresh_b[i]) is not None and type(_promote(fresh_b[i])) is type(x):
            fresh_b[i] = _promote(fresh_b[i])  # the reference gets the same argument TYPES (a parser may keep slices of what it is given)
    rb = ep.ans(tuple(fresh_b))  # the reference is taken BEFORE the history (a memo that aliases `a` would answer it wrongly afterwards)
    steps.append(f"rb = {ep.name}(fresh args#{d2}) = {short(rb, 80)}")
    r0 = ep.ans(tuple(a))
    steps.append(f"a = args#{d}; r0 = {ep.name}(*a) = {short(r0, 80)}")
    same = 0
    for i in range(len(a)):
        if _copy_into(a[i], b[i]):
            same += 1
        else:
            a[i] = b[i]
    if not same:
        return "n/a"
    steps.append(f"the content of args#{d2} copied INTO the same container objects of a ({same} kept objects)")
    if canon(tuple(a)) != canon(tuple(ep.args(d2))):
        # the copy is not equal by value (type promoted: bytearray vs bytes compare equal in canon; anything else: skip)
        return "n/a"
    r1 = ep.ans(tuple(a))
    steps += [f"r1 = {ep.name}(*a)"]
    if r1 != rb:
        return {"what": f"{ep.name}: called again with the SAME argument objects after their content was replaced in place, it does not answer like a call with fresh objects of that content"
                        + (" (it repeats the answer for the old content)" if r1 == r0 else ""),
                "expected": rb, "actual": r1, "steps": steps}
    again = list(ep.args(d2))
    for i, x in enumerate(fresh_b):
        if type(x) is not type(again[i]) and _promote(again[i]) is not None:
            again[i] = _promote(again[i])
    rb2 = ep.ans(tuple(again))
    if rb2 != rb:
        return {"what": f"{ep.name}: after a call whose argument objects were then edited in place by the caller, a request with fresh objects is answered differently from before",
                "expected": rb, "actual": rb2, "steps": steps + [f"rb2 = {ep.name}(fresh args#{d2})"]}
    return None


def probe_argument_kept(eps, p):
    ep = eps[p["ep"]]
    a = ep.args(p["draw"])
    if p.get("promote"):
        a = tuple(_promote(x) if _promote(x) is not None else x for x in a)
    before = canon(a)
    r = ep.run(a)
    after = canon(a)
    if after != before:
        # reviewed reading (DESIGN 5 C19): a documented in-place repair may change its argument iff it RETURNS that buffer
        outs = [r] + (list(r) if isinstance(r, (tuple, list)) else [])
        b4 = before if isinstance(before, list) else [before]
        af = after if isinstance(after, list) else [after]
        changed = [x for x, c0, c1 in zip(a, b4, af) if c0 != c1]
        if changed and all(any(x is y for y in outs) for x in changed):
            return "in-place-repair-returns-its-buffer"
        return {"what": f"{ep.name}: the caller's arguments are changed by the call",
                "expected": before, "actual": after, "steps": [f"a = args#{p['draw']}", f"{ep.name}(*a) -> {short(ep.can(r), 60)}", "a compared with its value before the call"]}
    return None


def probe_result_edit(eps, p, enumerate_only=False):
    """P2 / P7.  params: ep, draw, node (path), mutator (label); enumerate_only -> list of (node path, mutator label, reviewed?)"""
    ep = eps[p["ep"]]
    d = p["draw"]
    r0 = ep.run(ep.args(d))
    if isinstance(r0, _Raised):
        return [] if enumerate_only else "n/a"
    y = ep.run(ep.args(d))
    snap = ep.can(r0)
    ns = nodes(r0, cap=p.get("cap", 64))
    rev = reviewed_ids()
    if enumerate_only:
        out = []
        for path, n in ns:
            for label, _ in node_mutators(n, ep, all_of_them=p.get("all", False)):
                out.append((path, label, id(n) in rev))
        return out
    for path, n in ns:
        if path != p["node"]:
            continue
        if id(n) in rev:
            return "reviewed"
        for label, apply in node_mutators(n, ep, all_of_them=True):
            if label != p["mutator"]:
                continue
            try:
                undo = apply()
            except Exception:  # noqa
                return "n/a"
            try:
                c1 = ep.ans(ep.args(d))
                cy = ep.can(y)
            finally:
                try:
                    undo()
                except Exception:  # noqa
                    pass
            word = "parsed again" if ep.kind in ("parse", "decode") else "asked again"
            steps = [f"r0 = {ep.name}(args#{d}); y = {ep.name}(fresh equal args)", f"edit r0{'' if path == '<result>' else path} in place: {label}"]
            if c1 != snap:
                return {"what": f"{ep.name}: after the caller edited the object it was given ({path}: {label}), the same request {word} with fresh arguments is answered differently (the result is a view / alias of library state or a shared cached object)",
                        "expected": snap, "actual": c1, "steps": steps + [f"r1 = {ep.name}(fresh equal args)"]}
            if cy != snap:
                return {"what": f"{ep.name}: editing one result in place ({path}: {label}) changes ANOTHER result of an equal request that the caller holds (both share a mutable sub-object)",
                        "expected": snap, "actual": cy, "steps": steps + ["y compared with its value before the edit"]}
            return None
    return "n/a"


def _attr_paths(o, cap=48, skip=()):
    """[(path tuple, value)] of the scalar-valued attributes (int, bool, bytes, str, Enum, bitarray, bytearray, None excluded) of o and of nested library objects"""
    out, seen, todo = [], set(), [((), o, 0)]
    while todo and len(out) < cap:
        path, x, depth = todo.pop(0)
        if id(x) in seen or depth > 5:
            continue
        seen.add(id(x))
        d = _fields(x)
        if d is None:
            continue
        for k in sorted(d):
            if k in skip:
                continue
            v = d[k]
            if isinstance(v, (bool, int, float, bytes, str, enum.Enum, bytearray)) or (bitarray is not None and isinstance(v, bitarray)):
                out.append((path + (k,), v))
            elif isinstance(v, (list, tuple)):
                for i, e in enumerate(v[:8]):
                    if _is_lib_obj(e):
                        todo.append((path + (k, i), e, depth + 1))
            elif _is_lib_obj(v):
                todo.append((path + (k,), v, depth + 1))
    return out


def _walk(o, path):
    for k in path:
        o = o[k] if isinstance(k, int) else getattr(o, k)
    return o


def _pathstr(path):
    return "".join(f"[{k}]" if isinstance(k, int) else f".{k}" for k in path)


def probe_twin(eps, p, enumerate_only=False):
    """P6.  params: ep, draw, draw2 (donor), path (list), mode "assign" | "inplace" """
    ep = eps[p["ep"]]
    d = p["draw"]
    o = ep.run(ep.args(d))
    if isinstance(o, _Raised) or _fields(o) is None:
        return [] if enumerate_only else "n/a"
    donor = ep.run(ep.args(p["draw2"]))
    if enumerate_only:
        out = []
        for path, v in _attr_paths(o, skip=ep.edit_skip):
            out.append((list(path), "assign"))
            if isinstance(v, bytearray) or (bitarray is not None and isinstance(v, bitarray) and not (frozenbitarray and isinstance(v, frozenbitarray))):
                out.append((list(path), "inplace"))
        return out
    t = ep.run(ep.args(d))
    path = tuple(p["path"])

    def ser(x):
        try:
            return canon(ep.serialise(x))
        except Exception as e:  # noqa
            return "ERR " + type(e).__name__

    s0 = ser(o)
    restore = []
    try:
        v = _walk(o, path)
        try:
            dv = _walk(donor, path) if not isinstance(donor, _Raised) else None
        except Exception:  # noqa
            dv = None
        nv = _other_value(v, dv, salt=p.get("salt", 0))
        if nv is None:
            return "n/a"
        for x in (o, t):
            owner = _walk(x, path[:-1])
            if id(owner) in reviewed_ids():
                return "reviewed"  # an object the library shares by (reviewed) design, e.g. a default argument object: not written to
            if p["mode"] == "inplace":
                target = getattr(owner, path[-1])
                if id(target) in reviewed_ids():
                    return "reviewed"  # a container the library shares by (reviewed) design: not written to
                saved = target.copy()
                if not _copy_into(target, nv):
                    return "n/a"
                restore.append((target, saved))
            else:
                setattr(owner, path[-1], nv.copy() if hasattr(nv, "copy") and not isinstance(nv, (bytes, str)) else nv)
    except Exception:  # noqa: read-only property, missing attribute on the twin
        for target, saved in restore:
            _copy_into(target, saved)
        return "n/a"
    s1 = ser(o)
    st = ser(t)
    for target, saved in restore:
        _copy_into(target, saved)
    if s1 != st:
        how = "set to" if p["mode"] == "assign" else "content replaced in place by"
        return {"what": f"{ep.name}: an object that was serialised, then edited in place ({_pathstr(path)} {how} another value), serialises differently from a twin built alike that got the same edit but was never serialised before"
                        + (" (it repeats the earlier serialisation)" if s1 == s0 else ""),
                "expected": st, "actual": s1,
                "steps": [f"o = {ep.name}(args#{d}); t = {ep.name}(fresh equal args)", f"s0 = serialise(o) = {short(s0, 70)}   [t is not serialised]",
                          f"o{_pathstr(path)} and t{_pathstr(path)}: {how} {short(canon(nv), 50)} (was {short(canon(v), 50)})", "s1 = serialise(o); st = serialise(t)"]}
    return None


def probe_rebuilt(eps, p, enumerate_only=False):
    """P6b.  An argument OBJECT that the built object keeps by reference is edited in place after the first serialisation; the object must then
    serialise like a NEW object built from the same (edited) argument objects.  params: ep, draw, draw2, arg (index), path (list), mode"""
    ep = eps[p["ep"]]
    d = p["draw"]
    a = ep.args(d)
    o = ep.run(a)
    if isinstance(o, _Raised) or _fields(o) is None:
        return [] if enumerate_only else "n/a"
    inside = {id(n) for _, n in nodes(o, cap=200)}
    if enumerate_only:
        out = []
        for i, x in enumerate(a):
            if _is_lib_obj(x) and id(x) in inside:
                for path, v in _attr_paths(x, cap=24, skip=ep.edit_skip):
                    out.append((i, list(path), "assign"))
        return out
    i, path = p["arg"], tuple(p["path"])
    if not (_is_lib_obj(a[i]) and id(a[i]) in inside):
        return "n/a"

    def ser(x):
        try:
            return canon(ep.serialise(x))
        except Exception as e:  # noqa
            return "ERR " + type(e).__name__

    s0 = ser(o)
    donor = ep.args(p["draw2"])
    try:
        v = _walk(a[i], path)
        try:
            dv = _walk(donor[i], path)
        except Exception:  # noqa
            dv = None
        nv = _other_value(v, dv, salt=p.get("salt", 0))
        if nv is None:
            return "n/a"
        if id(_walk(a[i], path[:-1])) in reviewed_ids():
            return "reviewed"
        setattr(_walk(a[i], path[:-1]), path[-1], nv)
    except Exception:  # noqa
        return "n/a"
    s1 = ser(o)
    o2 = ep.run(a)
    if isinstance(o2, _Raised):
        return "n/a"  # the edited value is not one the constructor takes
    s2 = ser(o2)
    if s1 != s2:
        return {"what": f"{ep.name}: after an argument object the built object refers to was edited in place (argument {i}{_pathstr(path)}), the object serialises differently from a new object built from the very same (edited) argument objects"
                        + (" (it repeats the earlier serialisation)" if s1 == s0 else ""),
                "expected": s2, "actual": s1,
                "steps": [f"a = args#{d}; o = {ep.name}(*a); s0 = serialise(o) = {short(s0, 70)}", f"a[{i}]{_pathstr(path)} = {short(canon(nv), 50)} (was {short(canon(v), 50)}); o refers to a[{i}]",
                          f"s1 = serialise(o); o2 = {ep.name}(*a); s2 = serialise(o2)"]}
    return None


_ARG_ALIASES = None


def reviewed_argument_aliases():
    """{"module:Class": [attribute path, ...]} of the reviewed entries `with: argument` (the constructor keeps the caller's object as is)"""
    global _ARG_ALIASES
    if _ARG_ALIASES is None:
        _ARG_ALIASES = {}
        try:
            for e in json.load(open(ALIASES_FILE)).get("reviewed", []):
                if e.get("with") == "argument" and e.get("via") == "ctor" and "[" not in e.get("path", ""):
                    _ARG_ALIASES.setdefault(e["cls"], []).append(e["path"])
        except Exception:  # noqa
            pass
    return _ARG_ALIASES


def probe_alias_kept(eps, p):
    """P10.  The reviewed alias list says that a constructor keeps an argument object as it is (the caller may fill / edit it afterwards and
    the built object follows: HSTRP options, wrapped payloads, address bitarrays).  That is observable behaviour of the unchanged tree, so
    it is an expectation: the attribute IS one of the caller's argument objects of that type - for every draw, also for empty / falsy ones."""
    ep = eps[p["ep"]]
    a = ep.args(p["draw"])
    o = ep.run(a)
    if isinstance(o, _Raised) or _fields(o) is None:
        return "n/a"
    cls = f"{type(o).__module__.replace('okdmr.dmrlib.', '', 1)}:{type(o).__name__}"
    paths = reviewed_argument_aliases().get(cls)
    if not paths:
        return "n/a"
    for path in paths:
        try:
            attr = _walk(o, tuple(path.strip(".").split(".")))
        except Exception:  # noqa
            continue
        if attr is None or not (_is_lib_obj(attr) or _mutable_leaf(attr)):
            continue
        flat = []
        for x in a:
            flat.append(x)
            if isinstance(x, dict):
                flat += list(x.values())
            elif isinstance(x, (list, tuple)):
                flat += list(x)
        # the expectation applies when the caller handed in an object of that type with the content the attribute now has
        cands = [x for x in flat if type(x) is type(attr) and canon(x) == canon(attr)]
        if cands and not any(x is attr for x in cands):
            return {"what": f"{ep.name}: the built object does not keep the caller's argument object at {path} (the reviewed alias list records that this constructor keeps it as it is: what the caller adds to / edits in that object afterwards must show in the built object)",
                    "expected": f"o{path} is the caller's {type(attr).__name__} object", "actual": f"another {type(attr).__name__} object of equal content",
                    "steps": [f"a = args#{p['draw']}; o = {ep.name}(*a)", f"o{path} compared by identity with the arguments of its type"]}
    return None


def probe_failed_call(eps, p):
    """P5.  params: ep, draw, pos, bad (label), then (entry point asked afterwards), first (no reference call before the failing one, fresh-process only)"""
    ep = eps[p["ep"]]
    then = eps[p.get("then") or p["ep"]]
    d = p["draw"]
    ref = then.ans(then.args(d))
    obs0 = canon(ep.observe()) if ep.observe else None
    good = ep.args(d)
    bad = None
    for l, v in _bad_list(ep, p["pos"], good[p["pos"]]):
        if l == p["bad"]:
            bad = _apply_bad(good, p["pos"], v)
    if bad is None:
        return "n/a"
    r = ep.run(bad, limit=0.4)
    if not isinstance(r, _Raised):
        return "accepted"
    if isinstance(r.exc, CallTimeout):
        SLOW.add((ep.name, p["pos"], p["bad"]))
    r1 = then.ans(then.args(d))
    steps = [f"ref = {then.name}(args#{d}) = {short(ref, 70)}", f"{ep.name}(args#{d} with argument {p['pos']} := {p['bad']}) raises {type(r.exc).__name__}",
             f"r1 = {then.name}(fresh args#{d})"]
    if r1 != ref:
        return {"what": f"{ep.name}: a call that raised (argument {p['pos']} := {p['bad']}) left state behind: the next legal call of {then.name} answers differently from the same call made before the failing one",
                "expected": ref, "actual": r1, "steps": steps}
    if ep.observe:
        obs1 = canon(ep.observe())
        if obs1 != obs0:
            return {"what": f"{ep.name}: a call that raised (argument {p['pos']} := {p['bad']}) left library state changed",
                    "expected": obs0, "actual": obs1, "steps": steps[:2] + ["observe() compared with its value before"]}
    return None


def run_sequence(eps, seq):
    """seq: list of materialise() specs.  -> {"answers": [canon...], "held": [canon of result i re-taken after the last step]}"""
    results, answers = [], []
    for spec in seq:
        ep, args = materialise(eps, spec)
        if args is None:
            results.append(None)
            answers.append("n/a")
            continue
        r = ep.run(args, limit=2.0 if spec.get("bad") else None)
        results.append((ep, r))
        answers.append(ep.can(r))
    held = [("n/a" if x is None else x[0].can(x[1])) for x in results]
    return {"answers": answers, "held": held}


SLOW = set()  # (ep, position, bad label) whose call ran into the limit: not tried again in this process
TIMES = {}  # wall time per probe kind of the last run (development aid; never part of the evidence)
PROBES = {
    "repeat": probe_repeat,
    "same-object": probe_same_object,
    "argument-kept": probe_argument_kept,
    "result-edit": probe_result_edit,
    "parse-sharing": probe_result_edit,
    "twin": probe_twin,
    "rebuilt": probe_rebuilt,
    "alias-kept": probe_alias_kept,
    "failed-call": probe_failed_call,
}


# ------------------------------------------------------------------------------------------------ pristine child (fork server)
_BOOT = r"""
import json, os, sys
sys.path.insert(0, {harness!r})
alt = os.environ.get("VERIF_REPO")
if alt:
    sys.path.insert(0, alt)
import importlib
import histories
mod = importlib.import_module({module!r})
eps = histories.as_dict(getattr(mod, "ENTRY_POINTS"))
sys.stdout.write("ready\n"); sys.stdout.flush()
for line in sys.stdin:
    req = json.loads(line)
    r, w = os.pipe()
    pid = os.fork()
    if pid == 0:
        os.close(r)
        try:
            if req.get("replay") is not None:
                res = {{"replay": histories.replay(req["replay"], eps, quiet=True, child=False)}}
            else:
                res = histories.run_sequence(eps, req["seq"])
            out = json.dumps(res, default=str)
        except BaseException as e:
            out = json.dumps({{"error": type(e).__name__ + ": " + str(e)[:200]}})
        os.write(w, out.encode())
        os._exit(0)
    os.close(w)
    buf = b""
    while True:
        chunk = os.read(r, 65536)
        if not chunk:
            break
        buf += chunk
    os.close(r)
    os.waitpid(pid, 0)
    sys.stdout.write((buf.decode() or '{{"error": "child died"}}') + "\n"); sys.stdout.flush()
"""


class Pristine:
    """a child interpreter that imported the property module (and so the library) and made NO call; every request is
    run in a process forked from that state and thrown away"""

    def __init__(self, module):
        self.module = module
        self.p = None

    def start(self):
        code = _BOOT.format(harness=HERE, module=self.module)
        self.p = subprocess.Popen([PY, "-c", code], stdin=subprocess.PIPE, stdout=subprocess.PIPE, stderr=subprocess.DEVNULL, text=True, cwd=os.path.dirname(HERE))
        line = self.p.stdout.readline()
        if line.strip() != "ready":
            self.stop()
            raise RuntimeError("pristine child did not start")
        return self

    def ask(self, req):
        self.p.stdin.write(json.dumps(req, default=str) + "\n")
        self.p.stdin.flush()
        line = self.p.stdout.readline()
        if not line:
            raise RuntimeError("pristine child went away")
        return json.loads(line)

    def stop(self):
        if self.p is not None:
            try:
                self.p.stdin.close()
                self.p.wait(timeout=5)
            except Exception:  # noqa
                self.p.kill()
            self.p = None


def as_dict(eps):
    if callable(eps):
        eps = eps()
    if isinstance(eps, dict):
        return eps
    return {e.name: e for e in eps}


def _module_of(eps_owner):
    return eps_owner


# ------------------------------------------------------------------------------------------------ the run
def _applicable(ep, probe):
    if ep.probes is not None and probe not in ep.probes:
        return False
    if probe in ("twin", "rebuilt"):
        return ep.serialise is not None
    return True


def _changed_files():
    """library source files whose function hashes differ from the committed baseline (harness/drift.py); [] when unknown"""
    try:
        import drift
        base = json.load(open(drift.BASE))
        base = {k: v for k, v in base.items() if not k.startswith("__")}
        cur = {f: h for f, h in drift.snapshot(["okdmr/dmrlib"]).items() if "/tests/" not in f}
        return sorted(f for f in set(base) | set(cur) if base.get(f) != cur.get(f))
    except Exception:  # noqa
        return []


def _touches(ep, draw, files):
    """does one call of the entry point (arguments made, call, canonical form) execute code of one of these source files?"""
    seen = set()

    def prof(frame, event, arg):
        if event == "call":
            seen.add(frame.f_code.co_filename)
    old = sys.getprofile()
    sys.setprofile(prof)
    try:
        ep.can(ep.run(ep.args(draw)))
    except Exception:  # noqa
        pass
    finally:
        sys.setprofile(old)
    return any(f.replace(os.sep, "/").endswith(d) for f in seen for d in files)


class _Guard:
    def __init__(self, seconds):
        self.t_end = time.time() + seconds
        self.hit = False

    def ok(self):
        if time.time() > self.t_end:
            self.hit = True
            return False
        return True


def run(ctx, entry_points, module=None, draws=None, seconds=None, pristine=True, max_eps=14):
    """run every probe on every entry point; failures through ctx.fail(kind="history:<probe>", ...), counts hist:<probe>:<ep>"""
    eps = as_dict(entry_points)
    if not eps:
        return
    module = module or f"props.{ctx.prop.lower()}"
    base = ctx.rng.randrange(1 << 30)
    thorough = ctx.thorough()
    nd = draws if draws is not None else ctx.budget(2, 6)
    guard = _Guard(seconds if seconds is not None else (20 if not thorough else 300) * (2 if ctx.boost > 1 else 1))
    order = sorted(eps)
    rot = base % len(order)
    order = order[rot:] + order[:rot]
    drifted = [str(x).split("::")[0] for x in (getattr(ctx, "drift", None) or [])]
    if not drifted and len(order) > (max_eps or 0):
        # more entry points than one quick run takes and no drift inside the property's own anchors: a changed file ANYWHERE in
        # the library still decides which entry points are taken first (auxiliary only, DESIGN 2.3)
        drifted = _changed_files()
    if drifted and len(order) > 6:
        # sources differ from the baseline: the entry points that EXECUTE a changed file go first (one profiled call each)
        hit = [n for n in order if _touches(eps[n], base, drifted)]
        if hit:
            ctx.count("hist:entry-points-that-execute-changed-files", len(hit))
            order = hit + [n for n in order if n not in hit]
            max_eps = max(max_eps or 0, min(len(hit), 40))
    if max_eps and len(order) > max_eps and not thorough and ctx.boost == 1:
        # many entry points: a seed-rotated share in quick on a tree equal to the baseline (all of them in thorough / boosted / drifted runs)
        ctx.count("hist:entry-points-not-taken-this-seed", len(order) - max_eps)
        order = order[:max_eps]
        eps = {k: eps[k] for k in order}
    failed = set()  # (ep, probe): one report per entry point and probe is enough

    def report(probe, ep, params, res):
        if (ep.name, probe) in failed:
            return
        failed.add((ep.name, probe))
        inp = {"engine": "histories", "module": module, "probe": probe, "ep": ep.name, "params": params, "steps": res.get("steps", [])}
        if "draw" in params:
            try:
                inp["args"] = short(canon(ep.args(params["draw"])), 400)
            except Exception:  # noqa
                pass
        exp, act = res.get("expected"), res.get("actual")
        if len(short(exp, 10 ** 9)) > 300 or len(short(act, 10 ** 9)) > 300:
            dd = diff(exp, act)
            if dd:
                inp["differs_at"] = [p for p, _, _ in dd]
                exp = {p: short(e, 200) for p, e, _ in dd}
                act = {p: short(a, 200) for p, _, a in dd}
        ctx.fail(f"history:{probe}", inp, res["what"], expected=short(exp, 900), actual=short(act, 900))

    def one(probe, ep, params):
        ctx.count(f"hist:{probe}:{ep.name}")
        t0 = time.time()
        try:
            res = PROBES[probe](eps, params)
            TIMES[probe] = TIMES.get(probe, 0.0) + time.time() - t0
        except Exception as e:  # noqa: the engine must never take the harness down on the unchanged tree; on a drifted tree it is a finding of its own
            ctx.count(f"hist:engine-error:{probe}:{ep.name}:{type(e).__name__}")
            return None
        if isinstance(res, str):
            ctx.count(f"hist:{probe}:{res}:{ep.name}")
            return None
        ctx.case(("hist", probe, ep.name, json.dumps(params, sort_keys=True, default=str)))
        if res is not None:
            report(probe, ep, params, res)
        return res

    held = []  # P9
    groups = {}
    for name in order:
        groups.setdefault(eps[name].group, []).append(name)

    # breadth first: every entry point gets its first draw before any gets its second (a wall guard that is reached under
    # load then costs later draws, never whole entry points)
    n_of = {name: max(1, int(nd * eps[name].draws)) for name in order}
    for k, name in [(k, name) for k in range(max(n_of.values())) for name in order if k < n_of[name]]:
        ep = eps[name]
        if True:
            if not guard.ok():
                break
            d = base + k
            # P1 / P4 / P3
            if _applicable(ep, "repeat"):
                one("repeat", ep, {"ep": name, "draw": d})
            if _applicable(ep, "argument-kept"):
                one("argument-kept", ep, {"ep": name, "draw": d})
                one("argument-kept", ep, {"ep": name, "draw": d, "promote": True})
            if ep.kind == "build" and _applicable(ep, "alias-kept"):
                one("alias-kept", ep, {"ep": name, "draw": d})
            if _applicable(ep, "same-object"):
                for d2 in (d + 1, d + 7):
                    one("same-object", ep, {"ep": name, "draw": d, "draw2": d2})
                    one("same-object", ep, {"ep": name, "draw": d, "draw2": d2, "promote": True})
            # P9 pool
            if len(held) < 400:
                r = ep.run(ep.args(d))
                held.append((ep, d, r, ep.can(r)))
            # P2 / P7
            pname = "parse-sharing" if ep.kind in ("parse", "decode") else "result-edit"
            if _applicable(ep, pname) and ((name, pname) not in failed):
                try:
                    todo = probe_result_edit(eps, {"ep": name, "draw": d, "all": thorough or ctx.boost > 1, "cap": 64 if thorough else 24}, enumerate_only=True)
                except Exception:  # noqa
                    todo = []
                    ctx.count(f"hist:engine-error:{pname}:{name}:enumerate")
                if not todo:
                    ctx.count(f"hist:{pname}:immutable-result:{name}")
                lim = ctx.budget(40, 400)
                if len(todo) > lim:
                    # rotate: other nodes on other draws / seeds
                    s = (base + k * 7) % len(todo)
                    todo = (todo[s:] + todo[:s])[:lim]
                for path, label, rev in todo:
                    if rev:
                        ctx.count(f"hist:{pname}:reviewed-shared-node-skipped:{name}")
                        continue
                    if not guard.ok() or (name, pname) in failed:
                        break
                    one(pname, ep, {"ep": name, "draw": d, "node": path, "mutator": label})
            # P6
            if _applicable(ep, "twin") and (name, "twin") not in failed:
                try:
                    todo = probe_twin(eps, {"ep": name, "draw": d, "draw2": d + 1}, enumerate_only=True)
                except Exception:  # noqa
                    todo = []
                    ctx.count(f"hist:engine-error:twin:{name}:enumerate")
                lim = ctx.budget(24, 200)
                if len(todo) > lim:
                    s = (base + k * 5) % len(todo)
                    todo = (todo[s:] + todo[:s])[:lim]
                for path, mode in todo:
                    if not guard.ok() or (name, "twin") in failed:
                        break
                    one("twin", ep, {"ep": name, "draw": d, "draw2": d + 1, "path": path, "mode": mode})
            # P6b
            if _applicable(ep, "rebuilt") and ep.kind == "build" and (name, "rebuilt") not in failed:
                try:
                    todo = probe_rebuilt(eps, {"ep": name, "draw": d, "draw2": d + 1}, enumerate_only=True)
                except Exception:  # noqa
                    todo = []
                    ctx.count(f"hist:engine-error:rebuilt:{name}:enumerate")
                for i, path, mode in todo[: ctx.budget(24, 200)]:
                    if not guard.ok() or (name, "rebuilt") in failed:
                        break
                    one("rebuilt", ep, {"ep": name, "draw": d, "draw2": d + 1, "arg": i, "path": path, "mode": mode})
            # P5
            if _applicable(ep, "failed-call") and (name, "failed-call") not in failed:
                good = ep.args(d)
                others = [g for g in groups[ep.group] if g != name and _applicable(eps[g], "failed-call")]
                j = 0
                for pos in range(len(good)):
                    for bi, (label, _) in enumerate(_bad_list(ep, pos, good[pos])):
                        if not guard.ok() or (name, "failed-call") in failed:
                            break
                        if k > (1 if ctx.boost > 1 else 0) and not thorough and (bi + k + base) % 3:
                            continue  # quick: the full list on the first draw, a rotating third on the others
                        if (name, pos, label) in SLOW:
                            ctx.count(f"hist:failed-call:slow-bad-call-not-repeated:{name}")
                            continue
                        one("failed-call", ep, {"ep": name, "draw": d, "pos": pos, "bad": label})
                        if others and (thorough or ctx.boost > 1 or j % 3 == 0):
                            one("failed-call", ep, {"ep": name, "draw": d, "pos": pos, "bad": label, "then": others[(j // 3) % len(others)]})
                        j += 1

    # P9: everything held is still what it was
    for ep, d, r, c in held:
        ctx.count(f"hist:held:{ep.name}")
        c2 = ep.can(r)
        if c2 != c and (ep.name, "held") not in failed:
            report("held", ep, {"ep": ep.name, "draw": d},
                   {"what": f"{ep.name}: a result the caller kept (and never touched) changed while other calls were made", "expected": c, "actual": c2,
                    "steps": [f"r = {ep.name}(args#{d}) kept", "the other probes of this run", "r compared with its value when it was returned"]})

    # P8: pristine-order probe
    if pristine and any(_applicable(e, "interleave") for e in eps.values()):
        try:
            g2 = _Guard((10 if not thorough else 240) * (2 if ctx.boost > 1 else 1))  # a share of its own
            _interleave(ctx, eps, module, base, nd, groups, g2, report)
            guard.hit = guard.hit or g2.hit
        except Exception as e:  # noqa
            ctx.count(f"hist:interleave:unavailable:{type(e).__name__}")
            ctx.notes.append(f"histories: pristine-order probe not run ({type(e).__name__}: {str(e)[:120]})")
    if guard.hit:
        ctx.count("hist:wall-guard-hit")
        ctx.notes.append("histories: wall-clock guard reached; remaining history probes of this run were skipped (counted hist:wall-guard-hit)")


def _pool(eps, names, base, nd, thorough, boost):
    """items of the pristine-order pool: base draws, near variants, a few failing variants"""
    items = []
    for name in names:
        ep = eps[name]
        if not _applicable(ep, "interleave"):
            continue
        n = max(1, int(nd * ep.draws))
        for k in range(n):
            d = base + k
            items.append({"ep": name, "draw": d})
            try:
                nv = near_variants(ep, d)
            except Exception:  # noqa
                nv = []
            mod_nv = [x for x in nv if x[0].startswith("module: ")][:32]
            nv = [x for x in nv if not x[0].startswith("module: ")]
            cap = len(nv) if (thorough or boost > 1) else 6
            s = (base + k) % max(1, len(nv))
            nv = mod_nv + (nv[s:] + nv[:s])[:cap]
            s = 0
            for l, _ in nv:
                items.append({"ep": name, "draw": d, "near": l})
            # the same arguments through the other entry points of the same domain
            if ep.domain is not None:
                for other in names:
                    if other != name and eps[other].domain == ep.domain:
                        items.append({"ep": other, "draw": d, "as": name})
                        for l, _ in (nv[s:] + nv[:s])[: (cap if thorough else 3)]:
                            items.append({"ep": other, "draw": d, "as": name, "near": l})
    return items


def _key(it):
    return json.dumps(it, sort_keys=True)


def _interleave(ctx, eps, module, base, nd, groups, guard, report):
    """family by family (a family = one draw of one entry point with its near variants and the same arguments through the
    other entry points of the domain): the members alone, then the module's own variants against each other, base against
    variant both ways, a seeded sample of the rest; afterwards a seeded sample of pairs across families.  A guard that is
    reached under load costs later families, never the close pairs of the first ones."""
    thorough = ctx.thorough()
    srv = Pristine(module).start()
    pools = {g: _pool(eps, names, base, nd, thorough, ctx.boost) for g, names in groups.items()}
    total = sum(len(v) for v in pools.values()) or 1
    budget_pairs = ctx.budget(300, 6000)
    ismod = lambda it: str(it.get("near", "")).startswith("module: ")  # noqa: E731

    def alone_of(it, alone):
        k = _key(it)
        if k not in alone:
            res = srv.ask({"seq": [it]})
            alone[k] = None if ("error" in res or res["answers"][0] == "n/a") else res["answers"][0]
            if alone[k] is not None:
                ctx.count(f"hist:interleave:alone:{it['ep']}")
        return alone[k]

    def pair(a, b, alone):
        if alone_of(a, alone) is None or alone_of(b, alone) is None:
            return
        res = srv.ask({"seq": [a, b, a]})
        if "error" in res:
            ctx.count("hist:interleave:child-error")
            return
        ctx.count(f"hist:interleave:{b['ep']}")
        ctx.case(("hist", "interleave", _key(a), _key(b)))
        ans, heldc = res["answers"], res["held"]
        epb, epa = eps[b["ep"]], eps[a["ep"]]
        fail = None
        if ans[1] != alone[_key(b)]:
            fail = (epb, [a, b], f"{epb.name}: the request is answered differently when another call ({epa.name}) was made before it than when it is the first call in a process that has only imported the library",
                    alone[_key(b)], ans[1])
        elif ans[2] != alone[_key(a)]:
            fail = (epa, [a, b, a], f"{epa.name}: the same request is answered differently after a call of {epb.name} in between", alone[_key(a)], ans[2])
        elif heldc[0] != ans[0] or heldc[1] != ans[1]:
            i = 0 if heldc[0] != ans[0] else 1
            fail = ((epa, epb)[i], [a, b, a], f"{(epa, epb)[i].name}: a result the caller kept changed while the later calls of the sequence were made", ans[i], heldc[i])
        if fail is not None:
            ep, seq, what, exp, act = fail
            args_desc = []
            for s_ in seq:
                try:
                    _, a_ = materialise(eps, s_)
                    args_desc.append(f"{s_['ep']}({short(canon(a_), 200)})")
                except Exception:  # noqa
                    args_desc.append(_key(s_))
            report("interleave", ep, {"seq": seq, "alone": seq[-1] if len(seq) == 2 else seq[0]},
                   {"what": what, "expected": exp, "actual": act,
                    "steps": ["in a process forked from an interpreter that has imported the library and made no call:"] + args_desc + ["compared with the last request made alone in such a process"]})

    try:
        for gname, names in groups.items():
            items = pools[gname]
            if not items:
                continue
            rng = random.Random(f"hist-pairs:{base}:{gname}")
            lim = max(16, budget_pairs * len(items) // total)
            alone = {}
            fams = {}
            for it in items:
                fams.setdefault((it.get("as") or it["ep"], it["draw"]), []).append(it)
            per_fam = max(9, (lim * 3 // 4) // max(1, len(fams)))
            done = 0
            for fam in fams.values():
                b0 = fam[0]
                mods = [x for x in fam[1:] if ismod(x)]
                first = [(x, y) for x in mods for y in mods if x is not y]
                rng.shuffle(first)
                # [b0, x, b0] for every variant x (module-made first): x after another call, b0 after x, both kept meanwhile -
                # any one-shot / first-call state and any key that cannot tell b0 from x shows here at linear cost
                fwd = [(b0, x) for x in fam[1:]]
                rest_f = [(x, y) for x in fam[1:] for y in fam[1:] if x is not y and not (ismod(x) and ismod(y))] + [(x, b0) for x in fam[1:]]
                rng.shuffle(rest_f)
                todo = fwd[: max(4, per_fam * 2 // 3)] + first[: per_fam // 3]
                todo += rest_f[: max(0, per_fam - len(todo))]
                for x, y in todo[:per_fam]:
                    if not guard.ok():
                        return
                    pair(x, y, alone)
                    done += 1
            cross = [(x, y) for x in items for y in items if x is not y and (x.get("as") or x["ep"], x["draw"]) != (y.get("as") or y["ep"], y["draw"])]
            rng.shuffle(cross)
            for x, y in cross[: max(4, lim - done)]:
                if not guard.ok():
                    return
                pair(x, y, alone)
    finally:
        srv.stop()


# ------------------------------------------------------------------------------------------------ replay
def replay(inp, entry_points, quiet=False, child=True):
    """re-run a failure input of this engine; 1 if it still fails else 0"""
    eps = as_dict(entry_points)
    probe = inp.get("probe")
    params = inp.get("params") or {}

    def say(*a):
        if not quiet:
            print(*a)

    say(f"history probe `{probe}` on entry point `{inp.get('ep')}`; recorded steps:")
    for s in inp.get("steps", []):
        say("   ", s)
    if probe == "interleave":
        module = inp.get("module")
        seq = params["seq"]
        srv = Pristine(module).start()
        try:
            alone = srv.ask({"seq": [params["alone"]]})
            res = srv.ask({"seq": seq})
        finally:
            srv.stop()
        say("alone:", short(alone, 300))
        say("in sequence:", short(res, 600))
        if "error" in alone or "error" in res:
            return 0
        last = res["answers"][-1]
        bad = last != alone["answers"][0] or any(h != a for h, a in zip(res["held"], res["answers"]))
        say("STILL FAILS" if bad else "holds now")
        return 1 if bad else 0
    if probe == "held":
        say("`held` failures depend on the whole run; re-run the check with the same seed")
        return 0
    fn = PROBES.get(probe)
    if fn is None:
        say("unknown probe")
        return 0
    res = fn(eps, params)
    if isinstance(res, dict):
        say(f"STILL FAILS: {res['what']}\n  expected {short(res['expected'], 300)}\n  actual   {short(res['actual'], 300)}")
        for s in res.get("steps", []):
            say("   ", s)
        return 1
    say(f"holds now ({res})")
    return 0


# ------------------------------------------------------------------------------------------------ stand-alone: only the engine
def _main(argv):
    """histories.py Cxx [--seed N] [--tier quick|thorough] [--boost K]   (VERIF_REPO=<dir> for another checkout)
    runs ONLY the history probes of the module's ENTRY_POINTS (no Lean stage, no verdict files); for development"""
    sys.path.insert(0, HERE)
    alt = os.environ.get("VERIF_REPO")
    if alt:
        sys.path.insert(0, alt)
    import importlib
    import common
    me = importlib.import_module("histories")  # the module object the property modules import (not __main__)
    prop = argv[0].upper()
    seed = int(argv[argv.index("--seed") + 1]) if "--seed" in argv else 0
    tier = argv[argv.index("--tier") + 1] if "--tier" in argv else "quick"
    ctx = common.Ctx(prop, tier, seed)
    if "--boost" in argv:
        ctx.boost = int(argv[argv.index("--boost") + 1])
    mod = importlib.import_module(f"props.{prop.lower()}")
    ctx.matchers = getattr(mod, "MATCHERS", {}) or {}
    if "--drift" in argv:  # as check.py does: anchored functions that differ from the baseline -> budget x4, changed files first
        import drift
        ctx.drift = drift.drift(prop, getattr(mod, "ANCHORS", ()))
        if ctx.drift:
            ctx.boost = max(ctx.boost, 4)
        print("  drift:", ctx.drift[:6])
    t = time.time()
    me.run(ctx, mod.ENTRY_POINTS)
    dt = time.time() - t
    agg = {}
    for k, v in ctx.hist.items():
        parts = k.split(":")
        kk = ":".join(parts[:3]) if parts[1] in ("interleave", "engine-error") or len(parts) > 3 else ":".join(parts[:2])
        agg[kk] = agg.get(kk, 0) + v
    if "--counts" in argv:
        for k in sorted(ctx.hist):
            print(f"  {k} = {ctx.hist[k]}")
    else:
        for k in sorted(agg):
            print(f"  {k} = {agg[k]}")
    print("  seconds per probe:", {k: round(v, 1) for k, v in me.TIMES.items()})
    for n in ctx.notes:
        print("note:", n)
    for f in ctx.failures:
        print(f"FAIL {f['kind']} ep={f['input'].get('ep')}: {f['what']}")
        for s in f["input"].get("steps", []):
            print("      ", s)
        print("       expected", short(f["expected"], 200))
        print("       actual  ", short(f["actual"], 200))
        if "--replay" in argv:
            print("       replay ->", me.replay(f["input"], mod.ENTRY_POINTS, quiet=True))
    print(f"{prop} seed={seed} tier={tier}: {len(ctx.failures)} failures, {ctx.evaluations} cases, {dt:.1f} s")
    return 1 if ctx.failures else 0


if __name__ == "__main__":
    sys.exit(_main(sys.argv[1:]))
