"""Adapters of the FEC modules (C02 BPTC(196,96), C06 block codes, C09 variable length BPTCs, C10 rate 3/4 trellis) for the generic
history / object-identity probes of harness/histories.py.  One place, because the four properties share the shape of their entry
points: encode / decode / repair on bitarrays, numpy-returning helpers (generate, correct_numpy_array, make_encoding_table)."""
import array

from bitarray import bitarray
from bitarray.util import int2ba

import histories as H


def rbits(rng, n, zero_p=0.15):
    r = rng.random()
    if r < zero_p:
        return bitarray(n)
    if r < zero_p + 0.05:
        b = bitarray(n)
        b.setall(1)
        return b
    return int2ba(rng.getrandbits(n), length=n) if n else bitarray()


def corrupted(b, rng, k):
    b = bitarray(b)
    for _ in range(k):
        b.invert(rng.randrange(len(b)))
    return b


def as_bits(x):
    """numpy row / bitarray -> bitarray"""
    return x if isinstance(x, bitarray) else bitarray([int(v) for v in x.tolist()])


def c06():
    import numpy

    from props import c06 as m

    eps = []
    for name, cls, n, k, d, hamming in m.codes():
        def data(rng, k=k):
            return (rbits(rng, k),)

        def word(rng, cls=cls, k=k, n=n):
            w = as_bits(cls.generate(rbits(rng, k)))[:n]
            return (corrupted(w, rng, rng.choice([0, 0, 1, 1, 2])),)

        eps.append(H.EP(f"{name}.generate", cls.generate, data, kind="encode", group=name, domain=f"bits{k}", observe=H.class_state(cls)))
        eps.append(H.EP(f"{name}.check", cls.check, word, kind="check", group=name, domain=f"word{n}"))
        if hasattr(cls, "check_and_correct"):
            eps.append(H.EP(f"{name}.check_and_correct", cls.check_and_correct, word, kind="decode", group=name, domain=f"word{n}"))
        if hasattr(cls, "correct_numpy_array"):
            def nd(rng, word=word):
                return (numpy.array(word(rng)[0].tolist(), dtype=rng.choice([numpy.uint8, numpy.int64, bool])),)
            eps.append(H.EP(f"{name}.correct_numpy_array", cls.correct_numpy_array, nd, kind="decode", group=name))
    return eps


def c02():
    from okdmr.dmrlib.etsi.fec.bptc_196_96 import BPTC19696 as B

    def info(rng):
        return (rbits(rng, 96, zero_p=0.3),)

    def coded(rng):
        w = B.encode(rbits(rng, 96, zero_p=0.3))
        return (corrupted(w, rng, rng.choice([0, 0, 1, 2])),)

    st = H.class_state(B)
    return [
        H.EP("bptc.encode", B.encode, info, kind="encode", domain="info96", observe=st, draws=2),
        H.EP("bptc.deinterleave_all_bits", B.deinterleave_all_bits, coded, kind="decode", domain="coded196"),
        H.EP("bptc.deinterleave_data_bits", B.deinterleave_data_bits, coded, kind="decode", domain="coded196", draws=2),
        H.EP("bptc.repair_if_necessary", B.repair_if_necessary, coded, kind="decode", domain="coded196", draws=2),
        H.EP("bptc.repair_if_necessary(deinterleaved)", lambda b: B.repair_if_necessary(B.deinterleave_all_bits(b), True), coded, kind="decode", domain="coded196"),
        H.EP("bptc.make_encoding_table", B.make_encoding_table, lambda rng: (), kind="encode"),
    ]


def c09():
    from okdmr.dmrlib.etsi.fec.vbptc_32_11 import VBPTC3211
    from okdmr.dmrlib.etsi.fec.vbptc_68_28 import VBPTC6828
    from okdmr.dmrlib.etsi.fec.vbptc_128_72 import VBPTC12873

    eps = []
    for name, cls, sizes, n in (("vbptc3211", VBPTC3211, (11, 11, 32), 32), ("vbptc6828", VBPTC6828, (28, 28, 36, 68), 68), ("vbptc12873", VBPTC12873, (72, 72, 77, 128), 128)):
        main = sizes[0]

        def info(rng, sizes=sizes, cls=cls, main=main, n=n):
            k = rng.choice(sizes)
            if k == n:  # the fully de-interleaved matrix of a code word, as deinterleave_all_bits returns it
                return (cls.deinterleave_all_bits(cls.encode(rbits(rng, main))),)
            b = rbits(rng, k, zero_p=0.2)
            if k != main and rng.random() < 0.6:  # the longer input forms: leading bits zero (same integer value as a shorter message)
                b[: k - main + 5] = 0
            return (b,)

        def coded(rng, cls=cls, main=main):
            return (corrupted(cls.encode(rbits(rng, main)), rng, rng.choice([0, 0, 1])),)

        def near(args, rng, main=main, sizes=sizes):
            b = args[0]
            out = []
            for k in sorted(set(sizes)):
                if k > len(b):
                    out.append((f"the same bits, zero-extended to the {k}-bit input form", (b + bitarray(k - len(b)),)))
                    out.append((f"the same bits after {k - len(b)} leading zero bits ({k}-bit input form)", (bitarray(k - len(b)) + b,)))
            return out

        st = H.class_state(cls)
        eps.append(H.EP(f"{name}.encode", cls.encode, info, kind="encode", group=name, near=near, observe=st, draws=3))
        for fn in ("deinterleave_all_bits", "deinterleave_data_bits", "deinterleave_cs5_bits", "deinterleave_crc8_bits"):
            if hasattr(cls, fn):
                eps.append(H.EP(f"{name}.{fn}", getattr(cls, fn), coded, kind="decode", group=name, domain=f"coded{n}"))
        eps.append(H.EP(f"{name}.make_encoding_table", cls.make_encoding_table, lambda rng: (), kind="encode", group=name))
    eps.append(H.EP("vbptc3211.encode(odd parity)", lambda b: VBPTC3211.encode(b, False), lambda rng: (rbits(rng, 11),), kind="encode", group="vbptc3211", domain="info11"))
    return eps


def c10():
    from okdmr.dmrlib.etsi.fec.trellis import Trellis34 as T

    def info(rng):
        b = rbits(rng, 144, zero_p=0.2)
        return (b if rng.random() < 0.7 else b.tobytes(),)

    def coded(rng):
        return (corrupted(T.encode(rbits(rng, 144, zero_p=0.2)), rng, rng.choice([0, 0, 0, 1])),)

    def stage(prev, gen):
        def make(rng):
            x = gen(rng)[0]
            for f in prev:
                x = f(x)
            return (x,)
        return make

    eps = [
        H.EP("trellis.encode", T.encode, info, kind="encode", domain="info", draws=3),
        H.EP("trellis.decode", T.decode, coded, kind="decode", domain="coded196", draws=2),
        H.EP("trellis.decode(as_bytes)", lambda b: T.decode(b, True), coded, kind="decode", domain="coded196"),
    ]
    def clean(rng):
        return (T.encode(rbits(rng, 144, zero_p=0.2)),)

    dec = [T.bits_to_dibits, T.deinterleave, T.dibits_to_points, T.points_to_tribits, T.tribits_to_bits]
    for i, f in enumerate(dec):
        eps.append(H.EP(f"trellis.{f.__name__}", f, stage(dec[:i], clean), kind="decode", group="stages"))
    enc = [T.bits_to_tribits, T.tribits_to_points, T.points_to_dibits, T.interleave, T.dibits_to_bits]
    for i, f in enumerate(enc):
        eps.append(H.EP(f"trellis.{f.__name__}", f, stage(enc[:i], lambda rng: (rbits(rng, 144, zero_p=0.2),)), kind="encode", group="stages"))
    return eps


def entry_points(which):
    return {"c02": c02, "c06": c06, "c09": c09, "c10": c10}[which]()
