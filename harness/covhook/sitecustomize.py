"""
Reach measurement in child interpreters (DESIGN §2.3, harness/drift.py AnchorCoverage).

When a check measures which statements of the anchored functions its inputs execute, this directory is put in
front of PYTHONPATH, so that every Python child the property module starts with exec (fresh-interpreter samples,
-O samples, workers) imports this file at start-up and reports into the same append-only log as the parent.
Without VERIF_ACOV_LOG / VERIF_ACOV_WANT in the environment it does nothing.  It only ever observes (sys.monitoring
LINE events, every location reports once and is then disabled); it cannot change what the code under test returns.
"""
import os


def install(want, log_path, tool=4, truncate=False):
    """want: {realpath: set(line numbers)}.  Returns a stop() function, or None when monitoring is unavailable."""
    import sys
    mon = getattr(sys, "monitoring", None)
    if mon is None or not want:
        return None
    try:
        mon.use_tool_id(tool, "verif-anchor-coverage")
    except ValueError:
        return None
    fd = os.open(log_path, os.O_WRONLY | os.O_CREAT | os.O_APPEND | (os.O_TRUNC if truncate else 0), 0o644)
    cache = {}
    real = os.path.realpath
    write = os.write
    DISABLE = mon.DISABLE

    def on_line(code, line):
        f = code.co_filename
        w = cache.get(f, 0)
        if w == 0:
            w = cache[f] = want.get(real(f)) if f and not f.startswith("<") else None
        if w is not None and line in w:
            try:
                write(fd, f"{real(f)}:{line}\n".encode())
            except OSError:
                pass
        return DISABLE

    mon.register_callback(tool, mon.events.LINE, on_line)
    mon.set_events(tool, mon.events.LINE)

    def stop():
        try:
            mon.set_events(tool, 0)
            mon.register_callback(tool, mon.events.LINE, None)
            mon.free_tool_id(tool)
        except Exception:
            pass

    return stop


def _from_env():
    log = os.environ.get("VERIF_ACOV_LOG")
    wantf = os.environ.get("VERIF_ACOV_WANT")
    if not log or not wantf:
        return
    try:
        want = {}
        with open(wantf, encoding="utf-8") as fh:
            for l in fh:
                p, _, ns = l.rstrip("\n").partition("\t")
                if p and ns:
                    want[p] = {int(x) for x in ns.split(",")}
        install(want, log)
    except Exception:
        pass


if __name__ == "sitecustomize":
    _from_env()
