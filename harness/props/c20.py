"""C20 - repeater storage keeps one record per source address with a stable identity (DESIGN par. 5 C20).

Real code: okdmr.dmrlib.storage.{repeater_storage,repeater} run in-process; `uuid.uuid4` as seen by
repeater.py is replaced by a deterministic counter (monkey-patched in this process only).
Model: lean/DmrVerif/Model/Storage.lean through drv_c20 (stateful line protocol).

Streams (all deterministic from ctx.rng):
  corpus / exhaustive short histories / excluded points / random histories      (first version)
  keys     names of dynamic attributes that are different strings but collide under some plausible normalisation:
           the library's own constants (SNMP.OID_*, STORAGE_ATTR_* of the handlers) and systematic near-collision
           families of every key; pair histories, a sweep over the whole universe on one record, random cluster histories
  values   special values (white space, NUL, Unicode forms, huge ints, long strings); values outside the model's
           alphabet (negative ints, floats, bytes, lists) oracle-only
  addrs    incoming addresses that collide under a normalisation (leading zeros, case, white space, port mod 65536 ...)
  wide     one record with hundreds of attributes, one patch with hundreds of entries, long values
  scale    thousands of records (distinct IPs / one IP many ports / mixed, identified fraction 0 ... 1): len, identity,
           ids, members and attributes of old / middle / new records, re-lookups of the oldest ones; 10 000 records in
           quick / 33 000 in thorough (oracle only beyond what the cubic list model follows; the storage's own lookup is a
           linear scan, n records cost n^2 / 2 comparisons)
  shapes   ARGUMENT PROVENANCE of the peer address: every shape a transport / caller can hand over - (host, port),
           the AF_INET6 4-tuple (host, port, flowinfo, scope_id) of asyncio (equal in all / differing in flowinfo, scope id,
           port, host), lists, namedtuples, str / int subclasses, port as text / float / bool, 1- / 3- / 5-tuples, bytes
           host, None, a bare str: two addresses are the same peer iff they are EQUAL as Python compares them; every ordered
           pair of shapes in one history, random histories over pools of shapes; patches of other mapping types
  errors   ERROR-PATH STATE: calls that raise at every operation kind (patch keys that are no str at the first / a middle /
           the last position, patches that are no mapping: list of pairs, str, set, None, int, generator; unhashable
           attribute keys, names that are no str, None / int / wrong-arity addresses), on seen and unseen addresses, with and
           without auto-create, as the FIRST call on a fresh storage, twice in a row - after which the history continues
           and every invariant and every earlier record is re-checked (the model follows: Op.matchIncomingBad / saveBad /
           patchBad apply the entries before the offending one and raise)
  ambient  a fixed small sample of the oracle with the root logger at DEBUG, sys.stdout replaced by a writer that raises,
           `random` reseeded between steps, and once in a child `python -O` process
  literals (round 4) STRING / NUMBER / TUPLE LITERALS AND IDENTIFIERS OF THE CURRENT SOURCE: on every run the source of the
           storage modules and of every module of the package that uses the storage (the protocol handlers) is parsed with
           `ast`; every string literal and identifier becomes the name of a dynamic attribute (truthy / falsy values of a dozen
           types, through each of the four write paths, then lookups of the record by address with / without auto-create, by
           id, by dmr_id, by host, re-patches, deletion, a later peer), every literal becomes a value of dynamic attributes and
           data members, a host / a port / a whole peer address, a size (entries of one patch, length of a name / a value);
           the library's own constant objects (ADDRESS_EMPTY ...) are handed over as the very objects; a few harvested names /
           values / addresses are mixed into the pools of EVERY random stream.  Literals of functions that differ from the
           committed baseline (ctx.drift) get the complete cross product (name x value x write path x record, literal values
           included), exhaustive pools and - numbers - a history with that many records.
  containers (round 4) ATTRIBUTE VALUES WITH IDENTITY: dict / list / set / bytearray / OrderedDict / defaultdict / Counter /
           deque / UserDict / SimpleNamespace / nested values the caller owns: the SAME object is handed to three records
           (inside the caller's own defaults mapping - the same patch object for every new peer - and through each write
           path) and kept; then one record is patched again with another container of the same type (disjoint / overlapping /
           empty / equal / superset / subset content), through every write path, for a dynamic attribute and for a data
           member.  Snapshots are deep copies taken BEFORE each call; after each call every record and every object of the
           caller is compared.  In the model a container is an opaque immutable value (Model/StorageOpaque.lean).
"""
import ast
import collections
import copy
import importlib
import itertools
import json
import os
import random
import re
import time as _time
import types
import unicodedata
import uuid as _uuid

import ro_calls as RO
from common import impl_error

_NOW = _time.monotonic  # the real clock (one stream replaces the functions of the `time` module by a fast-running clock)

PROP = "C20"
MODULES = ["C20"]
GEN = ["Storage"]
MATCHERS = {}

FIELDS = [
    "id",
    "address_in",
    "address_out",
    "address_nat",
    "snmp_enabled",
    "nat_enabled",
    "dmr_id",
    "callsign",
    "serial",
]

# ------------------------------------------------------------------------------------------------
# canonical text of values / patches (must equal lean/DmrVerif/Driver/Storage.lean)


def cps(s: str) -> str:
    return ".".join(str(ord(c)) for c in s)


# shapes of a peer address other than the plain (str, int) tuple (argument provenance)
Addr2 = collections.namedtuple("Addr2", "host port")
Addr4 = collections.namedtuple("Addr4", "host port flowinfo scope_id")


class Str(str):
    """a str subclass instance (enum members with a str mixin, wrappers): equal to the plain str"""

    __slots__ = ()


class Int(int):
    """an int subclass instance (IntEnum members, numpy-like wrappers): equal to the plain int"""

    __slots__ = ()


def _nat(x) -> bool:
    return type(x) is int and x >= 0


def in_alphabet(v) -> bool:
    """assumption A2: the values the model knows (Val of Model/Storage.lean)"""
    if v is None or isinstance(v, (bool, str, _uuid.UUID)):
        return True
    if isinstance(v, int):
        return v >= 0
    if isinstance(v, tuple):  # namedtuples compare as tuples
        if len(v) == 2 and isinstance(v[0], str) and isinstance(v[1], str):
            return True  # (host, port as text)
        return len(v) >= 1 and isinstance(v[0], str) and all(_nat(x) for x in v[1:])
    if type(v) is list and len(v) >= 1 and isinstance(v[0], str) and all(_nat(x) for x in v[1:]):
        return True
    if type(v) in OPAQUE_KINDS:
        return _otext(v, 0) is not None
    return False


# containers as opaque immutable values of the model (Model/StorageOpaque.lean): kind tag + canonical text of the content.
# Two of them have the same text iff Python's == holds (elements: None, bool / int >= 0, str, UUID, the address tuples,
# containers again; dict items and set elements sorted); everything else is outside the model (oracle only).
OPAQUE_KINDS = {dict: 1, list: 2, set: 3, bytearray: 4}


def _otext(v, depth):
    """canonical text of a container / of an element of one; None if it is outside the model"""
    t = type(v)
    if v is None or t in (bool, str, _uuid.UUID) or (t is int and v >= 0):
        return _cval(v)
    if t is tuple:
        return _cval(v) if in_alphabet(v) else None
    if depth > 3 or t not in OPAQUE_KINDS:
        return None
    if t is bytearray:
        return "b" + bytes(v).hex()
    if t is dict:
        items = []
        for k, x in v.items():
            if not (type(k) in (bool, str) or (type(k) is int and k >= 0)):
                return None
            tx = _otext(x, depth + 1)
            if tx is None:
                return None
            items.append(_cval(k) + ":" + tx)
        return "{" + ",".join(sorted(items)) + "}"
    if t is list and v and isinstance(v[0], str) and all(isinstance(x, int) and x >= 0 for x in v[1:]):
        return _cval(v) if all(_nat(x) for x in v[1:]) else None  # the address-list shape ([host, True] == [host, 1]: left to the oracle)
    try:
        texts = [_otext(x, depth + 1) for x in v]
    except RuntimeError:
        return None
    if any(x is None for x in texts):
        return None
    return "[" + ",".join(texts) + "]" if t is list else "<" + ",".join(sorted(texts)) + ">"


_CVAL = {}


def cval(v) -> str:
    """memoised `_cval` (the exhaustive streams print the same few values millions of times)"""
    try:
        key = (v.__class__, v)
        r = _CVAL.get(key)
    except TypeError:  # unhashable: outside the alphabet anyway
        return _cval(v)
    if r is None:
        if len(_CVAL) > 200000:
            _CVAL.clear()
        r = _CVAL[key] = _cval(v)
    return r


def _cval(v) -> str:
    if v is None:
        return "N"
    if isinstance(v, bool):
        return f"i{int(v)}"
    if isinstance(v, int) and v >= 0:
        return f"i{v}"
    if isinstance(v, str):
        return "s" + cps(v)
    if isinstance(v, _uuid.UUID):
        return f"u{v.int}"
    if isinstance(v, tuple) and in_alphabet(v):
        if len(v) == 2 and isinstance(v[1], str):
            return "c" + cps(v[0]) + ":" + cps(v[1])
        if len(v) == 2:
            return "a" + cps(v[0]) + ":" + str(v[1])
        return "t" + cps(v[0]) + "".join(f":{x}" for x in v[1:])  # arity != 2: the AF_INET6 4-tuple, 1- / 3-tuples
    if type(v) is list and len(v) >= 1 and isinstance(v[0], str) and all(_nat(x) for x in v[1:]):
        return "l" + cps(v[0]) + "".join(f":{x}" for x in v[1:])
    if type(v) in OPAQUE_KINDS:
        txt = _otext(v, 0)
        if txt is not None:
            return "o" + ".".join([str(OPAQUE_KINDS[type(v)])] + [str(ord(c)) for c in txt])
    return "?" + type(v).__name__  # outside the modelled alphabet: such histories never reach the model


_SAFE = set("ABCDEFGHIJKLMNOPQRSTUVWXYZabcdefghijklmnopqrstuvwxyz0123456789_.-")


_CKEY = {}


def ckey(k: str) -> str:
    if not isinstance(k, str):
        return "?key"  # a key that is no str: outside the model (attr / delete_attr); patches: see cpatch
    r = _CKEY.get(k)
    if r is None:
        if len(_CKEY) > 200000:
            _CKEY.clear()
        r = _CKEY[k] = _ckey(k)
    return r


def _ckey(k: str) -> str:
    """injective ASCII token for an attribute key (the model only compares keys: `String` equality; an encoded key
    is never one of the nine member names because it contains `%`): unsafe characters as %XXXXXX, the empty key as %"""
    if k == "":
        return "%"
    return "".join(c if c in _SAFE else f"%{ord(c):06x}" for c in k)


class Px:
    """a patch argument that is no plain dict; built afresh for every call.  Mappings that are no dict behave as a dict
    (`len`, `.items()`): 'ordered', 'dictsub', 'defaultdict', 'proxy' (MappingProxyType), 'userdict', 'chainmap'.  Sized
    objects without `.items()`: 'pairs' (list of pairs), 'tpairs', 'str', 'set', 'bytes'.  Unsized: 'none', 'int', 'gen'.
    'failing': a dict whose `.items()` yields all its entries and then raises RuntimeError (an exception of another class in
    the middle of Repeater.patch)."""

    MAPPINGS = ("ordered", "dictsub", "defaultdict", "proxy", "userdict", "chainmap", "failing")
    SIZED = ("pairs", "tpairs", "str", "set", "bytes")
    UNSIZED = ("none", "int", "gen")

    class DictSub(dict):
        pass

    class Failing(dict):
        def items(self):
            yield from dict.items(self)
            raise RuntimeError("the mapping failed while it was iterated")

    def __init__(self, kind, items=()):
        assert kind in self.MAPPINGS + self.SIZED + self.UNSIZED, kind
        self.kind, self.items = kind, [tuple(kv) for kv in items]

    def __repr__(self):
        return f"Px({self.kind!r}, {self.items!r})"

    def __eq__(self, other):
        return isinstance(other, Px) and (self.kind, self.items) == (other.kind, other.items)

    __hash__ = None

    def make(self):
        k, it = self.kind, list(self.items)
        if k == "ordered":
            return collections.OrderedDict(it)
        if k == "dictsub":
            return Px.DictSub(it)
        if k == "failing":
            return Px.Failing(it)
        if k == "defaultdict":
            d = collections.defaultdict(int)
            d.update(it)
            return d
        if k == "proxy":
            return types.MappingProxyType(dict(it))
        if k == "userdict":
            return collections.UserDict(dict(it))
        if k == "chainmap":
            return collections.ChainMap(dict(it))
        if k == "pairs":
            return it
        if k == "tpairs":
            return tuple(it)
        if k == "str":
            return "ab"[: len(it)]
        if k == "bytes":
            return b"ab"[: len(it)]
        if k == "set":
            return {a for a, _ in it}
        if k == "none":
            return None
        if k == "int":
            return len(it)
        return (kv for kv in it)  # 'gen'

    def entries(self):
        return list(self.items) if self.kind in self.MAPPINGS else None

    def sized_len(self):
        if self.kind in self.UNSIZED:
            return None
        return min(len(self.items), 2) if self.kind in ("str", "bytes") else len(self.items)


def patch_items(p):
    """the (key, value) pairs `patch.items()` yields, or None if the argument has no such method"""
    if isinstance(p, dict):
        return list(p.items())
    if isinstance(p, Px):
        return p.entries()
    return None


def wellformed(p) -> bool:
    """a mapping whose keys are all str: `Repeater.patch` cannot raise on it"""
    items = patch_items(p)
    return items is not None and all(isinstance(k, str) for k, _ in items) and not (isinstance(p, Px) and p.kind == "failing")


def str_entries(p) -> dict:
    """the entries of the patch argument that name something (str keys), as a dict"""
    return {k: v for k, v in (patch_items(p) or []) if isinstance(k, str)}


class Held(dict):
    """a patch mapping the CALLER keeps and hands over again: the very same dict object in every call that names it (every
    other patch argument is rebuilt for each call)"""

    __hash__ = None


def make_patch(p):
    if type(p) is Held:
        return p
    return dict(p) if isinstance(p, dict) else p.make()


# ------------------------------------------------------------------------------------------------
# values with identity: containers (dict / list / set / bytearray / deque ...) the caller owns, hands over as attribute
# values - the same object to several records - and keeps.  A snapshot of a record must not share them with the record.

_IMMUTABLE = {type(None), bool, int, float, complex, str, bytes, _uuid.UUID, Str, Int, range, type, types.FunctionType}


def frz(v):
    """the value as it is NOW: an immutable value as it is, anything else as a deep copy"""
    t = type(v)
    if t in _IMMUTABLE:
        return v
    if t is tuple or t is Addr2 or t is Addr4 or t is frozenset:
        for x in v:
            if type(x) not in _IMMUTABLE:
                break
        else:
            return v
    try:
        return copy.deepcopy(v)
    except Exception:  # noqa: an object that cannot be copied is compared as it is
        return v


def same_deep(a, b) -> bool:
    """equal and of the same type, for containers (a dict that became a defaultdict is another value)"""
    try:
        return type(a) is type(b) and bool(a == b)
    except Exception:  # noqa
        return False


class Pool:
    """the caller's own objects of one history, by index; `specs` is their JSON form at the time they were made (what a
    replay file records: the content the CALLER gave them, whatever the library did to them afterwards)"""

    def __init__(self, specs):
        self.specs = list(specs)
        self.objs = []
        for sp in self.specs:
            self.objs.append(uj(sp, self.objs))
        self.frozen = [copy.deepcopy(o) for o in self.objs]
        self.ids = {id(o): i for i, o in enumerate(self.objs)}

    def ref(self, x):
        i = self.ids.get(id(x))
        return i if i is not None and self.objs[i] is x else None


_POOL = [None]  # the pool of the history that is running (jv prints its objects as references)


def cpatch(p) -> str:
    """canonical text of a patch argument (Driver/Storage.lean `parsePatchArg`): the entries in order; `!T` in place of the
    first key that is no str (TypeError there, the entries before it applied); `!A` for a non-empty sized object that is no
    mapping (AttributeError before any entry); unsized / empty non-mappings are outside the model"""
    items = patch_items(p)
    if items is None:
        return "!A" if p.sized_len() else "?patch"
    if isinstance(p, Px) and p.kind == "failing":
        return "?patch"
    out = []
    for k, v in items:
        if not isinstance(k, str):
            out.append("!T")
            break
        out.append(f"{ckey(k)}={caddr(v) if k == 'address_in' else cval(v)}")
    return ",".join(out) or "-"


def caddr(a) -> str:
    """canonical text of a value in the place of a peer address: match_ip_incoming subscripts it, and the model knows what
    `[0]` of its own shapes is, not of a container (opaque to it): those histories run against the oracle alone"""
    return "?addr" if type(a) in OPAQUE_KINDS and not cval(a).startswith("l") else cval(a)


# ------------------------------------------------------------------------------------------------
# the system under test with the counter oracle


def fresh(v):
    """an equal value that is a different object where Python allows it (a lookup must compare by value: the peers'
    address tuples are new objects on every datagram)"""
    if isinstance(v, (Addr2, Addr4)):
        return type(v)(*(fresh(x) for x in v))
    if type(v) is tuple:
        return tuple(fresh(x) for x in v)
    if type(v) is list:
        return [fresh(x) for x in v]
    if type(v) is Str:
        return Str("".join(list(v)))
    if type(v) is Int:
        return Int(int(v))
    if type(v) is str and len(v) > 1:
        return "".join(list(v))
    if type(v) is int and abs(v) > 256:
        return int(str(v))
    if isinstance(v, _uuid.UUID):
        return _uuid.UUID(int=v.int)
    return v


class Sut:
    """one RepeaterStorage + the list of objects it created, by creation index"""

    hook = None  # called before every operation (ambient stream: reseeds `random`)
    identity = False  # hand the arguments over as the very objects of the history (library sentinels such as ADDRESS_EMPTY)

    def __init__(self):
        import okdmr.dmrlib.storage.repeater as rmod
        from okdmr.dmrlib.storage.repeater_storage import RepeaterStorage

        self.rmod = rmod
        self.saved_uuid = rmod.uuid
        self.uuid_next = 0  # the counter oracle: the id the next Repeater() gets

        def uuid4():
            self.uuid_next += 1
            return _uuid.UUID(int=self.uuid_next - 1)

        rmod.uuid = types.SimpleNamespace(uuid4=uuid4, UUID=_uuid.UUID)
        self.storage = RepeaterStorage()
        self.created = []
        self.by_id = {}  # id(object) -> creation index (the objects are kept alive by `created`)

    def close(self):
        self.rmod.uuid = self.saved_uuid

    def index(self, obj):
        i = self.by_id.get(id(obj))
        if i is not None and self.created[i] is obj:
            return i
        if not isinstance(obj, self.rmod.Repeater):
            return -1
        self.created.append(obj)
        self.by_id[id(obj)] = len(self.created) - 1
        return len(self.created) - 1

    def snapshot(self):
        """fields and dynamic attributes of every created object (copies)"""
        return [
            ({f: frz(getattr(o, f)) for f in FIELDS}, {k: frz(v) for k, v in o._Repeater__attrs.items()}) for o in self.created
        ]

    def snapshot_one(self, i):
        o = self.created[i]
        return ({f: frz(getattr(o, f)) for f in FIELDS}, {k: frz(v) for k, v in o._Repeater__attrs.items()})

    def dict_items(self):
        return list(self.storage._RepeaterStorage__repeaters.items())

    def dump(self) -> str:
        d = ",".join(f"{cval(k)}>{self.index(v)}" for k, v in self.dict_items())
        recs = "".join(
            " "
            + ",".join(f"{f}={cval(getattr(o, f))}" for f in FIELDS)
            + ";"
            + ",".join(f"{ckey(k)}={cval(v)}" for k, v in o._Repeater__attrs.items())
            + " |"
            for o in self.created
        )
        return f"D {d} |{recs}"

    def res(self, r, kind="") -> str:
        if kind == "attr":
            return "val:" + cval(r)
        if kind == "del":
            return "True" if r is True else "val:" + cval(r)
        if r is None:
            return "None"
        if isinstance(r, self.rmod.Repeater):
            return f"obj{self.index(r)}"
        return "val:" + cval(r)

    # one operation: op is a tuple; object references are creation indices (resolved by the caller)
    def apply(self, op, pre_flag=True):
        """returns (driver line, canonical result incl. len, raw result or exception)"""
        kind = op[0]
        st = self.storage
        pre = "pre-ok" if not (pre_flag and violates_pre(self, op)) else "pre-violated"
        if Sut.hook is not None:
            Sut.hook()
        fresh = (lambda x: x) if Sut.identity else globals()["fresh"]
        try:
            if kind == "mi":
                _, a, auto, p = op
                line = f"mi {caddr(a)} {int(auto)} {cpatch(p)}"
                # every argument form of the signature (positional / keyword / default left out): a lookup that
                # does not ask for auto-create, or gives no patch, must behave like the explicit False / {}
                pt = make_patch(p)
                Sut.form = form = (getattr(Sut, "form", 0) + 1) % 5
                plain = type(pt) is dict and not pt
                if form == 1 and auto is False and plain:
                    r = st.match_incoming(fresh(a))
                elif form == 2 and auto is False:
                    r = st.match_incoming(fresh(a), patch=pt)
                elif form == 3 and plain:
                    r = st.match_incoming(fresh(a), auto)
                elif form == 4:
                    r = st.match_incoming(address=fresh(a), auto_create=auto, patch=pt)
                else:
                    r = st.match_incoming(fresh(a), auto, pt)
            elif kind == "save":
                _, ref, p = op
                line = f"save {'N' if ref is None else ref} {cpatch(p)}"
                pt = make_patch(p)
                if type(pt) is dict and not pt and getattr(Sut, "form", 0) % 2:
                    r = st.save(None if ref is None else self.created[ref])
                else:
                    r = st.save(None if ref is None else self.created[ref], pt)
            elif kind == "ma":
                _, name, v = op
                line = f"ma {ckey(name) if isinstance(name, str) else '!'} {cval(v)}"
                r = st.match_attr(fresh(name), fresh(v))
            elif kind == "mip":
                _, ip = op
                line = f"mip {(cps(ip) if ip else '-') if isinstance(ip, str) else '?ip'}"
                r = st.match_ip_incoming(fresh(ip))
            elif kind == "mu":
                _, v = op
                line = f"mu {cval(v)}"
                r = st.match_uuid(fresh(v))
            elif kind == "attr":
                _, ref, k, v = op
                line = f"attr {ref} {ckey(k)} {cval(v)}"
                r = self.created[ref].attr(fresh(k), v)
            elif kind == "del":
                _, ref, k = op
                line = f"del {ref} {ckey(k)}"
                r = self.created[ref].delete_attr(fresh(k))
            elif kind == "patch":
                _, ref, p = op
                line = f"patch {ref} {cpatch(p)}"
                r = self.created[ref].patch(make_patch(p))
            else:
                raise AssertionError(kind)
            out = self.res(r, kind)
        except AssertionError:
            raise
        except BaseException as e:  # noqa: the real code's exception is an outcome
            r = e
            out = impl_error(e)
        return line, f"{out} {len(st)} {pre}", r


# ------------------------------------------------------------------------------------------------
# the property, evaluated on the real code


def raw_patch(op):
    """the patch argument of the operation as given (a dict, a Px), None if the operation has none"""
    if op[0] == "mi":
        return op[3]
    if op[0] in ("save", "patch"):
        return op[2]
    return None


def patch_of(op):
    """what the patch argument names: its entries with str keys (everything, for a well-formed patch)"""
    p = raw_patch(op)
    if p is None:
        return {}
    return p if type(p) is dict and wellformed(p) else str_entries(p)


def hashable(k) -> bool:
    try:
        hash(k)
    except TypeError:
        return False
    return True


def named_keys(op):
    """the dynamic-attribute names an operation names"""
    if op[0] in ("attr", "del"):
        return [op[2]] if hashable(op[2]) else []
    return [k for k in patch_of(op) if k not in FIELDS]


def expected_after_patch(fields, attrs, p):
    """the property's reading of a patch: exactly the named data members / dynamic attributes change"""
    fields, attrs = dict(fields), dict(attrs)
    for k, v in p.items():
        if k in FIELDS:
            fields[k] = v
        elif v is not None:
            attrs[k] = v
    return fields, attrs


def fresh_fields(index, address):
    return {
        "id": _uuid.UUID(int=index),
        "address_in": address,
        "address_out": ("", 0),
        "address_nat": ("", 0),
        "snmp_enabled": True,
        "nat_enabled": False,
        "dmr_id": None,
        "callsign": "",
        "serial": "",
    }


def same(a, b) -> bool:
    """equal, and of the same kind (1 / True / 1.0 and None / 0 are not interchangeable answers)"""
    return a == b and type(a) is type(b)


def between(lo, hi, act) -> bool:
    """a record after a patching call that RAISED: every data member / dynamic attribute has the value it had (`lo`) or the
    value the patch names for it (`hi` = all named entries applied): exactly the named fields may have changed, to the
    given values; nothing is deleted"""
    (lf, la), (hf, ha), (af, aa) = lo, hi, act
    if set(af) != set(lf) or any(not (af[k] == lf[k] or af[k] == hf[k]) for k in af):
        return False
    for k in set(la) | set(ha) | set(aa):
        if k in aa:
            if not ((k in la and aa[k] == la[k]) or (k in ha and aa[k] == ha[k])):
                return False
        elif k in la:
            return False
    return True


def describe_difference(exp, act, diff):
    """only the members / attributes that differ, per record: (expected text, actual text)"""
    e_out, a_out = [], []
    for i in diff[:4]:
        if i >= len(exp) or i >= len(act):
            e_out.append(f"record {i}: {'present' if i < len(exp) else 'absent'}")
            a_out.append(f"record {i}: {'present' if i < len(act) else 'absent'}")
            continue
        (ef, ea), (af, aa) = exp[i], act[i]
        ks = [("member", k) for k in ef if ef[k] != af.get(k)] + [("attribute", k) for k in list(dict.fromkeys(list(ea) + list(aa))) if k not in ea or k not in aa or ea[k] != aa[k]]
        for what, k in ks[:6]:
            e, a = (ef, af) if what == "member" else (ea, aa)
            e_out.append(f"record {i} {what} {k!r}: {e[k]!r}" if k in e else f"record {i} {what} {k!r}: not set")
            a_out.append(f"record {i} {what} {k!r}: {a[k]!r}" if k in a else f"record {i} {what} {k!r}: not set")
        if len(ks) > 6:
            e_out.append(f"... {len(ks) - 6} more")
    return "; ".join(e_out)[:600], "; ".join(a_out)[:600]


class Sink:
    """collects the verdicts of an oracle instead of reporting them (replay; long histories whose failures are first
    reduced to short ones)"""

    def __init__(self):
        self.failures = []
        self.hist = {}

    def fail(self, kind, input, what, expected=None, actual=None):
        self.failures.append({"kind": kind, "input": input, "what": what, "expected": expected, "actual": actual})

    def count(self, key, n=1):
        self.hist[key] = self.hist.get(key, 0) + n

    def case(self, *a, **k):
        pass


class Oracle:
    """checks C20 as stated, on the real objects, while a history satisfying the preconditions runs"""

    FULL_READBACK = 400  # objects x watched keys read back after every operation up to this product

    def __init__(self, ctx, sut, history, watch_keys=(), tag=None, pool=None):
        self.ctx, self.sut, self.history = ctx, sut, history
        self.tag = tag
        self.pool = pool  # the caller's own objects (containers handed over as values, patch mappings passed repeatedly)
        self.pool_reported = set()
        self.hist_json = [] if pool is not None else None  # the operations as they were GIVEN (their values may be changed later)
        self.last_for_addr = []  # [address, object, id] returned by match_incoming since the last address_in assignment (addresses may be unhashable: compared with ==)
        self.n = 0
        # what attr(key) has to answer, per created object, from the operations alone (public API only);
        # `watch` = the keys read back: every key used so far plus the given siblings
        self.exp_attrs = []
        self.watch = list(dict.fromkeys(watch_keys))
        self.watch_set = set(self.watch)
        self.given_watch = list(self.watch)
        self.suspects = []  # (key named by the operation, another key that changed with it)
        self.nfail = 0

    def fail(self, kind, what, expected=None, actual=None):
        self.ctx.count(f"oracle-failure:{kind}")
        self.nfail += 1
        stream = (self.tag or "plain").split(":")[0]
        per_stream = getattr(self.ctx, "hist", {}).get(f"oracle-failures-recorded:{stream}", 0)
        # keep the first (shortest) ones, count the rest; at most 30 per stream, so that a change that breaks every history of
        # one stream does not keep the later streams (other classes of inputs, other consequences) from reporting theirs
        if len(self.ctx.failures) < 200 and per_stream < 30:
            self.ctx.count(f"oracle-failures-recorded:{stream}")
            if self.hist_json is not None:
                inp = {"history": self.hist_json[: self.n + 1], "stream": "ok", "objects": self.pool.specs}
            else:
                inp = {"history": [op_json(o) for o in self.history[: self.n + 1]], "stream": "ok"}
            if Sut.identity:
                inp["identity"] = True
            if self.given_watch:
                inp["watch"] = self.given_watch[:64]
            if self.tag:
                inp["class"] = self.tag
            self.ctx.fail(kind, inp, what, expected=expected, actual=actual)

    def before(self, op):
        sut = self.sut
        self.len0 = len(sut.storage)
        self.snap0 = sut.snapshot()
        self.created0 = len(sut.created)
        self.uuid0 = sut.uuid_next  # the id a record created by this operation gets
        self.all0 = sut.storage.all()
        if op[0] == "mi":
            # independent of match_attr: is there a stored record with this incoming address?
            self.seen = [o for o in self.all0 if o.address_in == op[1]]
        # the values as they are GIVEN (a call may change a container it is handed: the expectation must not follow)
        p = patch_of(op)
        self.p0 = {k: frz(v) for k, v in p.items()} if p else p
        self.v0 = frz(op[3]) if op[0] == "attr" else None
        if self.hist_json is not None:
            self.hist_json.append(op_json(op))

    def _watch(self, k):
        if k not in self.watch_set:
            self.watch_set.add(k)
            self.watch.append(k)

    def readback(self, op, keys=None, objs=None):
        """attr(key) of the records, through the public API, against what the operations alone imply"""
        sut = self.sut
        named = named_keys(op) if op else []
        for i in range(len(sut.created)) if objs is None else objs:
            o = sut.created[i]
            e = self.exp_attrs[i]
            for k in self.watch if keys is None else keys:
                got = o.attr(k)
                want = e.get(k)
                if not same(got, want) and not (got == want and not in_alphabet(want)):
                    for nk in named:
                        if nk != k and len(self.suspects) < 40:
                            self.suspects.append((nk, k))
                    self.fail("attribute-readback", f"attr({k!r}) of record {i} after {op[0] if op else 'the history'}: another key / record changed it or the write was lost", expected=repr(want), actual=repr(got))

    def after(self, op, raw):
        sut = self.sut
        raised = isinstance(raw, BaseException)
        all1 = sut.storage.all()
        # ---- never two records with the same id; the same object is not stored twice
        ids = [o.id for o in all1]
        if len(set(ids)) != len(ids):
            self.fail("duplicate-id", "two stored records have the same id", actual=[cval(i) for i in ids])
        if len({id(o) for o in all1}) != len(all1):
            self.fail("object-stored-twice", "one repeater object is stored under two keys")
        # ---- nothing leaves the storage: every record stored before the operation is stored after it, in order
        if len(all1) < len(self.all0) or any(a is not b for a, b in zip(self.all0, all1)):
            gone = [sut.index(o) for o in self.all0 if not any(o is x for x in all1)]
            self.fail("record-lost", f"{op[0]}: records {gone[:8]} stored before the operation are not stored after it (or the order changed)", expected=len(self.all0), actual=len(all1))
        # ---- a record is created only by an auto-creating lookup of an unseen address
        praw = raw_patch(op)
        malformed = praw is not None and not wellformed(praw)  # Repeater.patch / save can raise on it
        creates = op[0] == "mi" and bool(op[2]) and not self.seen
        created_now = 1 if creates else 0
        if creates and raised and malformed:
            # the call raised: it may or may not have stored the record it created (the unchanged code has)
            if len(all1) == len(self.all0) + 1 and not any(all1[-1] is o for o in self.all0):
                sut.index(all1[-1])
            else:
                created_now = 0
        exp_len = self.len0 + created_now
        if len(sut.storage) != exp_len:
            kind = "lookup-grew-storage" if not (op[0] == "mi" and op[2]) else "creation-rule"
            self.fail(kind, f"len(storage) after {op[0]} is {len(sut.storage)}", expected=exp_len, actual=len(sut.storage))
        if len(sut.created) != self.created0 + created_now:
            self.fail("creation-rule", "an object unknown to the harness was returned / no object was created", expected=self.created0 + created_now, actual=len(sut.created))
        # ---- lookups: what is returned
        target = None
        if op[0] == "mi":
            if self.seen:
                if (raised and not malformed) or (not raised and raw is not self.seen[0]):
                    self.fail("wrong-record", "match_incoming of a stored address does not return that record", expected=f"obj{sut.index(self.seen[0])}", actual=sut.res(raw) if not raised else impl_error(raw))
                target = self.seen[0]
            elif op[2]:
                if raised and malformed:
                    if created_now and len(sut.created) == self.created0 + 1:
                        target = sut.created[self.created0]
                        self.snap0.append((fresh_fields(self.uuid0, op[1]), {}))
                elif raised or sut.index(raw) != self.created0:
                    self.fail("creation-rule", "auto-creating lookup of an unseen address did not return a new record")
                else:
                    target = raw
                    # what "a record is created" means: constructor defaults, the id of the oracle, this address
                    self.snap0.append((fresh_fields(self.uuid0, op[1]), {}))
            else:
                if malformed:
                    okres = raised or raw is None
                else:
                    okres = (raw is None) if not patch_items(praw) else (raised and type(raw).__name__ == "AttributeError")
                if not okres:
                    self.fail("wrong-record", "lookup of an unseen address without auto-create returned something", expected="None / AttributeError with a patch", actual=impl_error(raw) if raised else sut.res(raw))
            # same address -> same object, same id (no address_in assignment in between)
            if target is not None:
                prev = next((x for x in self.last_for_addr if x[0] == op[1]), None)
                if prev is not None and (prev[1] is not target or prev[2] != target.id):
                    self.fail("identity-changed", "two lookups of the same incoming address returned different objects / ids", expected=f"obj{sut.index(prev[1])} {cval(prev[2])}", actual=f"obj{sut.index(target)} {cval(target.id)}")
        elif op[0] in ("save", "patch", "attr", "del"):
            if op[1] is not None:
                target = sut.created[op[1]]
        elif op[0] in ("mu", "ma", "mip"):
            self.check_lookup(op, raw, raised)
        # ---- a patch changes exactly the named members/attributes of the matched record, nothing else
        snap1 = sut.snapshot()
        exp = [(dict(f), dict(a)) for f, a in self.snap0]
        partial = False
        if target is not None and sut.index(target) < len(exp):
            ti = sut.index(target)
            p = self.p0
            if not raised:
                if p:
                    exp[ti] = expected_after_patch(*exp[ti], p)
                elif op[0] == "attr" and op[3] is not None and hashable(op[2]):
                    exp[ti][1][op[2]] = self.v0
                elif op[0] == "del" and hashable(op[2]):
                    exp[ti][1].pop(op[2], None)
            elif malformed and p and ti < len(snap1) and between(exp[ti], expected_after_patch(*exp[ti], p), snap1[ti]):
                # the call raised in the middle of the patch: some of the named entries are applied, exactly as given
                # (an applied value may be == the old one and of another type, True over 1: the read-back mirror follows)
                partial = True
                exp[ti] = snap1[ti]
        if snap1 != exp:
            diff = [i for i in range(max(len(snap1), len(exp))) if i >= len(snap1) or i >= len(exp) or snap1[i] != exp[i]]
            for i in diff:
                if i < len(snap1) and i < len(exp):
                    a1, a0 = snap1[i][1], exp[i][1]
                    for k in dict.fromkeys(list(a0) + list(a1)):
                        if (k not in a1 or k not in a0 or a1[k] != a0[k]) and len(self.suspects) < 40:
                            for nk in named_keys(op):
                                if nk != k:
                                    self.suspects.append((nk, k))
            e_txt, a_txt = describe_difference(exp, snap1, diff)
            self.fail("patch-not-local", f"{op[0]}{' (raised ' + type(raw).__name__ + ')' if raised else ''}: records {diff[:8]} differ from 'exactly the named fields of the matched record changed'", expected=e_txt, actual=a_txt)
        if self.pool is not None:
            self.check_pool(op)
        # ---- the same through the public API: attr(key) of every record for every key in play
        while len(self.exp_attrs) < len(sut.created):
            self.exp_attrs.append({})
        if target is not None and sut.index(target) >= 0 and op[0] in ("attr", "del") and not hashable(op[2]):
            # a key no dict can hold: nothing can be stored / found under it (whatever the call answers or raises,
            # the snapshot comparison above has checked that nothing changed)
            if not raised and raw not in (None, False):
                self.fail("attribute-readback", f"{op[0]} with an unhashable key answered with a value", expected="an exception / None", actual=repr(raw))
        elif target is not None and sut.index(target) >= 0:
            ti = sut.index(target)
            e = self.exp_attrs[ti]
            # what attr / delete_attr answer
            if op[0] == "attr":
                want = self.v0 if op[3] is not None else e.get(op[2])
                if raised or not same(raw, want):
                    self.fail("attribute-readback", f"attr({op[2]!r}{'' if op[3] is None else ', value'}) answered with something else than the value stored under this key", expected=repr(want), actual=impl_error(raw) if raised else repr(raw))
            elif op[0] == "del":
                if op[2] in e:
                    if raw is not True:
                        self.fail("attribute-readback", f"delete_attr({op[2]!r}) of a stored key did not answer True", expected="True", actual=impl_error(raw) if raised else repr(raw))
                elif not (raw is False or (raised and type(raw).__name__ == "KeyError")):
                    self.fail("attribute-readback", f"delete_attr({op[2]!r}) of a key that was never stored found something", expected="KeyError / False", actual=impl_error(raw) if raised else repr(raw))
            if not raised:
                for k, v in self.p0.items():
                    if k not in FIELDS:
                        self._watch(k)
                        if v is not None:
                            e[k] = v
                if op[0] == "attr":
                    self._watch(op[2])
                    if op[3] is not None:
                        e[op[2]] = self.v0
                elif op[0] == "del":
                    self._watch(op[2])
                    e.pop(op[2], None)
            elif partial:
                # entries applied before the patch raised (validated by `between` above)
                for k, v in self.p0.items():
                    if k not in FIELDS:
                        self._watch(k)
                        got = target.attr(k)
                        if got is not None:
                            e[k] = frz(got)
        if len(sut.created) * len(self.watch) <= self.FULL_READBACK or self.n % 64 == 63:
            self.readback(op)
        else:
            # long histories over many keys: the keys named by the operation, a rotating window of the others
            w = len(self.watch)
            keys = list(dict.fromkeys(named_keys(op) + [self.watch[(self.n * 16 + j) % w] for j in range(16)]))
            self.readback(op, keys=keys)
        # ---- bookkeeping for the identity check
        if "address_in" in patch_of(op) and (not raised or malformed):
            self.last_for_addr = []
        elif op[0] == "mi" and target is not None:
            prev = next((x for x in self.last_for_addr if x[0] == op[1]), None)
            if prev is None:
                self.last_for_addr.append([op[1], target, target.id])
            else:
                prev[1], prev[2] = target, target.id
        self.n += 1

    def check_lookup(self, op, raw, raised):
        """match_uuid / match_attr / match_ip_incoming: a stored record is found by its id, by the value of a data member,
        by the host of its incoming address - the FIRST stored record (storage order) whose member equals the value, whatever
        its dynamic attributes are; nothing stored matches: None (match_uuid: SystemError)"""
        sut = self.sut
        try:
            if op[0] == "mu":
                hits = [o for o in self.all0 if o.id == op[1]]
            elif op[0] == "ma":
                if not (isinstance(op[1], str) and op[1] in FIELDS):
                    return
                hits = [o for o in self.all0 if getattr(o, op[1]) == op[2]]
            else:
                hits = [o for o in self.all0 if o.address_in[0] == op[1]]
        except Exception:  # noqa: a stored address that cannot be subscripted, values that cannot be compared
            return
        what = {"mu": "match_uuid", "ma": "match_attr", "mip": "match_ip_incoming"}[op[0]]
        if hits:
            if raised or raw is not hits[0]:
                self.fail("wrong-record", f"{what}: record {sut.index(hits[0])} is stored and matches, it is not what the lookup answers", expected=f"obj{sut.index(hits[0])}", actual=impl_error(raw) if raised else sut.res(raw))
        elif op[0] == "mu":
            if not (raised and type(raw).__name__ == "SystemError"):
                self.fail("wrong-record", "match_uuid of an id no stored record has answered with something", expected="ERR SystemError", actual=impl_error(raw) if raised else sut.res(raw))
        elif raised or raw is not None:
            self.fail("wrong-record", f"{what}: no stored record matches, the lookup answered with something", expected="None", actual=impl_error(raw) if raised else sut.res(raw))

    def check_pool(self, op):
        """the caller's own objects (containers it handed over as values and keeps, patch mappings it passes again) are what
        the caller made them: no call changes them"""
        pool = self.pool
        for i, (o, f) in enumerate(zip(pool.objs, pool.frozen)):
            if i in self.pool_reported or same_deep(o, f):
                continue
            self.pool_reported.add(i)
            holders = [j for j, r in enumerate(self.sut.created) if any(v is o for v in r._Repeater__attrs.values()) or any(getattr(r, fld) is o for fld in FIELDS)]
            self.fail("caller-object-changed", f"{op[0]}: the call changed object {i} of the caller in place (a value the caller handed over earlier and keeps; records {holders} hold this very object as a value)", expected=repr(f)[:300], actual=repr(o)[:300])

    def finish(self, probe=()):
        """end of the history: every watched key and the given never-written siblings of every record, and every
        handed-out record once more by its address"""
        for k in probe:
            self._watch(k)
        self.readback(None)


# ------------------------------------------------------------------------------------------------
# generators

A0, A1, A2, A3 = ("10.0.0.1", 50000), ("10.0.0.1", 50001), ("10.0.0.2", 50000), ("x", 7)


def alphabets(ctx):
    """small operation pools for the exhaustive part; references are creation indices, an operation
    whose reference does not exist yet makes the sequence inapplicable (skipped, counted)"""
    return {
        "identity": [
            ("mi", A0, True, {}),
            ("mi", A0, False, {}),
            ("mi", A1, True, {"dmr_id": 7}),
            ("mi", A1, False, {"k": 1}),
            ("mip", "10.0.0.1"),
            ("ma", "address_in", A1),
            ("mu", _uuid.UUID(int=0)),
            ("save", 0, {"callsign": "AB"}),
        ],
        "patching": [
            ("mi", A0, True, {"k": 1, "m": None, "callsign": "C"}),
            ("mi", A1, True, {}),
            ("save", 1, {"k": 2, "dmr_id": None}),
            ("patch", 0, {"address_out": A2, "m": "x"}),
            ("attr", 0, "k", None),
            ("attr", 1, "k", 5),
            ("del", 0, "k"),
            ("save", None, {"k": 1}),
        ],
        "moving": [
            ("mi", A0, True, {}),
            ("mi", A2, True, {}),
            ("patch", 0, {"address_in": A1}),  # guarded: only applied where no other record holds A1
            ("mi", A1, True, {"snmp_enabled": False}),
            ("mi", A0, False, {"address_in": A3}),
            ("mip", "10.0.0.2"),
            ("ma", "snmp_enabled", 1),
            ("ma", "nope", 1),
        ],
        "errors": [
            ("mi", A0, True, {}),
            ("mi", A1, False, {"k": 1}),
            ("mu", _uuid.UUID(int=1)),
            ("del", 0, "k"),
            ("attr", 0, "k", "v"),
            ("save", None, {}),
            ("ma", "dmr_id", None),
            ("mip", ""),
        ],
    }


CROSS_ALPHABET = [
    ("mi", A0, True, {}),
    ("mi", A1, True, {"id": _uuid.UUID(int=0)}),  # assigns id (excluded point 1)
    ("patch", 0, {"id": 5}),
    ("save", 0, {"k": 1}),
    ("save", 1, {"address_in": A0}),  # address another record holds (excluded point 2)
    ("patch", 0, {"address_in": "xy"}),  # not a tuple: match_ip_incoming subscripts it
    ("patch", 0, {"address_in": 5}),
    ("mip", "x"),
    ("mi", A0, False, {"k": 2}),
    ("mu", _uuid.UUID(int=0)),
]


def violates_pre(sut, op):
    """the two preconditions of the theorems (DESIGN par. 5 C20), evaluated on the real state"""
    p = patch_of(op)
    if op[0] == "save" and op[1] is None:
        return False  # nothing is patched: raises (non-empty patch) or returns None
    if "id" in p:
        return True
    if "address_in" in p:
        if op[0] == "mi":
            tgt = [o for o in sut.storage.all() if o.address_in == op[1]][:1]
        else:
            tgt = [sut.created[op[1]]] if op[1] is not None and op[1] < len(sut.created) else []
        for o in sut.storage.all():
            if (not tgt or o is not tgt[0]) and o.address_in == p["address_in"]:
                return True
    return False


def resolve(sut, op):
    """object references of the pools are creation indices; a reference beyond the objects created so far
    denotes the youngest object; with no object at all the operation (hence the sequence) is inapplicable"""
    if op[0] in ("save", "attr", "del", "patch") and op[1] is not None:
        if not sut.created:
            return None
        if op[1] >= len(sut.created):
            return (op[0], len(sut.created) - 1) + tuple(op[2:])
    return op


def modelled(line: str) -> bool:
    """the operation is inside the model: every value in its alphabet (A2), keys str, patch argument a mapping or one of
    the two modelled malformed kinds (everything else is printed with a `?` by cval / ckey / cpatch)"""
    return "?" not in line


def run_sequence(ctx, ops, pairs, stream, dump_every=0, watch=(), probe=(), tag=None, oracle_ctx=None, pool=None):
    """runs one history on a fresh storage; returns False if it was inapplicable / left the preconditions.
    `pairs` None: oracle only.  Returns the oracle (truthy) for stream 'ok'.  `pool`: the caller's own objects the
    operations refer to (checked after every operation, printed as references in a failing input)."""
    enough(ctx)
    sut = Sut()
    saved_pool = _POOL[0]
    _POOL[0] = pool
    try:
        history = []
        oracle = Oracle(oracle_ctx or ctx, sut, history, watch, tag, pool) if stream == "ok" else None
        local = [("reset", "ok")]
        in_model = True
        for n, op in enumerate(ops):
            op = resolve(sut, op)
            if op is None:
                return False
            if stream == "ok" and violates_pre(sut, op):
                return False
            history.append(op)
            if oracle:
                oracle.before(op)
            line, out, raw = sut.apply(op)
            in_model = in_model and modelled(line)
            local.append((line, out))
            ctx.count(f"op:{op[0]}")
            if isinstance(raw, BaseException):
                ctx.count(f"outcome:{type(raw).__name__}")
            if oracle:
                oracle.after(op, raw)
            else:
                # excluded points: the dictionary keys stay unique and every stored object is known
                keys = [k for k, _ in sut.dict_items()]
                if len(set(keys)) != len(keys):
                    ctx.fail("duplicate-key", {"history": [op_json(o) for o in history], "stream": stream}, "dictionary holds one key twice")
                if isinstance(raw, BaseException) and type(raw).__name__ not in ("AttributeError", "KeyError", "SystemError", "TypeError", "IndexError"):
                    ctx.fail("unexpected-exception", {"history": [op_json(o) for o in history], "stream": stream}, f"{op[0]} raised {type(raw).__name__}")
            if dump_every and (n + 1) % dump_every == 0:
                local.append(("dump", sut.dump()))
        if oracle and (watch or probe):
            oracle.finish(probe)
        if pairs is not None and in_model:
            local.append(("dump", sut.dump()))
            pairs.extend(local)
        elif pairs is not None:
            ctx.count("histories-outside-the-model(oracle-only)")
        return oracle or True
    finally:
        _POOL[0] = saved_pool
        sut.close()


def _plain(x) -> bool:
    return x is None or type(x) in (bool, int, str)


def jv(x):
    """JSON form of a value / address / patch argument of an operation (replay files)"""
    if _plain(x):
        return x
    if _POOL[0] is not None:
        i = _POOL[0].ref(x)
        if i is not None:
            return {"ref": i}
    if isinstance(x, _uuid.UUID):
        return {"uuid": x.int}
    if type(x) is float:
        return {"float": repr(x)}
    if isinstance(x, bytes):
        return {"bytes": x.hex()}
    if type(x) is Str:
        return {"strsub": str(x)}
    if type(x) is Int:
        return {"intsub": int(x)}
    if isinstance(x, (Addr2, Addr4)):
        return {"namedtuple": [jv(y) for y in x]}
    if type(x) is tuple:
        return {"addr": list(x)} if all(_plain(y) for y in x) else {"tuple": [jv(y) for y in x]}
    if type(x) is list:
        return {"list": [jv(y) for y in x]}
    if type(x) is dict:
        return {"patch": [[jv(k), jv(v)] for k, v in x.items()]}
    if type(x) is Held:
        return {"held": [[jv(k), jv(v)] for k, v in x.items()]}
    if type(x) is bytearray:
        return {"bytearray": bytes(x).hex()}
    if type(x) is collections.deque:
        return {"deque": [jv(y) for y in x]}
    if type(x) is collections.OrderedDict:
        return {"odict": [[jv(k), jv(v)] for k, v in x.items()]}
    if type(x) is collections.defaultdict:
        return {"ddict": [[jv(k), jv(v)] for k, v in x.items()]}
    if type(x) is collections.Counter:
        return {"counter": [[jv(k), jv(v)] for k, v in x.items()]}
    if type(x) is frozenset:
        return {"frozenset": sorted((jv(y) for y in x), key=repr)}
    if type(x) is collections.UserDict:
        return {"userdict": [[jv(k), jv(v)] for k, v in x.items()]}
    if type(x) is types.SimpleNamespace:
        return {"namespace": [[k, jv(v)] for k, v in vars(x).items()]}
    if isinstance(x, Px):
        return {"px": x.kind, "items": [[jv(k), jv(v)] for k, v in x.items]}
    if isinstance(x, (set, frozenset)):
        return {"set": sorted((jv(y) for y in x), key=repr)}
    return {"repr": repr(x)}


def uj(x, pool=None):
    """the value of a JSON form; {"ref": i} is the i-th object of `pool` (the caller's own objects of the history)"""
    if pool is not None:
        return _uj(x, pool)
    return _uj(x, _POOL[0].objs if _POOL[0] is not None else None)


def _uj(x, pool):
    def uj(y):
        return _uj(y, pool)

    if isinstance(x, list):
        return [uj(y) for y in x]
    if not isinstance(x, dict):
        return x
    if "ref" in x:
        return pool[x["ref"]]
    if "held" in x:
        return Held((_key(uj(k)), uj(v)) for k, v in x["held"])
    if "bytearray" in x:
        return bytearray(bytes.fromhex(x["bytearray"]))
    if "deque" in x:
        return collections.deque(uj(y) for y in x["deque"])
    if "odict" in x:
        return collections.OrderedDict((_key(uj(k)), uj(v)) for k, v in x["odict"])
    if "ddict" in x:
        d = collections.defaultdict(int)
        d.update((_key(uj(k)), uj(v)) for k, v in x["ddict"])
        return d
    if "counter" in x:
        return collections.Counter({_key(uj(k)): uj(v) for k, v in x["counter"]})
    if "frozenset" in x:
        return frozenset(_key(uj(y)) for y in x["frozenset"])
    if "userdict" in x:
        return collections.UserDict({_key(uj(k)): uj(v) for k, v in x["userdict"]})
    if "namespace" in x:
        return types.SimpleNamespace(**{k: uj(v) for k, v in x["namespace"]})
    if "uuid" in x:
        return _uuid.UUID(int=x["uuid"])
    if "float" in x:
        return float(x["float"])
    if "bytes" in x:
        return bytes.fromhex(x["bytes"])
    if "strsub" in x:
        return Str(x["strsub"])
    if "intsub" in x:
        return Int(x["intsub"])
    if "namedtuple" in x:
        v = [uj(y) for y in x["namedtuple"]]
        return Addr2(*v) if len(v) == 2 else Addr4(*v)
    if "addr" in x:
        return tuple(x["addr"])
    if "tuple" in x:
        return tuple(uj(y) for y in x["tuple"])
    if "list" in x:
        return [uj(y) for y in x["list"]]
    if "patch" in x:
        return {_key(uj(k)): uj(v) for k, v in x["patch"]}
    if "px" in x:
        return Px(x["px"], [(_key(uj(k)), uj(v)) for k, v in x["items"]])
    if "set" in x:
        return {_key(uj(y)) for y in x["set"]}
    return x


def _key(k):
    return tuple(k) if isinstance(k, list) else k


def op_json(op):
    return [jv(x) for x in op]


def op_unjson(o, pool=None):
    return tuple(uj(x, pool) for x in o)


# ------------------------------------------------------------------------------------------------
# names of dynamic attributes: the library's own constants and their near-collision families

# used if the constants cannot be read from the library, and always in addition to them
STATIC_KEYS = [
    "1.3.6.1.4.1.40297.1.2.4.10.0",
    "1.3.6.1.4.1.40297.1.2.4.1.0",
    "1.3.6.1.4.1.40297.1.2.1.2.10.0",
    "1.3.6.1.4.1.40297.1.2.1.2.1.0",
    "p2p_is_registered",
    "rdac_firmware",
    "rx_freq",
    "custom_attr",  # the names the library's tests use
    "different_attr",
    "firmware",
    "k",
    "m",
    "caf\xe9",  # composed / decomposed / compatibility forms exist
    "\ufb01rmware",
    "\u212bngstr\xf6m",
    "stra\xdfe",
    "10",
    "0",
]

# hand-picked families of look-alike names (kept in addition to the generated ones)
KEY_FAMILIES = [
    ["k.10.0", "k.1.0", "k.1", "k.10", "k.100.0", "k", "k.0", "k.", "k.00"],  # SNMP-like instance suffixes
    ["1.3.6.1.4.1.40297.1.2.4.10.0", "1.3.6.1.4.1.40297.1.2.4.1.0", "1.3.6.1.4.1.40297.1.2.4.1", "1.3.6.1.4.1.40297.1.2.1.2.10.0", "1.3.6.1.4.1.40297.1.2.1.2.1.0"],
    ["rx_freq", "RX_FREQ", "Rx_Freq", "rx-freq", "rxfreq", "rx_freq ", " rx_freq", "rx_freq\t", "rx_freq\n"],  # case / separators / whitespace
    ["key", "key2", "ke", "keykey", "key_", "_key", "__key", "key__", "_Repeater__key"],  # prefixes, name mangling look-alikes
    ["\xe9", "e\u0301", "E\u0301", "\xc9", "e", "\uff4b", "k\u200b", "\u212a"],  # NFC/NFD, width, zero width, Kelvin sign
    ["0", "00", "0.0", ".0", "+0", "-0", "0x0", "", "None", "False"],  # numeric / empty / literal look-alikes
    ["a=b", "a,b", "a b", "a%3Db", "a;b", "a|b", "a\\b", "a/b"],  # separators of the harness' own line protocol
]

WS = [" ", "\t", "\n", "\r\n", "\x0b", "\x0c", "\x1c", "\x85", "\xa0", "\u2028", "\u3000"]
INVISIBLE = ["\x00", "\u200b", "\u200d", "\xad", "\ufeff", "\u0301", "\ud800"]
AFFIXES = [".0", "0", ".", ".0.0", "00", "_", "s", "-", "1", ".1", "/", ":", "x", "%"]


def _fullwidth(k):
    return "".join(chr(ord(c) + 0xFEE0) if 0x21 <= ord(c) <= 0x7E else c for c in k)


def _strip_accents(k):
    return "".join(c for c in unicodedata.normalize("NFD", k) if not unicodedata.combining(c))


def _norm(form):
    def f(k):
        return unicodedata.normalize(form, k)

    return f


def _camel_to_snake(k):
    return re.sub(r"(?<=[a-z0-9])([A-Z])", r"_\1", k).lower()


def _intsegs(k):
    return ".".join(str(int(s)) if s.isascii() and s.isdigit() else s for s in k.split("."))


def _numeric(k):
    return str(int(k))  # raises for non-numeric names: those are their own class


# plausible normalisations of a name; two different names with the same image are a collision candidate
NORMALISERS = {
    "rstrip('.0')": lambda k: k.rstrip(".0"),
    "rstrip('.0') of *.0": lambda k: k.rstrip(".0") if k.endswith(".0") else k,
    "removesuffix('.0')": lambda k: k[:-2] if k.endswith(".0") else k,
    "rstrip('0')": lambda k: k.rstrip("0"),
    "rstrip('.')": lambda k: k.rstrip("."),
    "lstrip('.')": lambda k: k.lstrip("."),
    "strip('.')": lambda k: k.strip("."),
    "lstrip('0')": lambda k: k.lstrip("0"),
    "lstrip('1.')": lambda k: k.lstrip("1."),
    "strip('_')": lambda k: k.strip("_"),
    "rstrip('s')": lambda k: k.rstrip("s"),
    "strip()": lambda k: k.strip(),
    "rstrip()": lambda k: k.rstrip(),
    "lstrip()": lambda k: k.lstrip(),
    "strip(whitespace, NUL, BOM)": lambda k: k.strip(" \t\r\n\x00\ufeff"),
    "C string": lambda k: k.split("\x00")[0],
    "first line": lambda k: (k.splitlines() or [""])[0],
    "first word": lambda k: (k.split() or [""])[0],
    "single spaces": lambda k: " ".join(k.split()),
    "lower": str.lower,
    "upper": str.upper,
    "casefold": str.casefold,
    "title": str.title,
    "NFC": _norm("NFC"),
    "NFD": _norm("NFD"),
    "NFKC": _norm("NFKC"),
    "NFKD": _norm("NFKD"),
    "NFKC casefold": lambda k: unicodedata.normalize("NFKC", k).casefold(),
    "strip accents": _strip_accents,
    "drop invisible": lambda k: re.sub("[\x00\u200b\u200d\xad\ufeff]", "", k),
    "ascii ignore": lambda k: k.encode("ascii", "ignore").decode(),
    "ascii replace": lambda k: k.encode("ascii", "replace").decode(),
    "latin-1 replace": lambda k: k.encode("latin-1", "replace").decode("latin-1"),
    "utf-8 replace": lambda k: k.encode("utf-8", "replace").decode(),
    "separators to _": lambda k: re.sub(r"[-. /:]", "_", k),
    "separators dropped": lambda k: re.sub(r"[-_. /:]", "", k),
    "non-word dropped": lambda k: re.sub(r"\W", "", k),
    "snake case": _camel_to_snake,
    "doubled separators": lambda k: re.sub(r"([._-])\1+", r"\1", k),
    "trunc 4": lambda k: k[:4],
    "trunc 8": lambda k: k[:8],
    "trunc 16": lambda k: k[:16],
    "trunc 24": lambda k: k[:24],
    "trunc 32": lambda k: k[:32],
    "trunc 64": lambda k: k[:64],
    "trunc 255": lambda k: k[:255],
    "last segment": lambda k: k.rsplit(".", 1)[-1],
    "drop last segment": lambda k: k.rsplit(".", 1)[0],
    "after first _": lambda k: k.split("_", 1)[-1],
    "int segments": _intsegs,
    "numeric": _numeric,
    "leading dot / iso": lambda k: re.sub(r"^(\.|iso\.)", "1." if k.startswith("iso.") else "", k),
    "%-unquote": lambda k: re.sub(r"%([0-9A-Fa-f]{2})", lambda m: chr(int(m.group(1), 16)), k),
}


def variants(k):
    """systematic near-collision family of a name: affixes added / removed, character sets stripped, zeros and dots
    moved around the last segment, dotted prefixes, case, separators, Unicode forms, truncation / long twins, numeric
    spellings"""
    out = []
    for t in AFFIXES + WS + INVISIBLE:
        out += [k + t, t + k]
    out += [k[:-1], k[:-2], k[1:], k[2:], k + k, k + "." + k]
    for sep in "._- ":
        if sep in k:
            head, last = k.rsplit(sep, 1)
            out += [head, head + sep, k.split(sep, 1)[1], k.replace(sep, ""), k.replace(sep, "_"), k.replace(sep, "-"), k.replace(sep, "."), k.replace(sep, " "), k.replace(sep, sep * 2)]
    for cs in [".0", "0", ".", "1.", "_", "s", " ", "01", "._-"]:
        out += [k.rstrip(cs), k.lstrip(cs), k.strip(cs)]
    if "." in k:
        head, last = k.rsplit(".", 1)
        out += [head + "0." + last, head + ".0." + last, head + "00." + last, k + "0", head + ".0" + last, head + "." + last + ".0"]
        if "." in head:
            h2, l2 = head.rsplit(".", 1)
            out += [h2 + "." + l2 + "0." + last, h2 + "." + l2.rstrip("0") + "." + last, h2 + ".0" + l2 + "." + last, h2 + "." + l2 + "." + last + "0"]
        segs = k.split(".")
        out += [".".join(segs[:i]) for i in range(1, len(segs))]
        out.append(".".join("0" + s if s.isdigit() else s for s in segs))
        if segs[0] == "1" and len(segs) > 7:  # net-snmp spellings of an OID
            out += ["." + k, "iso." + ".".join(segs[1:]), "enterprises." + ".".join(segs[6:]), "SNMPv2-SMI::enterprises." + ".".join(segs[6:])]
    out += [k.upper(), k.lower(), k.swapcase(), k.title(), k.capitalize(), k.casefold()]
    if "_" in k:
        parts = k.split("_")
        out += [parts[0] + "".join(p.title() for p in parts[1:]), "".join(p.title() for p in parts)]
    for form in ("NFC", "NFD", "NFKC", "NFKD"):
        out.append(unicodedata.normalize(form, k))
    out += [_fullwidth(k), _strip_accents(k), k.encode("ascii", "ignore").decode(), k.encode("ascii", "replace").decode()]
    for a, b in (("k", "\u212a"), ("s", "\u017f"), ("i", "\u0131"), ("I", "\u0130"), ("ss", "\xdf"), ("fi", "\ufb01"), ("e", "\xe9"), ("e", "e\u0301"), ("a", "\u0430"), ("1", "\u0661"), ("0", "\uff10")):
        if a in k:
            out.append(k.replace(a, b, 1))
    for n in (4, 8, 16, 24, 31, 32):
        out.append(k[:n])
    pad = k.ljust(300, "_")
    out += [pad + "a", pad + "b", pad]
    if k.isascii() and k.isdigit():
        out += ["0" + k, "+" + k, k + ".0", k + "e0", "0x" + k, "-" + k]
    return [v for v in dict.fromkeys(out) if v != k]


def library_keys(ctx):
    """the names the library itself stores as dynamic attributes, read from the live classes"""
    keys = []
    try:
        from okdmr.dmrlib.hytera.snmp import SNMP

        keys += [v for n, v in vars(SNMP).items() if n.startswith("OID_") and isinstance(v, str)]
        keys += [v for v in list(getattr(SNMP, "ALL_KNOWN", [])) + list(getattr(SNMP, "READABLE_LABELS", {})) if isinstance(v, str)]
    except Exception:  # noqa
        ctx.count("keys:library-constants-unavailable:snmp")
    for mod, cls in (
        ("okdmr.dmrlib.protocols.hytera.p2p_datagram_protocol", "P2PDatagramProtocol"),
        ("okdmr.dmrlib.protocols.hytera.rdac_datagram_protocol", "RDACDatagramProtocol"),
    ):
        try:
            c = getattr(importlib.import_module(mod), cls)
            keys += [v for n, v in vars(c).items() if n.startswith("STORAGE_ATTR_") and isinstance(v, str)]
        except Exception:  # noqa
            ctx.count(f"keys:library-constants-unavailable:{cls}")
    return list(dict.fromkeys(keys))


class Keys:
    """the universe of attribute names of one run: base names, their families, the mined collision candidates"""

    def __init__(self, ctx):
        import okdmr.dmrlib.storage.repeater as rmod

        taken = set(dir(rmod.Repeater())) - set(FIELDS)  # assumption A1: methods, logger, the private dict, dunders
        lib = library_keys(ctx)
        ctx.count("keys:library-constants", len(lib))
        self.base = [k for k in dict.fromkeys(lib + STATIC_KEYS) if k not in taken and k not in FIELDS]
        self.members = [f for f in FIELDS if f not in ("id", "address_in")]
        fam = {}
        universe = dict.fromkeys(self.base)
        for k in self.base + self.members:
            vs = [v for v in variants(k) if v not in taken and v not in FIELDS]
            fam[k] = vs
            universe.update(dict.fromkeys(vs))
        for f in KEY_FAMILIES:
            universe.update(dict.fromkeys(f))
        self.family = fam
        self.universe = [k for k in universe if k not in taken and k not in FIELDS]
        ctx.count("keys:universe", len(self.universe))
        # collision candidates: different names with the same image under some normaliser
        special = set(self.base) | set(self.members)
        pairs = {}
        partners = {}
        pool = self.universe + self.members
        for name, fn in NORMALISERS.items():
            img = {}
            for k in pool:
                try:
                    y = fn(k)
                except Exception:  # noqa
                    continue
                img.setdefault(y, []).append(k)
            for ks in img.values():
                if len(ks) < 2:
                    continue
                ks.sort(key=lambda k: (k not in special, len(k), k))
                for a in range(min(len(ks), 4)):
                    for b in range(a + 1, min(len(ks), 7)):
                        if ks[a] in self.members and ks[b] in self.members:
                            continue
                        if (ks[a], ks[b]) not in pairs and (ks[b], ks[a]) not in pairs:
                            pairs[(ks[a], ks[b])] = name
                            partners.setdefault(ks[a], []).append(ks[b])
                            partners.setdefault(ks[b], []).append(ks[a])
        self.pairs = pairs
        self.partners = partners
        self.tier0 = [p for p in pairs if p[0] in special and p[1] in special]
        self.tier1 = [p for p in pairs if (p[0] in special) != (p[1] in special)]
        self.tier2 = [p for p in pairs if p[0] not in special and p[1] not in special]
        ctx.count("keys:collision-candidates:both-library-names", len(self.tier0))
        ctx.count("keys:collision-candidates:one-library-name", len(self.tier1))
        ctx.count("keys:collision-candidates:variants-only", len(self.tier2))

    def cluster(self, rng):
        """a handful of names around one base name: partners under some normaliser, family members, an unrelated name"""
        b = rng.choice(self.base + self.members)
        out = [b] if b not in FIELDS else []
        ps = self.partners.get(b, [])
        out += rng.sample(ps, min(len(ps), 4))
        fs = self.family.get(b, [])
        out += rng.sample(fs, min(len(fs), 3))
        out.append(rng.choice(self.base))
        return [k for k in dict.fromkeys(out) if k not in FIELDS]


V1, V2, V3 = 111, "v2", ("10.9.9.9", 9)


def pair_histories(k1, k2):
    """short histories on one or two records that write / overwrite / delete / read two look-alike names"""

    def w(ref, k, v):  # a write through Repeater.patch
        return ("patch", ref, {k: v})

    hs = [
        [("mi", A0, True, {k1: V1}), w(0, k2, V2), ("mi", A0, False, {k1: V3})],
        [("mi", A0, True, {k1: V1, k2: V2}), ("mi", A1, True, {k2: V3}), ("save", 0, {k2: None, k1: V2}), ("save", 1, {k1: V1})],
        [("mi", A0, True, {k2: V2}), ("save", 0, {k1: V1}), w(0, k2, V3)],
    ]
    if k1 not in FIELDS and k2 not in FIELDS:
        hs[0].append(("del", 0, k2))
        hs[1].append(("del", 1, k2))
        hs += [
            [("mi", A0, True, {}), ("attr", 0, k1, V1), ("attr", 0, k2, V2), ("del", 0, k1), ("attr", 0, k2, None)],
            [("mi", A0, True, {k2: V2}), ("attr", 0, k1, None), ("del", 0, k1), ("attr", 0, k1, V1), ("del", 0, k2), ("attr", 0, k1, None)],
        ]
    return hs


def run_pairs(ctx, keys, pairs, todo, tag="keys:pair"):
    n = 0
    for k1, k2 in todo:
        for h in pair_histories(k1, k2):
            ok = run_sequence(ctx, h, pairs, "ok", watch=[k for k in (k1, k2) if k not in FIELDS], probe=[k for k in keys.partners.get(k1, [])[:6] if k not in FIELDS], tag=tag)
            assert ok
            n += 1
            ctx.case((tag, k1, k2, len(h)), sample={"class": tag, "keys": [k1, k2], "collide under": keys.pairs.get((k1, k2)) or keys.pairs.get((k2, k1))} if n == 1 else None)
        if len(pairs) > 200000:
            flush(ctx, "storage.keys", pairs)
    ctx.count(f"{tag}-histories", n)
    return n


def run_sweep(ctx, keys, names, pairs):
    """one record (and a bystander) and EVERY name of `names`: each gets its own value through one of the four write
    paths, then multi-entry patches of growing size, deletion of every other name, re-creation; every name is read
    back through attr().  Complete over all pairs of `names` whatever the normalisation would be.  Failures are first
    reduced to pair histories on the two names involved."""
    rng = ctx.rng
    order = list(names)
    rng.shuffle(order)
    ops = [("mi", A0, True, {}), ("mi", A1, True, {"bystander": 1})]
    for n, k in enumerate(order):
        v = n + 1000
        w = rng.randrange(4)
        ops.append([("mi", A0, False, {k: v}), ("save", 0, {k: v}), ("patch", 0, {k: v}), ("attr", 0, k, v)][w])
    i, size = 0, 2
    while i < len(order):  # multi-entry patches of growing size rewrite every third name
        chunk = [k for k in order[i : i + size]][::3]
        if chunk:
            ops.append(("patch", 0, {k: f"s{i}.{j}" for j, k in enumerate(chunk)}))
        i += size
        size = min(size * 2, 512)
    dele = order[::2]
    rng.shuffle(dele)
    for k in dele:
        ops.append(("del", 0, k))
    for n, k in enumerate(dele[::4]):
        ops.append(("save", 0, {k: ("10.8.8.8", n)}))
    run_long(ctx, ops, pairs, order, "keys:sweep", keys)
    ctx.count("keys:sweep-names", len(order))
    ctx.count("keys:sweep-operations", len(ops))
    ctx.case(("keys:sweep", len(order), len(ops)), sample={"class": "keys:sweep", "names": len(order), "operations": len(ops)})


def shrink(ops, keep, test, max_runs=150):
    """delta debugging on the operations after the first `keep`: drop chunks while `test` still fails"""
    head, body = list(ops[:keep]), list(ops[keep:])
    n, runs = 2, 0
    while len(body) >= 2 and runs < max_runs:
        chunk = -(-len(body) // n)
        reduced = False
        for i in range(0, len(body), chunk):
            cand = body[:i] + body[i + chunk :]
            runs += 1
            if test(head + cand):
                body, n, reduced = cand, max(n - 1, 2), True
                break
            if runs >= max_runs:
                break
        if not reduced:
            if chunk == 1:
                break
            n = min(n * 2, len(body))
    return head + body


def run_long(ctx, ops, pairs, watch, tag, keys=None):
    """a long history on two records.  Its verdicts are collected first; if there are any they are reduced before being
    reported: to histories on the two names involved, else by delta debugging of the failing prefix"""
    sink = Sink()
    o = run_sequence(ctx, ops, pairs, "ok", watch=watch, tag=tag, oracle_ctx=sink)
    assert o
    if not sink.failures:
        return
    for k, n in sink.hist.items():
        ctx.count(k, n)
    before = len(ctx.failures)
    if keys is not None:
        todo = list(dict.fromkeys(tuple(sorted(p)) for p in o.suspects))[:12]
        run_pairs(ctx, keys, pairs, todo, tag=tag + ":two-names")
    if len(ctx.failures) == before:
        first = sink.failures[0]
        prefix = [op_unjson(x) for x in first["input"]["history"]]  # the failing prefix, as operations
        named = [k for op in prefix[-1:] for k in named_keys(op)]
        small_watch = list(dict.fromkeys(named + list(watch)[:8]))

        def test(cand):
            t = Sink()
            return bool(run_sequence(t, cand, None, "ok", watch=small_watch, oracle_ctx=t)) and any(f["kind"] == first["kind"] for f in t.failures)

        small = shrink(prefix, 2, test) if len(prefix) <= 3000 else prefix
        run_sequence(ctx, small, None, "ok", watch=small_watch, tag=tag + ":reduced")
    if len(ctx.failures) == before:  # not reproducible in a reduced form: report the long history
        for f in sink.failures[:3]:
            ctx.fail(f["kind"], f["input"], f["what"], expected=f["expected"], actual=f["actual"])


# values: what a patch gives is what is stored (no trimming, folding, clamping, truncation)
SPECIAL_VALUES = [
    " ab ", "ab\x00", "Ab", "AB\n", "\r\nAB", "e\u0301", "\xe9", "\ufeffx", "\ud800", "\U0001f4fb", "x" * 300, "0", "None",
    2**31 - 1, 2**31, 2**32, 2**63, 2**64 - 1, 2**70, 10**30, 65536, 16777216,
    ("10.0.0.1", 65535), ("::1", 0), (" 10.0.0.1", 50000), ("", 65536), ("x" * 300, 2**40),
    _uuid.UUID(int=2**128 - 1), _uuid.UUID(int=1),
]
FOREIGN_VALUES = [-1, -70, 1.5, b"\x01\x02", [1, 2], 2.0**70]  # outside the model's alphabet: oracle only

# incoming addresses that are different tuples but equal after some normalisation of host or port
ADDRESS_FAMILY = [
    ("10.0.0.1", 50000), ("10.0.0.01", 50000), ("010.0.0.1", 50000), (" 10.0.0.1", 50000), ("10.0.0.1 ", 50000), ("10.0.0.1.", 50000),
    ("10.0.0.10", 50000), ("10.0.0.1", 50000 + 65536), ("10.0.0.1", 5000), ("10.0.0.1", 500000), ("10.0.0.1", 0), ("10.0.0.1\x00", 50000),
    ("::1", 50000), ("0:0:0:0:0:0:0:1", 50000), ("::ffff:10.0.0.1", 50000), ("::FFFF:10.0.0.1", 50000), ("localhost", 50000), ("LOCALHOST", 50000),
    ("localhost.", 50000), ("", 50000), ("\uff11\uff10.0.0.1", 50000), ("10.0.0.1%eth0", 50000), ("167772161", 50000), ("0x0a000001", 50000),
]

DEFAULT_POOL = {
    "addrs": [A0, A1, A2, A3, ("10.0.0.3", 1)],
    "vals": [None, 0, 1, 7, True, False, "", "AB", "x", A0, A2, ("", 0), 2**70, "v" * 300],
    "dyn": ["k", "m", "p2p_is_registered", "rx_freq"],
}


def random_op(rng, sut, stream, pool=DEFAULT_POOL):
    addrs, vals, dyn = pool["addrs"], pool["vals"], pool["dyn"]
    fields = FIELDS[1:] if stream == "ok" else FIELDS

    def patch():
        if pool.get("held") is not None and rng.random() < 0.2:
            return pool["held"]  # the caller's own mapping, the same object in every call that uses it
        n = rng.choice([0, 0, 1, 1, 2, 3])
        p = {}
        for _ in range(n):
            if rng.random() < 0.5:
                k = rng.choice(fields)
                if k == "address_in":
                    v = rng.choice(addrs + ([5, "xy", "", None] if stream != "ok" else [("10.0.0.9", rng.randrange(4))]))
                elif k == "id":
                    v = rng.choice([_uuid.UUID(int=rng.randrange(4)), 5, None])
                else:
                    v = rng.choice(vals)
            else:
                k, v = rng.choice(dyn), rng.choice(vals)
            p[k] = v
        return p

    nobj = len(sut.created)
    ref = rng.randrange(nobj) if nobj else None
    if pool.get("bad") and rng.random() < pool["bad"]:
        return random_bad_op(rng, ref, addrs)
    c = rng.randrange(100)
    if c < 30 or ref is None:
        return ("mi", rng.choice(addrs), rng.random() < 0.5, patch())
    if c < 40:
        return ("save", rng.choice([ref, ref, None]), patch())
    if c < 50:
        name = rng.choice(FIELDS + ["nope"])
        if name == "id":
            v = _uuid.UUID(int=rng.randrange(nobj + 2))
        elif name.startswith("address"):
            v = rng.choice(addrs + [("", 0)])
        else:
            v = rng.choice(vals)
        return ("ma", name, v)
    if c < 58:
        return ("mip", rng.choice([host_of(a) for a in addrs[:4]] + ["", "10.0.0.9"]))
    if c < 66:
        return ("mu", _uuid.UUID(int=rng.randrange(nobj + 2)) if rng.random() < 0.9 else rng.choice([5, None]))
    if c < 78:
        return ("attr", ref, rng.choice(dyn), rng.choice(vals))
    if c < 86:
        return ("del", ref, rng.choice(dyn))
    return ("patch", ref, patch())


def host_of(a):
    """`address[0]` where the address has one, as a str"""
    if isinstance(a, (tuple, list)) and a and isinstance(a[0], str):
        return a[0]
    return ""


# ------------------------------------------------------------------------------------------------
# error path: arguments on which a call raises (or may raise)

BAD_KEY_PATCHES = [
    # a key that is no str: hasattr(self, key) raises TypeError - at the first, a middle, the last position
    {1: 2},
    {None: 1},
    {True: "x"},
    {1.5: "x"},
    {b"k": 1},
    {("k",): 1},
    {"k": 5, 1: 2},
    {1: 2, "k": 5},
    {"callsign": "X", "k": 6, 2: 3, "m": 7},
    {"k": 5, "dmr_id": 9, None: 0},
    {"dmr_id": 11, "rx_freq": 430000000, "p2p_is_registered": True, 0: 0},
    {"snmp_enabled": False, ("a", 1): 1, "nat_enabled": True},
]
NON_MAPPING_PATCHES = [
    Px("pairs", [("k", 5)]),  # a list of pairs: len() works, .items() does not
    Px("pairs", [("dmr_id", 9), ("k", 5)]),
    Px("tpairs", [("k", 5)]),
    Px("str", [("a", 0), ("b", 0)]),
    Px("bytes", [("a", 0)]),
    Px("set", [("k", 0)]),
    Px("pairs", []),  # empty: save() returns before patching, Repeater.patch raises
    Px("str", []),
    Px("none"),
    Px("int", [("k", 1)]),
    Px("int"),
    Px("gen", [("k", 5)]),
]
MAPPING_PATCHES = [  # well formed: other mapping types behave as a dict
    Px("ordered", [("k", 5), ("dmr_id", 9)]),
    Px("dictsub", [("k", 6)]),
    Px("defaultdict", [("m", "v"), ("callsign", "OK1X")]),
    Px("proxy", [("k", 7), ("m", None)]),
    Px("userdict", [("serial", "S1"), ("k", 8)]),
    Px("chainmap", [("k", 9)]),
    Px("ordered", []),
    Px("proxy", []),
    Px("userdict", [("k", 5), (1, 2)]),  # ... and can carry a key that is no str as well
    Px("ordered", [(None, 1), ("k", 5)]),
    {Str("k"): 5, Str("callsign"): "OK1Y"},  # keys that are str subclass instances name the same member / attribute
    Px("failing", [("k", 5), ("dmr_id", 9)]),  # .items() raises RuntimeError after the last entry
    Px("failing", []),
]
BAD_PATCHES = BAD_KEY_PATCHES + NON_MAPPING_PATCHES
UNHASHABLE = [[1], {"a": 1}, ["k"], set()]
BAD_ADDRESSES = [None, 5, (), ("10.0.0.1",), [], "10.0.0.1", ("10.0.0.1", 50000, 0), b"\x0a\x00\x00\x01", (None, None), 1.5]


def bad_ops(addr_seen, addr_seen2, addr_unseen):
    """operations that raise (or may raise) on the unchanged code, of every kind; references 0 / 1 are the two records of
    the prefix"""
    out = []
    for p in BAD_PATCHES + MAPPING_PATCHES:
        out += [("mi", addr_seen, True, p), ("mi", addr_seen, False, p), ("mi", addr_unseen, True, p), ("mi", addr_unseen, False, p),
                ("save", 0, p), ("save", None, p), ("patch", 1, p)]
    for k in UNHASHABLE:
        out += [("attr", 0, k, "v"), ("attr", 0, k, None), ("del", 1, k), ("ma", k, 1), ("mu", k), ("mip", k), ("ma", "address_in", k)]
    out += [("attr", 0, 1, "v"), ("attr", 0, None, "v"), ("attr", 0, ("k", 1), 7), ("del", 0, "missing"), ("del", 0, 1), ("del", 1, None)]
    out += [("ma", 1, 5), ("ma", None, None), ("ma", b"id", 1), ("ma", "nope", 1), ("ma", "", 1), ("ma", "address_in", None)]
    out += [("mu", None), ("mu", 5), ("mu", "0"), ("mu", _uuid.UUID(int=99)), ("mip", None), ("mip", 5), ("mip", ("10.0.0.1",))]
    for a in BAD_ADDRESSES:
        out += [("mi", a, False, {}), ("mi", a, False, {"k": 1}), ("mi", a, True, {}), ("mi", a, True, {"k": 1}), ("mi", a, True, {1: 2})]
    return out


def random_bad_op(rng, ref, addrs):
    a = rng.choice(addrs)
    c = rng.randrange(12)
    if c < 5 or ref is None:
        return ("mi", a if c else rng.choice(BAD_ADDRESSES[:5] + [a]), rng.random() < 0.6, rng.choice(BAD_PATCHES + MAPPING_PATCHES))
    if c < 7:
        return ("save", rng.choice([ref, ref, None]), rng.choice(BAD_PATCHES + MAPPING_PATCHES))
    if c < 9:
        return ("patch", ref, rng.choice(BAD_PATCHES + MAPPING_PATCHES))
    if c == 9:
        return rng.choice([("attr", ref, rng.choice(UNHASHABLE), "v"), ("del", ref, rng.choice(UNHASHABLE + ["missing", 1])), ("attr", ref, 1, "v")])
    if c == 10:
        return rng.choice([("ma", 1, 5), ("ma", None, None), ("ma", "nope", 1), ("ma", rng.choice(UNHASHABLE), 1)])
    return rng.choice([("mu", None), ("mu", _uuid.UUID(int=99)), ("mu", rng.choice(UNHASHABLE)), ("mip", None), ("mip", 5)])


ERR_PREFIX = [("mi", A0, True, {"k": 1, "dmr_id": 7}), ("mi", A1, True, {"m": 2}), ("attr", 0, "p2p_is_registered", True)]
ERR_SUFFIX = [
    ("mi", A0, False, {}), ("mi", A1, False, {}), ("mu", _uuid.UUID(int=0)), ("mu", _uuid.UUID(int=1)), ("ma", "dmr_id", 7),
    ("attr", 0, "k", None), ("attr", 0, "p2p_is_registered", None), ("attr", 1, "m", None), ("mi", A0, True, {"z": 9}), ("mi", A2, True, {}),
    ("mi", A2, False, {"y": 1}), ("mi", A1, True, {}), ("mu", _uuid.UUID(int=0)),
]


def run_errors(ctx, pairs):
    """every kind of raising call (a) after a prefix with two records, (b) twice in a row, (c) as the FIRST call on a fresh
    storage - each followed by lookups of every earlier record by address, by id, by dmr_id, reads of its attributes, and
    further patches / creations.  The oracle re-checks all records after every operation."""
    rng = ctx.rng
    ops = bad_ops(A0, A1, A2)
    n = 0
    for i, bad in enumerate(ops):
        variants = [ERR_PREFIX + [bad] + ERR_SUFFIX, [bad] + ERR_PREFIX[:2] + ERR_SUFFIX[:6]]
        if i % 3 == ctx.seed % 3:
            other = ops[rng.randrange(len(ops))]
            variants.append(ERR_PREFIX + [bad, bad, other] + ERR_SUFFIX)
        for k, h in enumerate(variants):
            sut_ok = run_sequence(ctx, h, pairs, "ok", tag="errors")
            if not sut_ok:
                ctx.count("errors:inapplicable")  # the first call on an empty storage names record 0
                continue
            n += 1
            ctx.case(("errors", i, k), sample={"class": "errors", "raising call": op_json(bad), "history length": len(h)} if (i, k) == (7, 0) else None)
        ctx.count(f"errors:kind:{bad[0]}")
        if pairs is not None and len(pairs) > 200000:
            flush(ctx, "storage.errors", pairs)
    ctx.count("errors:systematic-histories", n)
    return n


# ------------------------------------------------------------------------------------------------
# argument provenance: the shapes in which a peer address reaches the storage


def shape_family(h, p):
    """[(name, address)] around one (host, port): what datagram_received / an application can hand over.  Which of them are
    the same peer is decided by Python's == alone (the unchanged code compares `address_in == address`)."""
    h2 = h[:-1] + ("2" if h[-1] != "2" else "3")
    fam = [
        ("tuple2", (h, p)),
        ("tuple4", (h, p, 0, 0)),  # AF_INET6: (host, port, flowinfo, scope_id)
        ("tuple4-scope", (h, p, 0, 3)),
        ("tuple4-flow", (h, p, 7, 0)),
        ("tuple4-flow-scope", (h, p, 7, 3)),
        ("tuple4-port", (h, p + 1, 0, 0)),
        ("tuple4-host", (h2, p, 0, 0)),
        ("list2", [h, p]),
        ("list4", [h, p, 0, 0]),
        ("list4-scope", [h, p, 0, 3]),
        ("namedtuple2", Addr2(h, p)),
        ("namedtuple4", Addr4(h, p, 0, 0)),
        ("namedtuple4-scope", Addr4(h, p, 0, 3)),
        ("str-subclass-host", (Str(h), p)),
        ("int-subclass-port", (h, Int(p))),
        ("str-subclass-host4", (Str(h), Int(p), 0, 3)),
        ("port-as-text", (h, str(p))),
        ("port-as-float", (h, float(p))),
        ("tuple1", (h,)),
        ("tuple3", (h, p, 0)),
        ("tuple5", (h, p, 0, 0, 0)),
        ("bytes-host", (h.encode(), p)),
        ("nested", ((h, p), 0)),
        ("bare-host", h),
        ("tuple2-other-port", (h, p + 1)),
        ("tuple2-other-host", (h2, p)),
    ]
    if p in (0, 1):
        fam.append(("port-as-bool", (h, bool(p))))
    return fam


SHAPE_BASES = [("fe80::1", 50000), ("10.0.0.1", 1), ("::1", 0)]


def shape_history(x, y):
    hx = host_of(x) or "nohost"
    return [
        ("mi", x, True, {"k": 1}),
        ("mi", y, True, {"m": 2}),
        ("mi", x, False, {}),
        ("mi", y, False, {"n": 3}),
        ("mi", x, True, {"dmr_id": 5}),
        ("ma", "address_in", y),
        ("mip", hx),
        ("mi", y, True, {}),
        ("mi", x, False, {}),
    ]


def run_shapes(ctx, pairs):
    """every ordered pair of address shapes around each base in one history (same peer iff ==), then all shapes of a base in
    one history, looked up again in reverse order"""
    n = 0
    for bi, (h, p) in enumerate(SHAPE_BASES):
        fam = shape_family(h, p)
        classes = []
        for _, a in fam:
            if not any(a == c for c in classes):
                classes.append(a)
        ctx.count(f"shapes:base{bi}:shapes", len(fam))
        ctx.count(f"shapes:base{bi}:distinct-peers", len(classes))
        for (nx, x), (ny, y) in itertools.product(fam, repeat=2):
            if bi and not (nx.startswith("tuple4") or ny.startswith("tuple4") or "port-as" in nx + ny):
                continue  # the other bases: the pairs involving a 4-tuple or a port spelling
            ok = run_sequence(ctx, shape_history(x, y), pairs, "ok", tag=f"shapes:{nx}/{ny}")
            assert ok
            n += 1
            ctx.case(("shapes", bi, nx, ny), sample={"class": "shapes", "first": jv(x), "second": jv(y), "same peer": bool(x == y)} if (bi, nx, ny) == (0, "tuple4", "tuple4-scope") else None)
            ctx.count("shapes:pair:same-peer" if x == y else "shapes:pair:different-peers")
        allh = [("mi", a, True, {"k": i}) for i, (_, a) in enumerate(fam)] + [("mi", a, False, {}) for _, a in reversed(fam)] + [("mi", a, True, {"m": i}) for i, (_, a) in enumerate(fam)]
        o = run_sequence(ctx, allh, pairs, "ok", tag="shapes:all")
        assert o
        if len(o.sut.storage) != len(classes) and not o.nfail:
            o.fail("creation-rule", f"{len(fam)} address shapes forming {len(classes)} classes of equal addresses", expected=len(classes), actual=len(o.sut.storage))
        ctx.case(("shapes:all", bi))
        if pairs is not None and len(pairs) > 200000:
            flush(ctx, "storage.shapes", pairs)
    ctx.count("shapes:pair-histories", n)


def shape_pool(rng):
    """a pool of addresses for random histories: a few shapes of one base, at least one pair of equal ones and one IPv6 pair
    differing in the scope id only"""
    h, p = rng.choice(SHAPE_BASES)
    fam = [a for _, a in shape_family(h, p)]
    pick = [(h, p, 0, 0), (h, p, 0, 3), rng.choice([Addr4(h, p, 0, 3), [h, p, 0, 3], (Str(h), Int(p), 0, 3)]), (h, p)] + rng.sample(fam, 4)
    return {"addrs": pick, "vals": DEFAULT_POOL["vals"], "dyn": DEFAULT_POOL["dyn"]}


def run_random(ctx, length, pairs, stream, pool=DEFAULT_POOL, tag="random", watch=(), objects=None, dump_every=25):
    """`pairs` None: oracle only (values outside the model's alphabet).  Every pool is extended by a few names / values /
    addresses harvested from the current source (`mix`).  `objects`: the caller's own objects among the values (a Pool)."""
    enough(ctx)
    pool = mix(ctx.rng, pool)
    sut = Sut()
    saved_pool = _POOL[0]
    _POOL[0] = objects
    try:
        history = []
        oracle = Oracle(ctx, sut, history, watch, tag if tag != "random" else None, objects) if stream == "ok" else None
        local = [("reset", "ok")]
        in_model = True
        n = 0
        while n < length:
            op = random_op(ctx.rng, sut, stream, pool)
            if stream == "ok" and violates_pre(sut, op):
                continue
            history.append(op)
            if oracle:
                oracle.before(op)
            line, out, raw = sut.apply(op)
            in_model = in_model and modelled(line)
            local.append((line, out))
            ctx.count(f"op:{op[0]}")
            if isinstance(raw, BaseException):
                ctx.count(f"outcome:{type(raw).__name__}")
            if oracle:
                oracle.after(op, raw)
            else:
                keys = [k for k, _ in sut.dict_items()]
                if len(set(keys)) != len(keys):
                    ctx.fail("duplicate-key", {"history": [op_json(o) for o in history], "stream": stream}, "dictionary holds one key twice")
            n += 1
            if n % dump_every == 0:
                local.append(("dump", sut.dump()))
        if oracle and watch:
            oracle.finish()
        local.append(("dump", sut.dump()))
        if pairs is not None and in_model:
            pairs.extend(local)
        elif pairs is not None:
            ctx.count("histories-outside-the-model(oracle-only)")
        ctx.case((tag, stream, tuple(map(str, history))), sample={"stream": stream, "class": tag, "length": length, "first_ops": [op_json(o) for o in history[:4]], "len": len(sut.storage)} if length > 20 and len(ctx.samples) < 12 else None)
    finally:
        _POOL[0] = saved_pool
        sut.close()


def run_wide(ctx, pairs):
    """one record with many attributes / one patch with many entries / long values / many successive patches"""
    nkeys = 300
    big = {f"attr{n:03d}": n for n in range(nkeys)}
    ops = [("mi", A0, True, {}), ("mi", A1, True, dict(big)), ("patch", 0, {f"attr{n:03d}": n * 2 for n in range(0, nkeys, 2)})]
    ops += [("attr", 0, f"attr{n:03d}", f"s{n}") for n in range(1, nkeys, 17)]
    ops += [("del", 1, f"attr{n:03d}") for n in range(0, nkeys, 13)]
    ops += [("save", 1, {"callsign": "C" * 5000, "serial": "S", "wide": 2**200})]
    ops += [("mi", A0, False, {f"w{n}": n for n in range(1100)})]  # one patch with more than a thousand entries
    for n in range(400):
        ops.append(("patch", n % 2, {"counter": n}))
    run_long(ctx, ops, pairs, ["attr000", "attr001", "attr013", "attr299", "counter", "wide", "w0", "w1023", "w1024", "w1099"], "wide")
    ctx.count("wide:operations", len(ops))
    ctx.case(("wide", nkeys))


# ------------------------------------------------------------------------------------------------
# scale: thousands of records.  The history is a pure function of (shape, n, salt), so that a failing input is the
# triple plus the number of operations to run.

SCALE_SHAPES = {
    # name: (address of record i, every how many records one is identified (dmr_id set; 0 = never))
    "ips": (lambda i: (f"10.{(i >> 16) & 255}.{(i >> 8) & 255}.{i & 255}", 50000), 50),
    "ports": (lambda i: ("10.9.9.9", 1024 + i), 0),
    "mixed": (lambda i: (f"172.16.{((i // 5) >> 8) & 255}.{(i // 5) & 255}", 40000 + i % 5), 3),
    "identified": (lambda i: (f"192.168.{(i >> 8) & 255}.{i & 255}", 30000 + i % 7), 1),
    # AF_INET6 peers: (host, port, flowinfo, scope_id); neighbours share host + port and differ in the scope id only
    "ips6": (lambda i: (f"fe80::{(i >> 2) >> 16:x}:{(i >> 2) & 0xFFFF:x}", 50000, 0, i & 3), 50),
}


def scale_ops(shape, n, salt):
    """yields the operations: n auto-creating lookups of pairwise distinct addresses, interleaved with every kind of
    lookup / patch of earlier records (the oldest, the middle, random ones, the newest), then re-lookups of the oldest
    64, the newest 8 and 64 random records"""
    addr, ident = SCALE_SHAPES[shape]
    rng = random.Random(f"scale:{shape}:{n}:{salt}")
    for i in range(n):
        if ident and i % ident == ident - 1:
            p = {"dmr_id": 100000 + i}
        elif i % 5 == 1:
            p = {"k": i}
        elif i % 11 == 2:
            p = {"callsign": f"C{i}", "rx_freq": 430000000 + i}
        else:
            p = {}
        yield ("mi", addr(i), True, p)
        if i % 13 == 5 or ((i + 1) & i) == 0 or (i + 1) % 1000 == 0:
            for j in dict.fromkeys([0, min(i, rng.choice([1, 2, i // 2, i, max(i - 1, 0)])), rng.randrange(i + 1)]):
                c = rng.randrange(9)
                if c == 0:
                    yield ("mi", addr(j), True, {"m": i})
                elif c == 1:
                    yield ("mu", _uuid.UUID(int=j))
                elif c == 2:
                    yield ("ma", "address_in", addr(j))
                elif c == 3:
                    yield ("mip", addr(j)[0])
                elif c == 4:
                    yield ("attr", j, "k", None)
                elif c == 5:
                    yield ("attr", j, "n", i)
                elif c == 6:
                    yield ("mi", (addr(j)[0], 7), False, {})  # a port nobody uses: unseen, no auto-create
                else:
                    yield ("mi", addr(j), False, {})
    probe = list(range(min(64, n))) + list(range(max(n - 8, 0), n)) + [rng.randrange(n) for _ in range(64)]
    for j in dict.fromkeys(probe):
        yield ("mi", addr(j), rng.random() < 0.3, {})
        if j % 3 == 0:
            yield ("mu", _uuid.UUID(int=j))
        if j % 16 == 0:
            yield ("ma", "dmr_id", 100000 + j)


class ScaleOracle:
    """the property on a long history at O(1) per operation (a mirror of what the operations imply), with a full
    comparison of every record at powers of two (+-1), every 500 operations and at the end"""

    def __init__(self, sut):
        self.sut = sut
        self.fields = []  # per record
        self.attrs = []
        self.by_addr = {}
        self.first_ip = {}
        self.by_dmr = {}
        self.t = 0
        self.failure = None

    def fail(self, kind, what, expected=None, actual=None):
        if self.failure is None:
            self.failure = (kind, what, expected, actual)

    def show(self, raw):
        return impl_error(raw) if isinstance(raw, BaseException) else self.sut.res(raw)

    def expect_obj(self, op, raw, j):
        sut = self.sut
        if j is None:
            if raw is not None:
                self.fail("wrong-record", f"operation {self.t} {op[0]}: nothing stored matches, but something was returned", expected="None", actual=self.show(raw))
            return
        if isinstance(raw, BaseException) or raw is not sut.created[j]:
            kind = "identity-changed" if op[0] == "mi" else "wrong-record"
            self.fail(kind, f"operation {self.t} {op[0]}: record #{j} (created by the {j + 1}. auto-creating lookup, address {self.fields[j]['address_in']}) is not what is returned with {len(self.fields)} records created", expected=f"obj{j}", actual=self.show(raw))
        elif raw.id != _uuid.UUID(int=j):
            self.fail("identity-changed", f"operation {self.t}: id of record #{j} changed", expected=f"u{j}", actual=cval(raw.id))

    def check_record(self, j):
        got = self.sut.snapshot_one(j)
        if got != (self.fields[j], self.attrs[j]):
            self.fail("patch-not-local", f"operation {self.t}: record #{j} differs from what the operations on it imply", expected=str((self.fields[j], self.attrs[j]))[:300], actual=str(got)[:300])

    def full(self):
        sut = self.sut
        all1 = sut.storage.all()
        n = len(self.fields)
        if len(all1) != n or any(a is not b for a, b in zip(all1, sut.created)):
            gone = [i for i, o in enumerate(sut.created[:n]) if i >= len(all1) or all1[i] is not o][:5]
            self.fail("record-lost", f"operation {self.t}: all() is not the {n} records created so far, in creation order (first differences at records {gone})", expected=n, actual=len(all1))
            return
        ids = {o.id for o in all1}
        if len(ids) != n:
            self.fail("duplicate-id", f"operation {self.t}: two stored records have the same id")
        for j in range(n):
            self.check_record(j)
            if self.failure:
                return

    def step(self, op, raw):
        sut = self.sut
        n0 = len(self.fields)
        raised = isinstance(raw, BaseException)
        target = None
        if op[0] == "mi":
            j = self.by_addr.get(op[1])
            if j is None and op[2]:
                j = n0
                if raised or sut.index(raw) != n0 or len(sut.created) != n0 + 1:
                    self.fail("creation-rule", f"operation {self.t}: auto-creating lookup of the unseen address {op[1]} did not return a new record ({n0} records so far)", expected=f"obj{n0}", actual=self.show(raw))
                    return
                self.fields.append(fresh_fields(n0, op[1]))
                self.attrs.append({})
                self.by_addr[op[1]] = n0
                self.first_ip.setdefault(op[1][0], n0)
            self.expect_obj(op, raw, j)
            target = j
            if j is not None and not self.failure:
                self.fields[j], self.attrs[j] = expected_after_patch(self.fields[j], self.attrs[j], op[3])
                if "dmr_id" in op[3]:
                    self.by_dmr.setdefault(op[3]["dmr_id"], j)
        elif op[0] == "mu":
            self.expect_obj(op, raw, op[1].int if op[1].int < n0 else None)
        elif op[0] == "ma":
            j = self.by_addr.get(op[2]) if op[1] == "address_in" else self.by_dmr.get(op[2])
            self.expect_obj(op, raw, j)
        elif op[0] == "mip":
            self.expect_obj(op, raw, self.first_ip.get(op[1]))
        elif op[0] == "attr":
            target = op[1]
            want = op[3] if op[3] is not None else self.attrs[target].get(op[2])
            if raised or not same(raw, want):
                self.fail("attribute-readback", f"operation {self.t}: attr({op[2]!r}) of record #{target}", expected=repr(want), actual=self.show(raw))
            if op[3] is not None:
                self.attrs[target][op[2]] = op[3]
        if self.failure:
            return
        n1 = len(self.fields)
        if len(sut.storage) != n1:
            if len(sut.storage) < n1:
                self.full()  # says which records left the storage
            kind = "creation-rule" if n1 != n0 else "lookup-grew-storage" if len(sut.storage) > n1 else "record-lost"
            self.fail(kind, f"operation {self.t} {op[0]}: len(storage) with {n1} records created by auto-creating lookups of pairwise distinct addresses", expected=n1, actual=len(sut.storage))
            return
        if len(sut.created) != n1:
            self.fail("creation-rule", f"operation {self.t} {op[0]}: an object unknown so far was returned", expected=n1, actual=len(sut.created))
            return
        if target is not None:
            self.check_record(target)
        if n1 != n0 and (((n1 + 1) & n1) == 0 or (n1 & (n1 - 1)) == 0 or ((n1 - 1) & (n1 - 2)) == 0 or n1 % 500 in (0, 1)):
            self.full()
        self.t += 1


def run_scale(ctx, shape, n, salt, pairs, with_model, upto=None, verbose=None, clock=False):
    """returns the failure (kind, what, expected, actual) or None"""
    sut = Sut()
    try:
        oracle = ScaleOracle(sut)
        local = [("reset", "ok")]
        for t, op in enumerate(scale_ops(shape, n, salt)):
            if upto is not None and t > upto:
                break
            line, out, raw = sut.apply(op, pre_flag=False)
            if with_model:
                local.append((line, out))
            if verbose is not None:
                verbose.append((line, out))
            oracle.step(op, raw)
            if oracle.failure:
                break
        if not oracle.failure:
            oracle.full()
        if ctx is not None:
            ctx.count(f"scale:{shape}:records", len(oracle.fields))
            ctx.count(f"scale:{shape}:operations", oracle.t)
            ctx.hist["scale:records-max"] = max(len(oracle.fields), ctx.hist.get("scale:records-max", 0))
            ctx.case(("scale", shape, n, salt), sample={"class": "scale", "shape": shape, "records": len(oracle.fields), "operations": oracle.t, "model": bool(with_model)})
            if oracle.failure:
                kind, what, expected, actual = oracle.failure
                ctx.count(f"oracle-failure:{kind}")
                ctx.fail(kind, {"stream": "scale", "shape": shape, "n": n, "salt": salt, "upto": oracle.t, "clock": clock}, what, expected=expected, actual=actual)
            elif with_model:
                local.append(("dump", sut.dump()))
                pairs.extend(local)
        return oracle.failure
    finally:
        sut.close()


def run_unreferenced(ctx, n):
    """the caller keeps NO reference to the records (only addresses, ids and what it stored), the garbage collector
    runs, then every record is looked up again: the storage itself has to keep them"""
    import gc

    from okdmr.dmrlib.storage.repeater_storage import RepeaterStorage

    st = RepeaterStorage()
    want = {}
    for i in range(n):
        a = (f"10.7.{i >> 8}.{i & 255}", 40000 + i % 3)
        r = st.match_incoming(a, True, {"k": i} if i % 2 else {})
        if i % 3 == 0:
            r.attr("n", f"v{i}")
        want[a] = (r.id, i if i % 2 else None, f"v{i}" if i % 3 == 0 else None)
        del r
    gc.collect()
    inp = {"stream": "unreferenced", "n": n}
    if len(st) != n:
        ctx.count("oracle-failure:record-lost")
        ctx.fail("record-lost", inp, f"len(storage) after {n} auto-creating lookups of distinct addresses whose results the caller dropped, and a garbage collection", expected=n, actual=len(st))
        return
    for a, (rid, k, v) in want.items():
        r = st.match_incoming(fresh(a), False)
        got = None if r is None else (r.id, r.attr("k"), r.attr("n"))
        if got != (rid, k, v):
            ctx.count("oracle-failure:identity-changed")
            ctx.fail("identity-changed", inp, f"record of {a}: id / attributes after the caller dropped its reference and the garbage collector ran", expected=str((rid, k, v)), actual=str(got))
            return
    ctx.count("unreferenced:records", n)
    ctx.case(("unreferenced", n))


class FastClock:
    """every reading of the clock is a day later than the previous one (time.time, monotonic, perf_counter and their _ns
    forms; in this process, for the duration of one stream): ageing out a record is a way of losing it"""

    NAMES = ["time", "monotonic", "perf_counter", "time_ns", "monotonic_ns", "perf_counter_ns"]

    def __enter__(self):
        import time

        self.time = time
        self.saved = {n: getattr(time, n) for n in self.NAMES}
        self.now = time.time()

        def tick():
            self.now += 86400.0
            return self.now

        for n in self.NAMES:
            setattr(time, n, (lambda: int(tick() * 1e9)) if n.endswith("_ns") else tick)
        return self

    def __exit__(self, *a):
        for n, f in self.saved.items():
            setattr(self.time, n, f)


class RaisingWriter:
    """a sys.stdout whose every write fails (a closed pipe)"""

    def write(self, *_):
        raise OSError("stdout is gone")

    def flush(self):
        raise OSError("stdout is gone")


def ambient_histories(rng):
    hs = [list(h) for h in CORPUS]
    bad = bad_ops(A0, A1, A2)
    hs += [ERR_PREFIX + [b] + ERR_SUFFIX for b in rng.sample(bad, 40)]
    fam = shape_family(*SHAPE_BASES[0])
    hs += [shape_history(x, y) for (_, x), (_, y) in rng.sample(list(itertools.product(fam, repeat=2)), 40)]
    return hs


def run_ambient(ctx, pairs):
    """the same small sample under ambient interpreter state: root logger at DEBUG (records collected, nothing printed), a
    sys.stdout that raises on every write, the global `random` reseeded before every operation"""
    import logging
    import sys

    hs = ambient_histories(ctx.rng)
    root = logging.getLogger()
    saved_level, saved_disable, saved_stdout, saved_hook = root.level, root.manager.disable, sys.stdout, Sut.hook
    records = []

    class Collect(logging.Handler):
        def emit(self, record):
            records.append(record.getMessage())

    handler = Collect(level=logging.DEBUG)
    n = 0
    try:
        root.addHandler(handler)
        root.setLevel(logging.DEBUG)
        logging.disable(logging.NOTSET)
        sys.stdout = RaisingWriter()
        Sut.hook = lambda: random.seed(12345)
        for h in hs:
            if run_sequence(ctx, h, pairs, "ok", tag="ambient"):
                n += 1
                ctx.case(("ambient", n))
    finally:
        sys.stdout = saved_stdout
        Sut.hook = saved_hook
        root.removeHandler(handler)
        root.setLevel(saved_level)
        logging.disable(saved_disable)
    ctx.count("ambient:histories(logger DEBUG, stdout raising, random reseeded)", n)
    ctx.count("ambient:log-records-collected", len(records))


class MiniCtx(Sink):
    """what the streams need of a run context, for the child process"""

    def __init__(self, seed):
        super().__init__()
        self.seed = seed
        self.rng = random.Random(f"C20:child:{seed}")
        self.search_only = True
        self.driver_ok = False
        self.samples = []


def child_main(seed):
    """entry point of the `python -O` child: the ambient sample + the systematic error histories, oracle only; prints one
    JSON line"""
    import logging

    logging.disable(logging.CRITICAL)
    c = MiniCtx(seed)
    n = 0
    for h in ambient_histories(c.rng):
        n += bool(run_sequence(c, h, None, "ok", tag="python -O"))
    n += run_errors(c, None)
    print(json.dumps({"histories": n, "optimize": __import__("sys").flags.optimize, "failures": c.failures[:5]}, default=str))


def run_child_optimized(ctx):
    """one child process `python -O` (assert statements stripped, __debug__ False)"""
    import os
    import subprocess
    import sys

    here = os.path.dirname(os.path.dirname(os.path.abspath(__file__)))
    code = f"import sys; sys.path.insert(0, {here!r}); import props.c20 as m; m.child_main({ctx.seed})"
    try:
        r = subprocess.run([sys.executable, "-O", "-c", code], capture_output=True, text=True, timeout=300)
        out = json.loads(r.stdout.strip().splitlines()[-1])
    except Exception as e:  # noqa: infrastructure, not a verdict
        ctx.notes.append(f"python -O child did not run: {type(e).__name__}")
        ctx.count("ambient:python-O-child-unavailable")
        return
    ctx.count("ambient:python-O-histories", out["histories"])
    if out.get("optimize") != 1:
        ctx.count("ambient:python-O-child-not-optimized")
    for f in out["failures"]:
        ctx.count(f"oracle-failure:{f['kind']}")
        inp = dict(f["input"], python_O=True)
        ctx.fail(f["kind"], inp, "under python -O: " + str(f["what"]), expected=f["expected"], actual=f["actual"])
    ctx.case(("python -O", out["histories"]))


# ------------------------------------------------------------------------------------------------
# containers: attribute values with identity.  The caller owns a dict (per-timeslot settings, site-wide defaults), a list,
# a set, a bytearray ...; hands the SAME object to several records (through every write path, or inside one defaults
# mapping it passes for every new peer) and keeps it; then patches the key again on ONE record with another container of the
# same type.  The property's reading: that record holds exactly the new value, every other record and every object of the
# caller is what it was (the oracle compares deep snapshots taken BEFORE each call with the state after it).

_MAP_VARIANTS = {
    "base": [("ts1", 9), ("ts2", 91)],
    "disjoint": [("ts3", 23), ("ts4", 5)],
    "overlap": [("ts2", 17), ("ts3", 23)],
    "empty": [],
    "equal": [("ts1", 9), ("ts2", 91)],
    "superset": [("ts1", 10), ("ts2", 92), ("ts3", 23)],
    "subset": [("ts1", 10)],
}
_SEQ_VARIANTS = {"base": [9, 91], "disjoint": [23, 5], "overlap": [91, 23], "empty": [], "equal": [9, 91], "superset": [9, 91, 23], "subset": [9]}

CONTAINER_KINDS = {
    # name: variant -> JSON form of a new container (see jv / uj)
    "dict": lambda n: {"patch": [[k, v] for k, v in _MAP_VARIANTS[n]]},
    "list": lambda n: {"list": list(_SEQ_VARIANTS[n])},
    "set": lambda n: {"set": sorted(_SEQ_VARIANTS[n])},
    "bytearray": lambda n: {"bytearray": bytes(_SEQ_VARIANTS[n]).hex()},
    "ordereddict": lambda n: {"odict": [[k, v] for k, v in _MAP_VARIANTS[n]]},
    "defaultdict": lambda n: {"ddict": [[k, v] for k, v in _MAP_VARIANTS[n]]},
    "counter": lambda n: {"counter": [[k, v] for k, v in _MAP_VARIANTS[n]]},
    "deque": lambda n: {"deque": list(_SEQ_VARIANTS[n])},
    "dict-of-lists": lambda n: {"patch": [[k, {"list": [v, v + 1]}] for k, v in _MAP_VARIANTS[n]]},
    "list-of-dicts": lambda n: {"list": [{"patch": [["slot", v]]} for v in _SEQ_VARIANTS[n]]},
    "int-keyed-dict": lambda n: {"patch": [[v, k] for k, v in _MAP_VARIANTS[n]]},
    "userdict": lambda n: {"userdict": [[k, v] for k, v in _MAP_VARIANTS[n]]},  # a Mapping that is no dict
    "namespace": lambda n: {"namespace": [[k, v] for k, v in _MAP_VARIANTS[n]]},  # a settings object (vars() is its content)
    "tuple-of-list": lambda n: {"tuple": ["slots", {"list": list(_SEQ_VARIANTS[n])}]},  # immutable outside, mutable inside
}
CONTAINER_VARIANTS = ["disjoint", "overlap", "empty", "equal", "superset", "subset"]
WRITE_PATHS = ("mi", "save", "patch", "attr")


def container_history(key, w1, w2, held):
    """JSON operations over the caller's objects 0 (the shared container D), 1 and 2 (other containers of the same type),
    3 (the caller's defaults mapping {key: D}, handed over as the patch itself for every new peer if `held`)"""
    D, E, E2 = {"ref": 0}, {"ref": 1}, {"ref": 2}
    defaults = {"ref": 3} if held else {"patch": [[key, D]]}
    addr = [jv(a) for a in (A0, A1, A2, A3)]
    dynamic = key not in FIELDS

    def write(w, t, v):
        w = WRITE_PATHS[w % 4]
        if w == "attr" and not dynamic:
            w = "patch"
        if w == "mi":
            return ["mi", addr[t], False, {"patch": [[key, v]]}]
        if w == "attr":
            return ["attr", t, key, v]
        return [w, t, {"patch": [[key, v]]}]

    h = [
        ["mi", addr[0], True, defaults],  # every new peer gets the site-wide defaults
        ["mi", addr[1], True, defaults],
        ["mi", addr[2], True, {"patch": []}],
        write(w1, 2, D),  # ... the third one through another write path
        write(w2, 0, E),  # one peer is re-configured: another container of the same type
        ["mi", addr[1], False, {"patch": []}],
        write(w2 + 1, 1, E2),
        ["mi", addr[3], True, defaults],  # a later peer: the defaults are still what the caller made them
        write(w1, 0, D),  # D again over E
        write(w2, 2, D),  # the same object over itself
        write(w2, 0, E),
        write(w2 + 2, 0, E2),  # E2 over E on a record that was re-configured before
    ]
    if dynamic:
        h += [["del", 1, key], write(w2, 1, E), ["mi", addr[0], False, {"patch": [[key, None]]}]]
    h += [["mi", addr[2], False, {"patch": []}], ["mu", jv(_uuid.UUID(int=1))]]
    return h


def capped(ctx, stream):
    """the stream has given as many failing inputs as are kept per stream: its remaining histories are skipped"""
    return ctx.hist.get(f"oracle-failures-recorded:{stream}", 0) >= 30


def soft(ctx, ok):
    """a systematic history of the round-4 streams could not be run to its end (on the unchanged tree: never; with a change that
    keeps records from being created the oracle has recorded that already): counted, not an infrastructure error"""
    if not ok:
        ctx.count("round4:history-inapplicable")


def run_containers(ctx, pairs):
    rng = ctx.rng
    kinds = list(CONTAINER_KINDS)
    n = 0
    plan = []
    # names: a dynamic attribute, a data member; for dicts also names harvested from the current source (all names of changed
    # functions, two of the storage modules' own per run)
    hkeys = _H[0].keys() if _H[0] is not None else []
    extra = [k for k, r in hkeys if r == HOT][:8]
    near = [k for k, r in hkeys if r == NEAR]
    extra += [near[(ctx.seed * 2 + j) % len(near)] for j in range(2 if near else 0)]
    for ki, kind in enumerate(kinds):
        for key in ("talkgroups", "callsign") + (tuple(dict.fromkeys(extra)) if kind == "dict" else ()):
            for vi, var in enumerate(CONTAINER_VARIANTS):
                combos = [(w1, w2) for w1 in range(4) for w2 in range(4)]
                if not (ctx.thorough() or (kind == "dict" and (key == "talkgroups" or ctx.boost > 1))):
                    r = (ki * 7 + vi * 3 + ctx.seed + (key == "callsign")) % 16
                    combos = [combos[(r + 5 * j) % 16] for j in range(2 if ctx.boost == 1 else 4)]
                for w1, w2 in combos:
                    plan.append((kind, key, var, CONTAINER_VARIANTS[(vi + 1 + (w1 + w2) % 4) % len(CONTAINER_VARIANTS)], w1, w2))
    for i, (kind, key, var, var2, w1, w2) in enumerate(plan):
        if capped(ctx, "containers"):
            break
        mk = CONTAINER_KINDS[kind]
        specs = [mk("base"), mk(var), mk(var2), {"held": [[key, {"ref": 0}], ["rx_freq", 430000000 + i]]}]
        pool = Pool(specs)
        hist = container_history(key, w1, w2, held=bool((i + ctx.seed) % 2))
        ops = [op_unjson(o, pool.objs) for o in hist]
        ok = run_sequence(ctx, ops, pairs, "ok", dump_every=1, watch=[key] if key not in FIELDS else (), tag=f"containers:{kind}", pool=pool)
        soft(ctx, ok)
        n += 1
        ctx.count(f"containers:kind:{kind}")
        ctx.case(("containers", kind, key, var, var2, w1, w2), sample={"class": "containers", "kind": kind, "key": key, "objects": specs, "history": hist[:6]} if i == 0 else None)
        if pairs is not None and len(pairs) > 200000:
            flush(ctx, "storage.containers", pairs)
    ctx.count("containers:systematic-histories", n)
    # random histories whose values are the caller's own containers (one or two kinds), scalars and None
    m = min(ctx.budget(60, 1500), 240 if not ctx.thorough() else 4000)
    for i in range(m):
        if capped(ctx, "containers"):
            break
        ks = rng.sample(kinds, rng.choice([1, 1, 2]))
        specs = [CONTAINER_KINDS[k](v) for k in ks for v in ["base"] + rng.sample(CONTAINER_VARIANTS, 3)]
        specs.append({"held": [["k", {"ref": 0}], ["m", {"ref": 1}]]})
        pool = Pool(specs)
        vals = pool.objs[:-1]
        p = {"addrs": DEFAULT_POOL["addrs"][:3], "vals": vals + vals + [None, 0, "x"], "dyn": ["k", "m"], "nomix": True, "held": pool.objs[-1]}
        run_random(ctx, rng.choice([6, 12, 30]), pairs, "ok", p, tag="containers:random", watch=["k", "m"], objects=pool, dump_every=1)
        if pairs is not None and len(pairs) > 200000:
            flush(ctx, "storage.containers", pairs)
    ctx.count("containers:random-histories", m)


# ------------------------------------------------------------------------------------------------
# literals of the CURRENT source.  The check rebuilds everything from /repo's tree; so may the generators: every string,
# number and tuple literal and every attribute / keyword name of the storage modules and of the modules that use the storage
# (the protocol handlers) is read with `ast` on this run and used as a name of a dynamic attribute (with truthy / falsy values
# of several types), as a value, as host / port of a peer address, as a size.  A name or value the code treats specially
# ("disabled", "reset", a magic port) is thereby part of every run; on the unchanged tree these are names and values like
# any other (the model treats keys and values uniformly).  Literals of functions that differ from the committed baseline
# (ctx.drift) are "hot": they get the complete cross product and an exhaustive pool.

LIT_TRUTHY = [True, 1, "x", "1", "false", ("", 0), 2**70, 1.5, [0], {"a": 1}, b"x", -1]
LIT_FALSY = [False, 0, "", 0.0, [], {}, b"", ()]
HOT, NEAR, FAR = 0, 1, 2


class Harvest:
    def __init__(self, ctx):
        self.strings, self.numbers, self.tuples, self.names, self.bytes = {}, {}, {}, {}, {}
        self.files = []
        self.taken = set()
        try:
            self._read(ctx)
        except Exception as e:  # noqa: infrastructure - the streams run without the literals
            ctx.count("literals:harvest-unavailable")
            ctx.notes.append(f"literal harvest failed: {type(e).__name__}: {e}")
        for what, d in (("strings", self.strings), ("numbers", self.numbers), ("tuples", self.tuples), ("names", self.names)):
            for rank, label in ((HOT, "changed-functions"), (NEAR, "storage-modules"), (FAR, "handler-modules")):
                n = sum(1 for r in d.values() if r == rank)
                if n:
                    ctx.count(f"literals:harvested:{what}:{label}", n)

    def _add(self, d, v, rank):
        try:
            if d.get(v, 9) > rank:
                d[v] = rank
        except TypeError:
            pass

    def _read(self, ctx):
        import okdmr.dmrlib.storage.repeater as rmod

        self.taken = set(dir(rmod.Repeater())) - set(FIELDS)
        near_dir = os.path.dirname(os.path.abspath(rmod.__file__))
        pkg_dir = os.path.dirname(near_dir)
        repo = os.path.dirname(os.path.dirname(pkg_dir))
        drift = {d.replace(" (removed)", "") for d in (getattr(ctx, "drift", None) or [])}
        for d, ds, fs in os.walk(pkg_dir):
            ds[:] = sorted(x for x in ds if x not in ("tests", "__pycache__"))
            for f in sorted(fs):
                if not f.endswith(".py"):
                    continue
                path = os.path.join(d, f)
                near = os.path.abspath(d) == near_dir
                try:
                    src = open(path, encoding="utf-8").read()
                except OSError:
                    continue
                if not (near or "storage" in src or ".attr(" in src):
                    continue
                rel = os.path.relpath(path, repo)
                whole = f"{rel}::<new file>" in drift or f"{rel}::<unparsable>" in drift
                try:
                    tree = ast.parse(src)
                except SyntaxError:
                    continue
                self.files.append(rel)
                self._walk(tree, "", rel, drift, NEAR if near else FAR, whole)
        # constants the storage modules IMPORT from elsewhere (their literal is in another file): the live module / class values
        for name in ("okdmr.dmrlib.storage", "okdmr.dmrlib.storage.repeater", "okdmr.dmrlib.storage.repeater_storage"):
            try:
                mod = importlib.import_module(name)
            except Exception:  # noqa
                continue
            spaces = [vars(mod)] + [vars(c) for c in vars(mod).values() if isinstance(c, type) and getattr(c, "__module__", "") == name]
            for ns in spaces:
                for n, v in list(ns.items()):
                    if n.startswith("__"):
                        continue
                    if type(v) is str and len(v) <= 300:
                        self._add(self.strings, v, NEAR)
                    elif type(v) in (int, float):
                        self._add(self.numbers, v, NEAR)
                    elif type(v) is bytes:
                        self._add(self.bytes, v, NEAR)
                    elif type(v) in (tuple, frozenset, list, set) and len(v) <= 64:
                        if type(v) is tuple:
                            self._add(self.tuples, v, NEAR)
                        for x in v:
                            if type(x) is str and len(x) <= 300:
                                self._add(self.strings, x, NEAR)
                            elif type(x) in (int, float):
                                self._add(self.numbers, x, NEAR)

    def _walk(self, node, prefix, rel, drift, base, whole):
        for ch in getattr(node, "body", []):
            if isinstance(ch, ast.Expr) and isinstance(ch.value, ast.Constant) and isinstance(ch.value.value, str):
                continue  # a docstring / a bare string statement is no literal of the code
            if isinstance(ch, (ast.FunctionDef, ast.AsyncFunctionDef)):
                q = prefix + ch.name
            elif isinstance(ch, ast.ClassDef):
                self._walk(ch, prefix + ch.name + ".", rel, drift, base, whole)
                continue
            else:
                q = prefix + "<body>"
            self._collect(ch, HOT if whole or f"{rel}::{q}" in drift else base)

    def _collect(self, top, rank):
        for n in ast.walk(top):
            body = getattr(n, "body", None)
            if isinstance(body, list) and body and isinstance(body[0], ast.Expr) and isinstance(getattr(body[0], "value", None), ast.Constant) and isinstance(body[0].value.value, str):
                body[0].value.value = None  # a docstring is no literal of the code
            if isinstance(n, ast.Constant):
                v = n.value
                if isinstance(v, str):
                    if len(v) <= 300:
                        self._add(self.strings, v, rank)
                        if rank != FAR:
                            for w in re.findall(r"[A-Za-z_][A-Za-z0-9_]*", v)[:8]:
                                self._add(self.names, w, rank)
                elif isinstance(v, bytes):
                    self._add(self.bytes, v, rank)
                elif isinstance(v, (int, float)) and not isinstance(v, bool):
                    self._add(self.numbers, v, rank)
            elif isinstance(n, ast.UnaryOp) and isinstance(n.op, ast.USub) and isinstance(n.operand, ast.Constant) and type(n.operand.value) in (int, float):
                self._add(self.numbers, -n.operand.value, rank)
            elif isinstance(n, ast.Attribute):
                self._add(self.names, n.attr, rank)
            elif isinstance(n, ast.keyword) and n.arg:
                self._add(self.names, n.arg, rank)
            elif isinstance(n, (ast.Name, ast.arg)) and rank == HOT:
                self._add(self.names, n.id if isinstance(n, ast.Name) else n.arg, NEAR)  # variable names of changed functions
            elif isinstance(n, ast.Tuple):
                try:
                    v = ast.literal_eval(n)
                    hash(v)
                except Exception:  # noqa
                    continue
                self._add(self.tuples, v, rank)

    # ---- what the streams take
    def keys(self):
        """[(name of a dynamic attribute, rank)]: string literals and identifier names that are no member of Repeater (A1)"""
        out = {}
        for d in (self.strings, self.names):
            for k, r in d.items():
                if len(k) <= 80 and k not in self.taken and k not in FIELDS and out.get(k, 9) > r:
                    out[k] = r
        return sorted(out.items(), key=lambda kr: (kr[1], kr[0]))

    def values(self):
        out = {}
        for d in (self.strings, self.numbers, self.tuples, self.bytes):
            for v, r in d.items():
                k = (type(v).__name__, v)
                if out.get(k, (None, 9))[1] > r:
                    out[k] = (v, r)
        return sorted(out.values(), key=lambda vr: (vr[1], repr(vr[0])))

    def addresses(self):
        out = []
        for v, r in self.values():
            if type(v) is str and len(v) <= 80:
                out.append(((v, 50000), r))
            elif type(v) is int and v >= 0:
                out.append((("10.0.0.1", v), r))
            elif type(v) is tuple:
                out.append((v, r))
        return out

    def pick(self, rng, what, n):
        cache = self.__dict__.setdefault("_pick", {})
        if what not in cache:
            if what == "keys":
                items = self.keys()
            elif what == "vals":
                items = [(v, r) for v, r in self.values() if in_alphabet(v)]
            else:
                items = [(a, r) for a, r in self.addresses() if in_alphabet(a)]
            cache[what] = ([x for x, r in items if r == HOT], [x for x, r in items if r != HOT])
        hot, rest = cache[what]
        out = []
        if hot:
            out.append(rng.choice(hot))
        while len(out) < n and rest:
            out.append(rng.choice(rest))
        return out


_H = [None]  # the harvest of this run


def mix(rng, pool):
    """the pool of a random history + a few harvested names / values / addresses"""
    h = _H[0]
    if h is None or pool.get("nomix"):
        return pool
    return dict(pool, dyn=list(pool["dyn"]) + h.pick(rng, "keys", 2), vals=list(pool["vals"]) + h.pick(rng, "vals", 2), addrs=list(pool["addrs"]) + h.pick(rng, "addrs", 1))


def literal_key_history(K, v, w, t, v2):
    """three peers; record `t` gets the dynamic attribute K = v through write path w; then it is looked up by address (with /
    without auto-create), by id, by dmr_id, by host, patched through the storage (K = v2: re-enabled / disabled), K is deleted,
    and a fourth peer arrives with K in its first patch"""
    addr = [A0, A1, A2]
    write = [("mi", addr[t], False, {K: v}), ("save", t, {K: v}), ("patch", t, {K: v}), ("attr", t, K, v)][w % 4]
    return [
        ("mi", A0, True, {"dmr_id": 1001}),
        ("mi", A1, True, {"dmr_id": 1002, "callsign": "OK1B"}),
        ("mi", A2, True, {"dmr_id": 1003}),
        write,
        ("mi", addr[t], False, {}),
        ("mi", addr[t], True, {}),
        ("mu", _uuid.UUID(int=t)),
        ("ma", "dmr_id", 1001 + t),
        ("mip", addr[t][0]),
        ("ma", "address_in", addr[t]),
        ("mi", addr[(t + 1) % 3], False, {}),
        ("mi", addr[t], True, {K: v2}),
        ("save", t, {"callsign": "X"}),
        ("mi", addr[t], False, {"m": 1}),
        ("del", t, K),
        ("mi", addr[t], True, {}),
        ("mu", _uuid.UUID(int=t)),
        ("mi", A3, True, {K: v, "dmr_id": 1004}),
        ("mi", A3, False, {}),
        ("mi", A3, True, {K: v2}),
        ("mu", _uuid.UUID(int=3)),
    ]


def literal_value_history(L):
    """the literal as the value of dynamic attributes and of data members, then lookups by these members"""
    return [
        ("mi", A0, True, {"k": L, "callsign": L}),
        ("mi", A1, True, {"dmr_id": L}),
        ("attr", 0, "m", L),
        ("mi", A0, False, {}),
        ("ma", "dmr_id", L),
        ("ma", "callsign", L),
        ("mi", A1, False, {"serial": L, "k": L}),
        ("patch", 0, {"address_out": L, "nat_enabled": L, "snmp_enabled": L}),
        ("mu", _uuid.UUID(int=1)),
        ("mi", A0, True, {"k": "other"}),
        ("mi", A1, True, {}),
        ("attr", 0, "m", None),
        ("del", 0, "m"),
        ("mi", A2, True, {"address_nat": L}),
        ("ma", "address_nat", L),
    ]


def literal_address_history(a):
    """the literal as (part of) a peer address"""
    return [
        ("mi", a, True, {"k": 1}),
        ("mi", A0, True, {}),
        ("mi", a, False, {}),
        ("mi", a, True, {"m": 2}),
        ("ma", "address_in", a),
        ("mip", host_of(a)),
        ("mi", A0, False, {}),
        ("patch", 1 if a != A0 else 0, {"address_out": a, "address_nat": a}),
        ("mi", a, False, {"dmr_id": 5}),
        ("mu", _uuid.UUID(int=0)),
        ("mi", A1, True, {"address_out": a}),
        ("mi", a, True, {}),
    ]


def literal_size_history(n):
    """the number as a size: patches of n - 1 / n / n + 1 entries, names and values of n / n + 1 characters"""
    return [
        ("mi", A0, True, {}),
        ("mi", A1, True, {f"e{j}": j for j in range(n)}),
        ("patch", 0, {f"e{j}": j for j in range(n + 1)}),
        ("save", 1, {f"f{j}": j for j in range(max(n - 1, 0))}),
        ("attr", 0, "k" * n, 1),
        ("attr", 0, "k" * (n + 1), 2),
        ("attr", 1, "v", "x" * n),
        ("patch", 1, {"callsign": "c" * n, "serial": "s" * (n + 1), "dmr_id": n}),
        ("mi", A0, False, {}),
        ("mi", A1, False, {"m": n}),
        ("ma", "dmr_id", n),
    ]


def hot_alphabet(K):
    """exhaustive pool around one name of a changed function"""
    return [
        ("mi", A0, True, {}),
        ("mi", A1, True, {K: True}),
        ("mi", A0, False, {K: 1}),
        ("attr", 0, K, "x"),
        ("mi", A0, True, {K: 0}),
        ("del", 0, K),
        ("mu", _uuid.UUID(int=0)),
        ("save", 1, {K: False, "callsign": "C"}),
    ]


def key_variants_lite(K):
    return [k for k in dict.fromkeys([K + "x", "x" + K, K + "_1", K + ".0", K.upper(), K.capitalize(), K + " ", K[:-1], "_" + K]) if k and k != K]


def run_literals(ctx, h, pairs):
    rng = ctx.rng
    values = LIT_TRUTHY + LIT_FALSY
    nkey = 0
    labels = ("changed-function", "storage-module", "handler-module")
    # literal VALUES for the literal keys: `attr("state") == "disabled"` needs the pair
    lit_hot = [v for v, r in h.values() if r == HOT and type(v) in (str, int, float)]
    lit_near = [v for v, r in h.values() if r == NEAR and type(v) in (str, int, float)]

    def truthy(v):
        try:
            return bool(v)
        except Exception:  # noqa
            return True

    def one_key(K, combos, tag):
        """combos: (value, write path, record)"""
        nonlocal nkey
        for n, (v, w, t) in enumerate(combos):
            if capped(ctx, "literals"):
                return
            v = copy.deepcopy(v)
            opposite = LIT_FALSY if truthy(v) else LIT_TRUTHY
            v2 = copy.deepcopy(opposite[(n + w) % len(opposite)])
            ok = run_sequence(ctx, literal_key_history(K, v, w % 4, t % 2, v2), pairs, "ok", watch=[K], tag=tag)
            soft(ctx, ok)
            nkey += 1
            ctx.case((tag, K, repr(v), w % 4, t % 2), sample={"class": tag, "key": K, "value": jv(v), "write path": WRITE_PATHS[w % 4], "record": t % 2} if nkey == 1 else None)
        if pairs is not None and len(pairs) > 200000:
            flush(ctx, "storage.literals", pairs)

    keys = [(k, r) for k, r in h.keys()]
    done = set()
    for ki, (K, rank) in enumerate(keys):
        if capped(ctx, "literals"):
            break
        done.add(K)
        r = rng.randrange(1000)
        if rank == HOT and h.strings.get(K) == HOT:
            # a string literal of a changed function: the complete cross product
            combos = [(v, w, t) for v in values + lit_hot + lit_near for w in range(4) for t in range(2)]
        elif rank == HOT:
            combos = [(v, w, vi + w) for vi, v in enumerate(values + lit_hot) for w in range(4)]
        elif rank == NEAR or ctx.thorough():
            # True and every second value of the dictionary (the other half with the next seed), each through one write path
            combos = [(v, vi + ctx.seed + ki, vi // 2 + ki) for vi, v in enumerate(values) if vi == 0 or ctx.thorough() or (vi + ctx.seed + ki) % 2 == 0]
            combos += [(v, r + j, r // 4 + j) for j, v in enumerate(lit_hot)]
            combos += [(lit_near[(r + j * 7) % len(lit_near)], r + j, j) for j in range(2 if lit_near else 0)]
        else:
            combos = [(True, r, r // 4), (values[1 + r % (len(values) - 1)], r // 3, r // 7)] + [(v, r + j, j) for j, v in enumerate(lit_hot[:4])]
        one_key(K, combos, f"literals:key:{labels[rank]}")
        ctx.count(f"literals:keys:{labels[rank]}s")
        if rank != FAR:
            vs = [kv for kv in key_variants_lite(K) if kv not in done and kv not in h.taken and kv not in FIELDS]
            if rank == NEAR and not ctx.thorough():
                vs = [kv for j, kv in enumerate(vs) if (j + ctx.seed + ki) % 3 == 0]
            for kv in vs:
                done.add(kv)
                r = rng.randrange(1000)
                one_key(kv, [(True, r, r // 4)] if rank == NEAR else [(v, vi + r, vi) for vi, v in enumerate([True, 1, "x", False, 0, ""])], "literals:key:variant")
                ctx.count("literals:keys:variants")
    ctx.count("literals:key-histories", nkey)
    flush(ctx, "storage.literals.keys", pairs)
    # ---- exhaustive pools around the names of changed functions
    hot = [k for k, r in keys if r == HOT]
    if capped(ctx, "literals"):
        ctx.notes.append("literals: the stream gave 30 failing inputs, its remaining histories were skipped")
        return
    if hot:
        # string literals first (they are what a lookup / comparison in the changed code names), then identifiers
        hot.sort(key=lambda k: (k not in h.strings, k))
        for K in hot[:3]:
            alpha = hot_alphabet(K)
            for L in range(1, 5):
                for seq in itertools.product(range(len(alpha)), repeat=L):
                    if capped(ctx, "literals"):
                        break
                    if run_sequence(ctx, [alpha[i] for i in seq], pairs, "ok", tag="literals:exhaustive"):
                        ctx.case(("literals:exhaustive", K, seq))
                    if pairs is not None and len(pairs) > 200000:
                        flush(ctx, "storage.literals.exhaustive", pairs)
            ctx.count("literals:exhaustive-pools")
        flush(ctx, "storage.literals.exhaustive", pairs)
    # ---- as values
    nval = 0
    for L, rank in h.values():
        if capped(ctx, "literals"):
            break
        ok = run_sequence(ctx, literal_value_history(L), pairs, "ok", watch=["k", "m"], tag="literals:value")
        soft(ctx, ok)
        nval += 1
        ctx.case(("literals:value", repr(L)), sample={"class": "literals:value", "value": jv(L)} if nval == 1 else None)
    ctx.count("literals:value-histories", nval)
    # ---- as host / port / whole peer address
    nad = 0
    for a, rank in h.addresses():
        if capped(ctx, "literals"):
            break
        ok = run_sequence(ctx, literal_address_history(a), pairs, "ok", tag="literals:address")
        soft(ctx, ok)
        nad += 1
        ctx.case(("literals:address", repr(a)), sample={"class": "literals:address", "address": jv(a)} if nad == 1 else None)
    ctx.count("literals:address-histories", nad)
    flush(ctx, "storage.literals.values", pairs)
    # ---- numbers as sizes (entries of one patch, length of a name / a value)
    nsz = 0
    for n, rank in sorted(h.numbers.items(), key=lambda nr: (nr[1], repr(nr[0]))):
        if type(n) is not int or n < 0 or n > (2048 if rank != FAR else 64):
            continue
        ok = run_sequence(ctx, literal_size_history(n), pairs, "ok", watch=["k" * n, "v"], tag="literals:size")
        soft(ctx, ok)
        nsz += 1
        ctx.case(("literals:size", n))
    ctx.count("literals:size-histories", nsz)
    flush(ctx, "storage.literals.sizes", pairs)
    # ---- numbers of changed functions as a number of records
    for n in sorted(n for n, r in h.numbers.items() if r == HOT and type(n) is int and 2 <= n <= 12000)[:4]:
        for shape in ("ports", "identified"):
            if run_scale(ctx, shape, n + 40, ctx.seed, pairs, False):
                break
        ctx.count("literals:record-count-histories")
    # ---- the library's own objects (sentinels such as ADDRESS_EMPTY), handed over as the very objects
    run_sentinels(ctx, pairs)
    flush(ctx, "storage.literals.sentinels", pairs)


def sentinels():
    """[(name, object)]: upper-case module / class constants of the storage modules and of the handler classes"""
    out = []
    mods = []
    for name in ("okdmr.dmrlib.storage", "okdmr.dmrlib.storage.repeater", "okdmr.dmrlib.storage.repeater_storage"):
        try:
            mods.append(importlib.import_module(name))
        except Exception:  # noqa
            pass
    for mod, cls in (("okdmr.dmrlib.protocols.hytera.p2p_datagram_protocol", "P2PDatagramProtocol"), ("okdmr.dmrlib.protocols.hytera.rdac_datagram_protocol", "RDACDatagramProtocol")):
        try:
            mods.append(getattr(importlib.import_module(mod), cls))
        except Exception:  # noqa
            pass
    for m in mods:
        for n, v in sorted(vars(m).items()):
            if n.isupper() and type(v) in (str, int, tuple, bytes, frozenset) and not any(v is o for _, o in out):
                out.append((f"{getattr(m, '__name__', m)}.{n}", v))
    return out


def run_sentinels(ctx, pairs):
    saved = Sut.identity
    Sut.identity = True
    n = 0
    try:
        for name, s in sentinels():
            hs = [literal_value_history(s)]
            if type(s) is tuple:
                hs.append(literal_address_history(s))
            elif type(s) is str:
                hs.append(literal_key_history(s, True, n % 4, (n // 4) % 2, False) if s not in FIELDS else literal_address_history((s, 50000)))
            for hh in hs:
                ok = run_sequence(ctx, hh, pairs, "ok", tag="literals:sentinel")
                soft(ctx, ok)
                n += 1
                ctx.case(("literals:sentinel", name, len(hh)), sample={"class": "literals:sentinel", "object": name} if n == 1 else None)
    finally:
        Sut.identity = saved
    ctx.count("literals:sentinel-histories", n)


def intern_sentinels(op):
    """replay of an identity history: values equal to a library sentinel are that very object again"""
    sent = [s for _, s in sentinels()]

    def f(x):
        for s in sent:
            if type(x) is type(s) and x == s:
                return s
        if type(x) is dict:
            return {f(k): f(v) for k, v in x.items()}
        return x

    return tuple(f(x) for x in op)


# historically interesting inputs first (none of them fails on the unchanged tree)
CORPUS = [
    # two peers sharing an IP: distinct records, the IP lookup returns the first
    [("mi", A0, True, {}), ("mi", A1, True, {}), ("mip", "10.0.0.1"), ("mi", A0, False, {}), ("mi", A1, False, {"k": 1})],
    # a patch through match_incoming of a missing record raises and leaves everything alone
    [("mi", A0, True, {}), ("mi", A1, False, {"k": 1}), ("mi", A1, False, {})],
    # None values: data member set to None, dynamic attribute skipped
    [("mi", A0, True, {"dmr_id": None, "k": None}), ("attr", 0, "k", None), ("del", 0, "k")],
    # moving a record to an unheld address, then re-creating the old one
    [("mi", A0, True, {}), ("patch", 0, {"address_in": A1}), ("mi", A0, True, {}), ("mi", A1, False, {})],
    # what read_snmp_values() patches in: the Hytera OIDs, two of which differ by a '0' before the instance suffix
    [("mi", A0, True, {"1.3.6.1.4.1.40297.1.2.4.1.0": "RD985", "1.3.6.1.4.1.40297.1.2.4.10.0": 438200000}), ("patch", 0, {"1.3.6.1.4.1.40297.1.2.4.10.0": 438300000}), ("del", 0, "1.3.6.1.4.1.40297.1.2.4.10.0"), ("attr", 0, "1.3.6.1.4.1.40297.1.2.4.1.0", None)],
]


ENOUGH = 120


class Enough(Exception):
    pass


def enough(ctx):
    """the search stops once this many failing inputs are recorded (the first, shortest ones are reported; at most 30 are kept per
    stream, two full streams are enough): a change that breaks nearly every history would otherwise be searched at full
    (boosted) budget for nothing; and it stops a while after
    the first failing input (45 s quick / 5 min thorough: enough for the streams with shorter histories to add theirs)"""
    n = len(getattr(ctx, "failures", ()))
    if n >= ENOUGH:
        raise Enough()
    if n >= 60 and sum(1 for k, v in ctx.hist.items() if k.startswith("oracle-failures-recorded:") and v >= 30) >= 2:
        raise Enough()  # two streams (two classes of inputs) have each given as many failing inputs as are kept per stream
    if n and hasattr(ctx, "boost"):
        t = getattr(ctx, "_first_failure_at", None)
        if t is None:
            ctx._first_failure_at = _NOW()
        elif _NOW() - t > (300 if ctx.thorough() else 45):
            raise Enough()


def diversify(failures):
    """the failing inputs in round-robin order over (stream, kind of failure), each group in the order found (shortest first):
    the first few - the ones written out as replay files - show the different consequences of a change"""
    groups = {}
    for f in failures:
        inp = f.get("input") if isinstance(f.get("input"), dict) else {}
        key = (str(inp.get("class") or inp.get("stream") or "").split(":")[0], f.get("kind"))
        groups.setdefault(key, []).append(f)
    out = []
    queues = list(groups.values())
    while queues:
        for q in queues:
            out.append(q.pop(0))
        queues = [q for q in queues if q]
    return out


# ------------------------------------------------------------------------------------------------
# round 6: read-only calls interleaved into a history (harness/ro_calls.py).  An operation ("ro", call) is one observer-style call on
# the storage, on a record (stored, or created earlier and no longer stored) or on a library object reachable from them: repr / str /
# len / bool / == / hash / iteration / copy / reading every attribute, match_incoming / match_attr / match_ip_incoming / match_uuid
# WITHOUT auto-create and with an empty patch, all(), Repeater.attr(key) (value None = "read only"), repeater_target_address(), and
# whatever get_* / is_* / has_* / debug a change adds.  `call` is an entry of the catalogue or a number (that entry of the catalogue the
# live objects offer now; the recorded history holds the call it became).  The same random history (preconditions kept) runs once
# without and once with such calls in a fresh storage: each call must leave the deep picture of storage and records (order of the
# registry, class and module data, the id counter) as it was; every operation's answer, len(), the final dump and a final sweep
# through the whole catalogue must be identical; the model is driven with the history without the calls.
RO_POOLS = {
    "address": DEFAULT_POOL["addrs"] + [("10.0.0.77", 1), ("", 0)], "ip": ["10.0.0.1", "10.0.0.2", "10.0.0.3", "", "10.0.0.77"],
    "uuid": [_uuid.UUID(int=i) for i in (0, 1, 2, 3, 99)], "attr_name": FIELDS + ["nope"], "match_value": DEFAULT_POOL["vals"][:12] + DEFAULT_POOL["addrs"][:3],
    "key": DEFAULT_POOL["dyn"] + ["nope"], "value": [None], "patch": [{}], "msg": ["status"], "exc": [None],
}


def ro_roots(sut):
    return {"storage": sut.storage, "created": list(sut.created)}


def ro_apply(sut, op, verdicts, count):
    """performs ("ro", call); returns the operation as it ran (the call a number became)"""
    import random

    spec = op[1]
    roots = ro_roots(sut)
    if isinstance(spec, int):
        cat = RO.all_specs(roots, RO_POOLS, random.Random(spec), cap=8)
        spec = cat[spec % len(cat)]
    spec = list(spec)
    try:
        obj = RO.resolve(spec[0], roots)
    except Exception:  # noqa: that object does not exist in this state
        count("read-only-call:no-such-object")
        return ("ro", spec)
    text = RO.spec_text(spec)
    s0 = RO.snapshot(roots, [sut.uuid_next])
    n0 = len(sut.storage)
    answer, _ = RO.perform(obj, spec, other=sut.created[-1] if sut.created else None)
    s1 = RO.snapshot(roots, [sut.uuid_next])
    count("read-only-call:" + (spec[2] if spec[1] == "proto" else "call:" + spec[2]))
    count("read-only-call-answer:" + answer)
    if s0 != s1 or len(sut.storage) != n0:
        verdicts.append((f"the read-only call {text} (answer: {answer}) changed the storage / a record", "nothing changes", RO.first_diff(s0, s1) or f"len {n0} -> {len(sut.storage)}"))
    return ("ro", spec)


def ro_run(ops, count=lambda *a: None, generate=None):
    """one history on a fresh storage: (pairs, final sweep, verdicts of the calls, the history as it ran, inside the model?).
    `generate` = (rng, length, pool): the history is drawn while it runs (random_op looks at the live storage)"""
    sut = Sut()
    saved_pool, _POOL[0] = _POOL[0], None
    try:
        local, verdicts, ran = [("reset", "ok")], [], []
        in_model = True
        todo = list(ops)
        while True:
            if generate is not None:
                rng, length, pool = generate
                if len(ran) >= length:
                    break
                op = random_op(rng, sut, "ok", pool)
                if violates_pre(sut, op):
                    continue
            else:
                if not todo:
                    break
                op = todo.pop(0)
                if op[0] != "ro":
                    op = resolve(sut, op)
                    if op is None or violates_pre(sut, op):
                        return None  # (a shortened history that left the preconditions)
            if op[0] == "ro":
                ran.append(ro_apply(sut, op, verdicts, count))
                continue
            ran.append(op)
            line, out, raw = sut.apply(op)
            in_model = in_model and modelled(line)
            local.append((line, out))
            count(f"op:{op[0]}")
        local.append(("dump", sut.dump()))
        roots = ro_roots(sut)
        n0 = len(sut.storage)
        final, specs, changed = RO.checked_sweep(roots, RO_POOLS, 5 + sum(1 for o in ran if o[0] != "ro"), lambda: [sut.uuid_next])
        if not changed and len(sut.storage) != n0:
            changed = f"len {n0} -> {len(sut.storage)}"
        if changed:
            # the sweep made every call of the catalogue: as explicit operations they are checked one by one
            verdicts.append(("the final look through every observer-style call changed the storage / a record", "nothing changes", changed))
            ran += [("ro", sp) for sp in specs]
        return local, final, verdicts, ran, in_model
    finally:
        _POOL[0] = saved_pool
        sut.close()


def ro_verdicts(plain, with_calls, count=lambda *a: None, sweep=True):
    a = ro_run(plain)
    b = ro_run(with_calls, count)
    if a is None or b is None:
        return [], None, None, False
    pa, fa, _, _, _ = a
    pb, fb, out, ran, in_model = b
    out = [v for v in out if sweep or not v[0].startswith("the final look")]
    xa, xb = [x[1] for x in pa], [x[1] for x in pb]
    if xa != xb:
        d = next((i for i, (x, y) in enumerate(zip(xa, xb)) if x != y), min(len(xa), len(xb)))
        out.append((f"operations are answered differently when read-only calls are made in between (first difference at operation {d}: {pa[d][0][:70] if d < len(pa) else 'end'})",
                    xa[d][:300] if d < len(xa) else None, xb[d][:300] if d < len(xb) else None))
    if fa != fb:
        out.append(("after read-only calls were made in between, the final state / what the observers answer at the end differs from the run without them",
                    "as without the calls", RO.first_diff(fa, fb)))
    return out, pb, ran, in_model


def ro_json(ops):
    return [["ro", json.loads(json.dumps(o[1]))] if o[0] == "ro" else op_json(o) for o in ops]


def ro_unjson(hist):
    return [("ro", o[1]) if o[0] == "ro" else op_unjson(o) for o in hist]


def run_read_only(ctx, pairs):
    import random

    rng = random.Random(f"C20:ro:{ctx.seed}")
    shrunk = 0
    for i in range(160 if not ctx.thorough() else 1500):
        enough(ctx)
        length = rng.choice([3, 6, 12, 30]) if i % 6 else 80
        pool = DEFAULT_POOL if i % 3 else dict(DEFAULT_POOL, dyn=list(rng.choice(KEY_FAMILIES)))
        r = ro_run([], generate=(rng, length, pool))
        plain = r[3]
        with_calls, made = [], 0
        for k, op in enumerate(plain):
            with_calls.append(op)
            if rng.random() < 0.25 or (made == 0 and k >= len(plain) // 2):
                for _ in range(rng.randrange(1, 3)):
                    with_calls.append(("ro", rng.getrandbits(30)))
                    made += 1
        verdicts, pb, ran, in_model = ro_verdicts(plain, with_calls, ctx.count)
        ctx.case(("read-only", i, str(plain[:8]), made), sample={"class": "read-only calls interleaved", "operations": len(plain), "read_only_calls": made} if i == 1 else None)
        ctx.count("read-only:histories")
        ctx.count("read-only:calls", made)
        if not verdicts:
            if pb is not None and in_model:
                pairs.extend(pb)  # the model answers the history without the calls; the implementation answered it with them
            if len(pairs) > 200000:
                flush(ctx, "storage.read-only", pairs)
            continue
        ctx.count("read-only:failing-histories")
        if shrunk < 4:
            shrunk += 1

            def test(cand):
                return any(o[0] == "ro" for o in cand) and bool(ro_verdicts([o for o in cand if o[0] != "ro"], cand, sweep=False)[0])

            small = RO.ddmin(ran, test, max_runs=150)
            again, _, ran2, _ = ro_verdicts([o for o in small if o[0] != "ro"], small, sweep=False)
            if again:
                verdicts, ran = again, ran2
                ctx.count("read-only:failing-history-shortened")
        elif shrunk >= 24:
            continue
        else:
            shrunk += 1
        for what, exp, act in verdicts[:2]:
            ctx.fail("read-only-call", {"history": ro_json(ran), "stream": "read-only"}, what + f" [history of {len(ran)} operations]", expected=exp, actual=act)
    flush(ctx, "storage.read-only", pairs)
    sk = []
    sut = Sut()
    try:
        sut.storage.match_incoming(A0, True)
        RO.all_specs({"storage": sut.storage}, RO_POOLS, skipped=sk)
    finally:
        sut.close()
    for what in sorted(set(sk)):
        ctx.count("read-only:not-called:" + what[:110])
    if RO.no_exclusions():
        ctx.notes.append("VERIF_RO_NOEXCLUDE is set: the reviewed exclusions of harness/ro_calls.py are void in this run (review mode)")


def flush(ctx, component, pairs):
    if pairs and not ctx.search_only and ctx.driver_ok:
        ctx.correspond(component, pairs)
    pairs.clear()


def run(ctx):
    import logging

    logging.disable(logging.CRITICAL)  # the storage logs a critical line per duplicate match
    try:
        _run(ctx)
    except Enough:
        ctx.notes.append(f"search stopped after {len(ctx.failures)} failing inputs")
    finally:
        logging.disable(logging.NOTSET)
        _H[0] = None
        _POOL[0] = None
        Sut.identity = False
        ctx.failures[:] = diversify(ctx.failures)


def _run(ctx):
    ctx.rule = (
        "histories of the eight storage operations on a fresh RepeaterStorage: a corpus, every sequence up to "
        "length 5 (quick) / 6 (thorough) over four pools of 8 operations (3 addresses, two sharing an IP; patches with "
        "data members, dynamic attributes and None values; error outcomes), random histories up to length 300 over a "
        "larger pool; attribute NAMES: the library's own constants (SNMP.OID_*, STORAGE_ATTR_*, read from the live classes) "
        "and a generated near-collision family of each (affixes added/removed, stripped character sets, zeros/dots around the "
        "last segment, dotted prefixes, case, separators, white space, invisible characters, NFC/NFD/NFKC/NFKD and width forms, "
        "truncations and 300-character twins, numeric spellings, look-alikes of the nine member names): every pair of names "
        "that ~50 plausible normalisers map to one image gets short write/overwrite/delete/read histories, one sweep writes, "
        "re-patches and deletes EVERY name of a large sample on one record and reads all of them back (complete over pairs), "
        "random histories run over clusters of look-alike names; special VALUES (white space, NUL, Unicode forms, huge ints, "
        "300-character strings; negative ints/floats/bytes/lists oracle-only); look-alike ADDRESSES (leading zeros, case, white "
        "space, port mod 65536, IPv6 spellings); WIDE records (300 attributes, a patch of 1100 entries, 5000-character values); "
        "SCALE: 1500 records in quick / 20000 in thorough (distinct IPs, one IP with many ports, mixed; identified fraction 0 ... 1), "
        "lookups of the oldest / middle / newest records interleaved and at the end, full comparison of every record at powers "
        "of two and every 500 records; 10 000 (quick) / 33 000 (thorough) IPv6 4-tuple records oracle-only. ADDRESS SHAPES "
        "(argument provenance): every ordered pair of ~26 shapes of one peer address - (host, port), AF_INET6 4-tuples equal / "
        "differing in flowinfo, scope id, port, host, lists, namedtuples, str / int subclasses, port as text / float / bool, "
        "1- / 3- / 5-tuples, bytes host, bare str - in one history (same peer iff ==), all shapes in one history, random histories "
        "over pools of shapes; patches of other mapping types. ERROR PATH: ~340 raising calls of every operation kind (keys that "
        "are no str at the first / a middle / the last position, non-mapping patches: list of pairs, str, set, None, int, "
        "generator; unhashable attribute keys, non-str names, None / int / wrong-arity addresses) on seen / unseen addresses "
        "with / without auto-create, after a two-record prefix, twice in a row, and as the FIRST call on a fresh storage, each "
        "followed by lookups of every earlier record by address / id / dmr_id and reads of its attributes; after a raising call "
        "the matched record may carry some of the named entries (exactly as given), nothing else may differ; random histories "
        "with 10-50 % raising calls. AMBIENT: a fixed sample with the root logger at DEBUG, a sys.stdout that raises, `random` "
        "reseeded before every call, and once in a child `python -O`. LITERALS OF THE CURRENT SOURCE (round 4): every string / "
        "number / tuple literal and identifier of the storage modules and of the modules using the storage, read with ast on "
        "this run, as name of a dynamic attribute (truthy / falsy values of a dozen types x four write paths, then lookups by "
        "address / id / dmr_id / host, re-patch, delete, a later peer), as value of attributes and data members, as host / port / "
        "peer address, as size; library constants (ADDRESS_EMPTY) as the very objects; harvested names / values / addresses in "
        "the pools of every random stream; literals of functions that differ from the committed baseline: full cross product, "
        "exhaustive pools, that many records. CONTAINERS (round 4): dict / list / set / bytearray / OrderedDict / defaultdict / "
        "Counter / deque / UserDict / namespace / nested values owned by the caller, the same object in three records (via the "
        "caller's own defaults mapping and every write path), then one record re-patched with another container of the type "
        "(disjoint / overlapping / empty / equal / superset / subset), dynamic attribute and data member; deep snapshots before "
        "each call, every record and every object of the caller compared after it; lookups by id / member / host are checked "
        "against the first stored record that matches. Stream 'ok' respects the two preconditions of the theorems (no patch assigns id; "
        "address_in is only assigned a value no other record holds) and is checked against the property as stated (incl. "
        "attr() read back through the public API after every operation), stream 'cross' crosses them and is checked for "
        "model = code and unique dictionary keys. A history is distinct by its operation list; non-trivial = at least one "
        "record exists"
        " ROUND 6, READ-ONLY CALLS: observer-style calls found by introspection on the live objects (repr / str / len / bool / == / hash / copy / every attribute, debug(), get_* / is_* / has_* / match_* without auto-create, the log helpers, on every library object reachable) are interleaved into histories: the same history runs without and with them in fresh objects; each call must leave the deep picture of the objects, their class / module data and the stubs' counters unchanged, every answer, the final state and a final sweep through the whole catalogue (made, and itself checked, at the end of every such history) must be identical, and the model is driven with the history without the calls; reviewed exclusions (calls that advance by design) are listed in harness/ro_calls.py EXCLUDED. "
    )
    ctx.trusted_base += [
        "Lean 4.33 kernel",
        "tools/extract_storage.py (data member names and constructor defaults of Repeater, the library's attribute-name constants, read from /repo)",
        "hand-written model of RepeaterStorage / Repeater (Model/Storage.lean) tied to the code by this run's correspondence",
        "uuid.uuid4 replaced by a counter: freshness of real UUIDs is assumed, not proved",
        "Python dict semantics (insertion order, update in place) as modelled by dictSet/dictGet/dictDel",
        "attribute names reach the model through an injective ASCII encoding (ckey): the model compares names as strings",
        "containers (dict / list / set / bytearray) reach the model as opaque immutable values: kind + canonical text of the content "
        "(_otext; equal texts iff Python == on the modelled element types); the model has value semantics, an in-place change of a "
        "stored container shows as a difference of the per-operation state dumps",
    ]
    ctx.assumptions += [
        "A1: patch keys and match_attr names are data member names of Repeater or names that are no attribute of it at all "
        "(a key such as 'attr', 'patch', 'logger' or '__class__' would overwrite a method/member by setattr)",
        "A2: values are None, ints/bools, strings, (str,int) tuples, UUIDs, the address shapes (str,int,...) / [str,int,...] / (str,str), "
        "and dict / list / set / bytearray containers of these (opaque to the model; not in the place of a peer address) "
        "(== is structural on them; bool is int); histories with other values (negative ints, floats, bytes, other container types, "
        "objects), non-str attr()/delete_attr keys, unsized or empty non-mapping patches run against the oracle alone",
        "A4: the caller does not change a container after handing it over (the storage keeps the reference: such a change is the "
        "caller's own write, outside the property)",
        "A3: save/attr/delete_attr/patch are applied to objects obtained from the storage (as the protocol handlers do) or, for save, None",
        "P1/P2 (theorem hypotheses, stream 'ok'): no patch assigns id; address_in is only assigned a value no other stored record holds",
    ]
    quick = not ctx.thorough()

    def budget(q, t, cap):
        """boosted budgets (x4 source drift, x8 broken proof) are capped so that a boosted quick run stays within minutes"""
        return min(ctx.budget(q, t), cap if quick else cap * 20)

    t_last = [_NOW()]

    def mark(stream):
        now = _NOW()
        ctx.hist[f"seconds:{stream}"] = round(ctx.hist.get(f"seconds:{stream}", 0) + now - t_last[0], 1)
        t_last[0] = now

    pairs = []
    # ---- corpus
    for seq in CORPUS:
        ok = run_sequence(ctx, seq, pairs, "ok")
        ctx.case(("corpus", str(seq)))
        assert ok, "corpus sequence left the preconditions"
    flush(ctx, "storage.corpus", pairs)
    mark("corpus")
    # ---- literals of the current source as names / values / addresses / sizes (names of changed functions first)
    _H[0] = harvest = Harvest(ctx)
    run_literals(ctx, harvest, pairs)
    flush(ctx, "storage.literals", pairs)
    mark("literals")
    # ---- containers as attribute values: the same object in several records and in the caller's hands
    run_containers(ctx, pairs)
    flush(ctx, "storage.containers", pairs)
    mark("containers")
    # ---- attribute names: collision candidates (short histories first: they give the shortest failing inputs)
    keys = Keys(ctx)
    rng = ctx.rng
    todo = list(keys.tier0)
    todo += rng.sample(keys.tier1, min(len(keys.tier1), budget(250, 4000, 700)))
    todo += rng.sample(keys.tier2, min(len(keys.tier2), budget(100, 2000, 300)))
    run_pairs(ctx, keys, pairs, todo)
    for fam in KEY_FAMILIES:
        run_pairs(ctx, keys, pairs, [(a, b) for a, b in itertools.combinations(fam, 2)][:: 1 if ctx.thorough() else 3], tag="keys:family-pair")
    flush(ctx, "storage.keys", pairs)
    mark("keys:pairs")
    # ---- the sweep: every library name, its collision partners, and a sample of the rest of the universe, on one record
    first = list(dict.fromkeys(keys.base + [p for b in keys.base for p in keys.partners.get(b, [])]))
    first_set = set(first)
    rest = [k for k in keys.universe if k not in first_set]
    nsweep = budget(900, 6000, 1800)
    names = first[:nsweep] + rng.sample(rest, max(0, min(len(rest), nsweep - len(first[:nsweep]))))
    run_sweep(ctx, keys, names, pairs)
    flush(ctx, "storage.keys.sweep", pairs)
    mark("keys:sweep")
    # ---- random histories over clusters of look-alike names, with special values
    for i in range(budget(150, 3000, 450)):
        cl = keys.cluster(rng) if i % 8 else list(rng.choice(KEY_FAMILIES))
        pool = {"addrs": DEFAULT_POOL["addrs"][:3], "vals": [None, 0, 1, "x", A0] + rng.sample(SPECIAL_VALUES, 4), "dyn": cl}
        run_random(ctx, rng.choice([6, 15, 40]), pairs, "ok", pool, tag="keys:cluster", watch=cl)
        if len(pairs) > 200000:
            flush(ctx, "storage.keys.cluster", pairs)
    flush(ctx, "storage.keys.cluster", pairs)
    mark("keys:cluster")
    # ---- special values (in the model's alphabet: with the model; outside: the oracle alone)
    for i in range(budget(60, 1500, 180)):
        pool = {"addrs": DEFAULT_POOL["addrs"], "vals": [None, 0, "x"] + rng.sample(SPECIAL_VALUES, 6), "dyn": DEFAULT_POOL["dyn"]}
        run_random(ctx, rng.choice([8, 20, 50]), pairs, "ok", pool, tag="values:special")
    flush(ctx, "storage.values", pairs)
    for i in range(budget(40, 600, 120)):
        pool = {"addrs": DEFAULT_POOL["addrs"][:3], "vals": [None, 0, "x", 7] + FOREIGN_VALUES, "dyn": DEFAULT_POOL["dyn"]}
        run_random(ctx, rng.choice([8, 20, 50]), None, "ok", pool, tag="values:outside-model-alphabet")
    # ---- look-alike addresses: every different tuple is a different peer
    for i in range(budget(60, 1500, 180)):
        pool = {"addrs": rng.sample(ADDRESS_FAMILY, 5), "vals": DEFAULT_POOL["vals"], "dyn": DEFAULT_POOL["dyn"]}
        run_random(ctx, rng.choice([8, 20, 50]), pairs, "ok", pool, tag="addresses:look-alike")
    ok = run_sequence(ctx, [("mi", a, True, {"k": n}) for n, a in enumerate(ADDRESS_FAMILY)] + [("mi", a, False, {}) for a in ADDRESS_FAMILY], pairs, "ok", tag="addresses:look-alike")
    assert ok
    ctx.case(("addresses:all", len(ADDRESS_FAMILY)))
    flush(ctx, "storage.addresses", pairs)
    mark("values+addresses")
    # ---- argument provenance: the shapes in which a peer address arrives (same peer iff the addresses are ==)
    run_shapes(ctx, pairs)
    for i in range(budget(60, 1500, 180)):
        run_random(ctx, rng.choice([8, 20, 50]), pairs, "ok", shape_pool(rng), tag="shapes:random")
    flush(ctx, "storage.shapes", pairs)
    mark("shapes")
    # ---- error path: calls that raise, after which the history continues
    run_errors(ctx, pairs)
    for i in range(budget(120, 3000, 360)):
        pool = dict(DEFAULT_POOL if i % 3 else shape_pool(rng), bad=rng.choice([0.1, 0.25, 0.5]))
        run_random(ctx, rng.choice([6, 15, 40, 100]), pairs, "ok", pool, tag="errors:random")
        if len(pairs) > 200000:
            flush(ctx, "storage.errors", pairs)
    flush(ctx, "storage.errors", pairs)
    mark("errors")
    # ---- ambient interpreter state
    run_ambient(ctx, pairs)
    flush(ctx, "storage.ambient", pairs)
    run_child_optimized(ctx)
    mark("ambient")
    # ---- time passes (a day per reading of the clock) / the caller keeps no reference to the records
    with FastClock():
        for seq in CORPUS:
            ok = run_sequence(ctx, seq, pairs, "ok", tag="clock")
            assert ok
        for i in range(budget(25, 400, 60)):
            run_random(ctx, rng.choice([20, 60]), pairs, "ok", tag="clock")
        run_scale(ctx, "mixed", 300, ctx.seed, pairs, False, clock=True)
    flush(ctx, "storage.clock", pairs)
    run_unreferenced(ctx, 200 if quick else 3000)
    mark("clock+unreferenced")
    # ---- wide records
    run_wide(ctx, pairs)
    flush(ctx, "storage.wide", pairs)
    # ---- scale: internal thresholds (bounded tables, eviction, caches) only show with many records.
    # The model (list based, cubic) follows up to 1500 records in quick / 2000 in thorough; beyond that the oracle alone.
    salt = ctx.seed
    if quick:
        plan = [("ips", 1500 + ctx.seed % 7, True), ("ports", 1150, False), ("mixed", 700, False), ("identified", 300, False), ("ips6", 10000 + ctx.seed % 7, False)]
        if ctx.boost > 1:
            plan += [("ports", 3000, False), ("identified", 1300, False)]
    else:
        # (every auto-creating lookup scans all records: n records cost n^2 / 2 comparisons - 33 000 is what fits the tier)
        plan = [("ips6", 33000 + ctx.seed % 7, False), ("ips", 20000 + ctx.seed % 7, False), ("ports", 6000, False), ("mixed", 5000, False), ("identified", 2500, False), ("ips", 2000, True), ("ports", 1300, True)]
    for shape, n, with_model in plan:
        failure = run_scale(ctx, shape, n, salt, pairs, with_model and not ctx.search_only and ctx.driver_ok)
        flush(ctx, f"storage.scale.{shape}", pairs)
        mark(f"scale:{shape}:{n}")
        if failure:
            break  # one long failing input is enough
    # ---- exhaustive short histories
    # (boosted quick runs: one step longer for two of the four pools, chosen by the seed - all four cost ~3 min)
    for pi, (name, alpha) in enumerate(alphabets(ctx).items()):
        maxlen = 6 if ctx.thorough() or (ctx.boost > 1 and (pi - ctx.seed) % 4 < 2) else 5
        done = skipped = 0
        for L in range(1, maxlen + 1):
            for seq in itertools.product(range(len(alpha)), repeat=L):
                ops = [alpha[i] for i in seq]
                if run_sequence(ctx, ops, pairs, "ok"):
                    done += 1
                    ctx.case((name, seq), nontrivial=any(o[0] == "mi" and o[2] for o in ops), sample={"pool": name, "ops": [op_json(o) for o in ops]} if seq == (0, 2, 3, 4) else None)
                else:
                    skipped += 1
                if len(pairs) > 200000:
                    flush(ctx, f"storage.exhaustive.{name}", pairs)
        flush(ctx, f"storage.exhaustive.{name}", pairs)
        ctx.count(f"exhaustive:{name}:run", done)
        ctx.count(f"exhaustive:{name}:inapplicable-or-outside-preconditions", skipped)
        mark(f"exhaustive:{name}")
    # ---- excluded points: model = code, dictionary keys unique
    crosslen = 5 if ctx.thorough() else 4
    done = 0
    for L in range(1, crosslen + 1):
        for seq in itertools.product(range(len(CROSS_ALPHABET)), repeat=L):
            ops = [CROSS_ALPHABET[i] for i in seq]
            if run_sequence(ctx, ops, pairs, "cross"):
                done += 1
                ctx.case(("cross", seq))
            if len(pairs) > 200000:
                flush(ctx, "storage.excluded-points", pairs)
    flush(ctx, "storage.excluded-points", pairs)
    ctx.count("exhaustive:cross:run", done)
    mark("excluded-points")
    # ---- random histories
    nrand = budget(500, 10000, 1500)
    for i in range(nrand):
        length = ctx.rng.choice([3, 8, 20, 60, 150, 300]) if i % 5 else 300
        pool = DEFAULT_POOL
        if i % 3 == 0:
            pool = dict(DEFAULT_POOL, dyn=list(ctx.rng.choice(KEY_FAMILIES)) if i % 2 else keys.cluster(ctx.rng))
        run_random(ctx, length, pairs, "ok" if i % 4 else "cross", pool)
        if len(pairs) > 200000:
            flush(ctx, "storage.random", pairs)
    flush(ctx, "storage.random", pairs)
    mark("random")
    # ---- round 6: read-only calls interleaved (a fixed share, own random stream)
    run_read_only(ctx, pairs)
    mark("read-only")
    ctx.exhaustive = False


# ------------------------------------------------------------------------------------------------
def drive_model(lines):
    import os
    import subprocess

    from common import BIN

    exe = os.path.join(BIN, "drv_c20")
    return subprocess.run([exe], input="\n".join(["reset"] + lines + ["dump"]) + "\n", capture_output=True, text=True).stdout.split("\n")[1:]


def replay(obj):
    import logging

    logging.disable(logging.CRITICAL)
    inp = (obj.get("failure") or {}).get("input") or {}
    if inp.get("class") == "clock" or inp.get("clock"):
        with FastClock():
            return _replay(obj)
    return _replay(obj)


def _replay(obj):
    f = obj.get("failure") or {}
    inp = f.get("input") or {}
    print(json.dumps(obj.get("type")), f.get("what"))
    if inp.get("stream") == "unreferenced":
        c = Sink()
        run_unreferenced(c, inp["n"])
        for k in c.failures:
            print("property check:", (k["kind"], k["what"], k["expected"], k["actual"]))
        return 1 if c.failures else 0
    if inp.get("stream") == "read-only":
        hist = ro_unjson(inp["history"])
        for o in hist:
            print("read-only call:" if o[0] == "ro" else "operation:     ", RO.spec_text(o[1]) if o[0] == "ro" else op_json(o))
        verdicts, pb, _, _ = ro_verdicts([o for o in hist if o[0] != "ro"], hist)
        for line, out in pb or []:
            print(f"implementation  {line[:90]:90s} -> {out[:300]}")
        for v in verdicts:
            print("property check:", v)
        print("expected:", f.get("expected"), "actual:", f.get("actual"))
        return 1 if verdicts else 0
    if inp.get("stream") == "scale":
        verbose = []
        failure = run_scale(None, inp["shape"], inp["n"], inp["salt"], [], False, upto=inp.get("upto"), verbose=verbose)
        print(f"scale history shape={inp['shape']} n={inp['n']} salt={inp['salt']}: {len(verbose)} operations run; the last ones:")
        for line, out in verbose[-6:]:
            print(f"implementation  {line[:90]:90s} -> {out}")
        if inp["n"] <= 2000:
            try:
                outs = drive_model([l for l, _ in verbose])
                for (line, _), o in list(zip(verbose, outs))[-6:]:
                    print(f"model           {line[:90]:90s} -> {o}")
            except Exception as e:  # noqa
                print("model driver not available:", e)
        print("property check:", failure)
        print("expected:", f.get("expected"), "actual:", f.get("actual"))
        return 1 if failure else 0
    pool = Pool(inp["objects"]) if inp.get("objects") is not None else None
    if pool is not None:
        print("objects of the caller (as the caller made them):", json.dumps(inp["objects"]))
    hist = [op_unjson(o, pool.objs if pool else None) for o in inp.get("history", [])]
    if not hist:
        print("no history recorded (proof/correspondence record):", json.dumps(obj.get("no_longer_checks") or obj.get("correspondence_differences"))[:2000])
        return 1
    if inp.get("identity"):
        hist = [intern_sentinels(op) for op in hist]
    c = Sink()
    sut = Sut()
    lines = []
    in_model = True
    Sut.identity = bool(inp.get("identity"))
    _POOL[0] = pool
    try:
        oracle = Oracle(c, sut, list(hist), inp.get("watch", ()), None, pool) if inp.get("stream") == "ok" else None
        for op in hist:
            if oracle:
                oracle.before(op)
            line, out, raw = sut.apply(op)
            in_model = in_model and modelled(line)
            lines.append(line)
            if len(hist) <= 40 or len(lines) > len(hist) - 6:
                print(f"implementation  {line[:90]:90s} -> {out}")
            if oracle:
                oracle.after(op, raw)
        if oracle and inp.get("watch"):
            oracle.finish()
        if len(hist) <= 40:
            print("implementation  " + sut.dump())
    finally:
        sut.close()
        Sut.identity = False
        _POOL[0] = None
    if in_model:
        try:
            out = drive_model(lines)
            for l, o in list(zip(lines + ["dump"], out))[-41 if len(hist) <= 40 else -6 :]:
                print(f"model           {l[:90]:90s} -> {o[:2000]}")
        except Exception as e:  # noqa
            print("model driver not available:", e)
    for k in c.failures[:10]:
        print("property check:", (k["kind"], k["what"], k["expected"], k["actual"]))
    print("expected:", f.get("expected"), "actual:", f.get("actual"))
    return 1 if c.failures or not oracle else 0
