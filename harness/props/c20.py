"""C20 — repeater storage keeps one record per source address with a stable identity (DESIGN §5 C20).

Real code: okdmr.dmrlib.storage.{repeater_storage,repeater} run in-process; `uuid.uuid4` as seen by
repeater.py is replaced by a deterministic counter (monkey-patched in this process only).
Model: lean/DmrVerif/Model/Storage.lean through drv_c20 (stateful line protocol).
"""
import itertools
import json
import types
import uuid as _uuid

from common import impl_error

PROP = "C20"
MODULES = ["C20"]
GEN = ["Storage"]
MATCHERS = {}

FIELDS = [
    "id",
    "address_in",
    "address_out",
    "address_nat",
    "snmp_enabled",
    "nat_enabled",
    "dmr_id",
    "callsign",
    "serial",
]

# ------------------------------------------------------------------------------------------------
# canonical text of values / patches (must equal lean/DmrVerif/Driver/Storage.lean)


def cps(s: str) -> str:
    return ".".join(str(ord(c)) for c in s)


def cval(v) -> str:
    if v is None:
        return "N"
    if isinstance(v, bool):
        return f"i{int(v)}"
    if isinstance(v, int):
        return f"i{v}"
    if isinstance(v, str):
        return "s" + cps(v)
    if isinstance(v, _uuid.UUID):
        return f"u{v.int}"
    if isinstance(v, tuple) and len(v) == 2 and isinstance(v[0], str) and isinstance(v[1], int):
        return "a" + cps(v[0]) + ":" + str(v[1])
    raise ValueError(f"value outside the modelled alphabet: {v!r}")


_SAFE = set("ABCDEFGHIJKLMNOPQRSTUVWXYZabcdefghijklmnopqrstuvwxyz0123456789_.-")


def ckey(k: str) -> str:
    """injective ASCII token for an attribute key (the model only compares keys): unsafe characters as %XXXXXX;
    the empty key as %"""
    if k == "":
        return "%"
    return "".join(c if c in _SAFE else f"%{ord(c):06x}" for c in k)


def cpatch(p: dict) -> str:
    if not p:
        return "-"
    return ",".join(f"{ckey(k)}={cval(v)}" for k, v in p.items())


# ------------------------------------------------------------------------------------------------
# the system under test with the counter oracle


class Sut:
    """one RepeaterStorage + the list of objects it created, by creation index"""

    def __init__(self):
        import okdmr.dmrlib.storage.repeater as rmod
        from okdmr.dmrlib.storage.repeater_storage import RepeaterStorage

        self.rmod = rmod
        self.saved_uuid = rmod.uuid
        self.counter = itertools.count()
        rmod.uuid = types.SimpleNamespace(uuid4=lambda: _uuid.UUID(int=next(self.counter)), UUID=_uuid.UUID)
        self.storage = RepeaterStorage()
        self.created = []

    def close(self):
        self.rmod.uuid = self.saved_uuid

    def index(self, obj):
        for i, o in enumerate(self.created):
            if o is obj:
                return i
        self.created.append(obj)
        return len(self.created) - 1

    def snapshot(self):
        """fields and dynamic attributes of every created object (copies)"""
        return [
            ({f: getattr(o, f) for f in FIELDS}, dict(o._Repeater__attrs)) for o in self.created
        ]

    def dict_items(self):
        return list(self.storage._RepeaterStorage__repeaters.items())

    def dump(self) -> str:
        d = ",".join(f"{cval(k)}>{self.index(v)}" for k, v in self.dict_items())
        recs = "".join(
            " "
            + ",".join(f"{f}={cval(getattr(o, f))}" for f in FIELDS)
            + ";"
            + ",".join(f"{ckey(k)}={cval(v)}" for k, v in o._Repeater__attrs.items())
            + " |"
            for o in self.created
        )
        return f"D {d} |{recs}"

    def res(self, r, kind="") -> str:
        if kind == "attr":
            return "val:" + cval(r)
        if kind == "del":
            return "True" if r is True else "val:" + cval(r)
        if r is None:
            return "None"
        if isinstance(r, self.rmod.Repeater):
            return f"obj{self.index(r)}"
        return "val:" + cval(r)

    # one operation: op is a tuple; object references are creation indices (resolved by the caller)
    def apply(self, op):
        """returns (driver line, canonical result incl. len, raw result or exception)"""
        kind = op[0]
        st = self.storage
        pre = "pre-ok" if not violates_pre(self, op) else "pre-violated"
        try:
            if kind == "mi":
                _, a, auto, p = op
                line = f"mi {cval(a)} {int(auto)} {cpatch(p)}"
                r = st.match_incoming(a, auto, dict(p))
            elif kind == "save":
                _, ref, p = op
                line = f"save {'N' if ref is None else ref} {cpatch(p)}"
                r = st.save(None if ref is None else self.created[ref], dict(p))
            elif kind == "ma":
                _, name, v = op
                line = f"ma {name} {cval(v)}"
                r = st.match_attr(name, v)
            elif kind == "mip":
                _, ip = op
                line = f"mip {cps(ip) if ip else '-'}"
                r = st.match_ip_incoming(ip)
            elif kind == "mu":
                _, v = op
                line = f"mu {cval(v)}"
                r = st.match_uuid(v)
            elif kind == "attr":
                _, ref, k, v = op
                line = f"attr {ref} {ckey(k)} {cval(v)}"
                r = self.created[ref].attr(k, v)
            elif kind == "del":
                _, ref, k = op
                line = f"del {ref} {ckey(k)}"
                r = self.created[ref].delete_attr(k)
            elif kind == "patch":
                _, ref, p = op
                line = f"patch {ref} {cpatch(p)}"
                r = self.created[ref].patch(dict(p))
            else:
                raise AssertionError(kind)
            out = self.res(r, kind)
        except AssertionError:
            raise
        except BaseException as e:  # noqa: the real code's exception is an outcome
            r = e
            out = impl_error(e)
        return line, f"{out} {len(st)} {pre}", r


# ------------------------------------------------------------------------------------------------
# the property, evaluated on the real code


def patch_of(op):
    if op[0] == "mi":
        return op[3]
    if op[0] in ("save", "patch"):
        return op[2]
    return {}


def expected_after_patch(fields, attrs, p):
    """the property's reading of a patch: exactly the named data members / dynamic attributes change"""
    fields, attrs = dict(fields), dict(attrs)
    for k, v in p.items():
        if k in FIELDS:
            fields[k] = v
        elif v is not None:
            attrs[k] = v
    return fields, attrs


def fresh_fields(index, address):
    return {
        "id": _uuid.UUID(int=index),
        "address_in": address,
        "address_out": ("", 0),
        "address_nat": ("", 0),
        "snmp_enabled": True,
        "nat_enabled": False,
        "dmr_id": None,
        "callsign": "",
        "serial": "",
    }


class Oracle:
    """checks C20 as stated, on the real objects, while a history satisfying the preconditions runs"""

    def __init__(self, ctx, sut, history, watch_keys=()):
        self.ctx, self.sut, self.history = ctx, sut, history
        self.last_for_addr = {}  # address -> (object, id) returned by match_incoming since the last address_in assignment
        self.n = 0
        # what attr(key) has to answer, per created object, from the operations alone (public API only);
        # `watch` = the keys read back after every operation: every key used so far plus the given siblings
        self.exp_attrs = []
        self.watch = list(watch_keys)

    def fail(self, kind, what, expected=None, actual=None):
        self.ctx.count(f"oracle-failure:{kind}")
        if len(self.ctx.failures) < 200:  # keep the first (shortest) ones, count the rest
            self.ctx.fail(kind, {"history": self.history[: self.n + 1], "stream": "ok"}, what, expected=expected, actual=actual)

    def before(self, op):
        sut = self.sut
        self.len0 = len(sut.storage)
        self.snap0 = sut.snapshot()
        self.created0 = len(sut.created)
        self.all0 = sut.storage.all()
        if op[0] == "mi":
            # independent of match_attr: is there a stored record with this incoming address?
            self.seen = [o for o in self.all0 if o.address_in == op[1]]

    def after(self, op, raw):
        sut = self.sut
        raised = isinstance(raw, BaseException)
        all1 = sut.storage.all()
        # ---- never two records with the same id; the same object is not stored twice
        ids = [o.id for o in all1]
        if len(set(ids)) != len(ids):
            self.fail("duplicate-id", "two stored records have the same id", actual=[cval(i) for i in ids])
        if len({id(o) for o in all1}) != len(all1):
            self.fail("object-stored-twice", "one repeater object is stored under two keys")
        # ---- a record is created only by an auto-creating lookup of an unseen address
        creates = op[0] == "mi" and op[2] and not self.seen
        exp_len = self.len0 + (1 if creates else 0)
        if len(sut.storage) != exp_len:
            kind = "lookup-grew-storage" if not (op[0] == "mi" and op[2]) else "creation-rule"
            self.fail(kind, f"len(storage) after {op[0]} is {len(sut.storage)}", expected=exp_len, actual=len(sut.storage))
        if len(sut.created) != self.created0 + (1 if creates else 0):
            self.fail("creation-rule", "an object unknown to the harness was returned / no object was created", expected=self.created0 + (1 if creates else 0), actual=len(sut.created))
        # ---- lookups: what is returned
        target = None
        if op[0] == "mi":
            if self.seen:
                if raised or raw is not self.seen[0]:
                    self.fail("wrong-record", "match_incoming of a stored address does not return that record", expected=f"obj{sut.index(self.seen[0])}", actual=sut.res(raw) if not raised else impl_error(raw))
                target = self.seen[0]
            elif op[2]:
                if raised or sut.index(raw) != self.created0:
                    self.fail("creation-rule", "auto-creating lookup of an unseen address did not return a new record")
                else:
                    target = raw
                    # what "a record is created" means: constructor defaults, the id of the oracle, this address
                    self.snap0.append((fresh_fields(self.created0, op[1]), {}))
            else:
                okres = (raw is None) if not op[3] else (raised and type(raw).__name__ == "AttributeError")
                if not okres:
                    self.fail("wrong-record", "lookup of an unseen address without auto-create returned something", expected="None / AttributeError with a patch", actual=str(raw))
            # same address -> same object, same id (no address_in assignment in between)
            if target is not None:
                prev = self.last_for_addr.get(op[1])
                if prev is not None and (prev[0] is not target or prev[1] != target.id):
                    self.fail("identity-changed", "two lookups of the same incoming address returned different objects / ids", expected=f"obj{sut.index(prev[0])} {cval(prev[1])}", actual=f"obj{sut.index(target)} {cval(target.id)}")
        elif op[0] in ("save", "patch", "attr", "del"):
            if op[1] is not None:
                target = sut.created[op[1]]
        # ---- a patch changes exactly the named members/attributes of the matched record, nothing else
        snap1 = sut.snapshot()
        exp = [(dict(f), dict(a)) for f, a in self.snap0]
        if not raised and target is not None:
            ti = sut.index(target)
            p = patch_of(op)
            if p:
                exp[ti] = expected_after_patch(*exp[ti], p)
            elif op[0] == "attr" and op[3] is not None:
                exp[ti][1][op[2]] = op[3]
            elif op[0] == "del":
                exp[ti][1].pop(op[2], None)
        if snap1 != exp:
            diff = [i for i in range(max(len(snap1), len(exp))) if i >= len(snap1) or i >= len(exp) or snap1[i] != exp[i]]
            self.fail("patch-not-local", f"{op[0]}: records {diff} differ from 'exactly the named fields of the matched record changed'", expected=str([exp[i] for i in diff if i < len(exp)])[:400], actual=str([snap1[i] for i in diff if i < len(snap1)])[:400])
        # ---- the same through the public API: attr(key) of every record for every key in play
        while len(self.exp_attrs) < len(sut.created):
            self.exp_attrs.append({})
        if not raised and target is not None:
            ti = sut.index(target)
            p = patch_of(op)
            for k, v in p.items():
                if k not in FIELDS:
                    if k not in self.watch:
                        self.watch.append(k)
                    if v is not None:
                        self.exp_attrs[ti][k] = v
            if op[0] == "attr":
                if op[2] not in self.watch:
                    self.watch.append(op[2])
                if op[3] is not None:
                    self.exp_attrs[ti][op[2]] = op[3]
            elif op[0] == "del":
                self.exp_attrs[ti].pop(op[2], None)
        for i, o in enumerate(sut.created):
            for k in self.watch:
                got = o.attr(k)
                want = self.exp_attrs[i].get(k)
                if got != want or (got is None) != (want is None):
                    self.fail("attribute-readback", f"attr({k!r}) of record {i} after {op[0]}: another key / record changed it or the write was lost", expected=str(want), actual=str(got))
        # ---- bookkeeping for the identity check
        if "address_in" in patch_of(op) and not raised:
            self.last_for_addr = {}
        elif op[0] == "mi" and target is not None:
            self.last_for_addr[op[1]] = (target, target.id)
        self.n += 1


# ------------------------------------------------------------------------------------------------
# generators

A0, A1, A2, A3 = ("10.0.0.1", 50000), ("10.0.0.1", 50001), ("10.0.0.2", 50000), ("x", 7)


def alphabets(ctx):
    """small operation pools for the exhaustive part; references are creation indices, an operation
    whose reference does not exist yet makes the sequence inapplicable (skipped, counted)"""
    return {
        "identity": [
            ("mi", A0, True, {}),
            ("mi", A0, False, {}),
            ("mi", A1, True, {"dmr_id": 7}),
            ("mi", A1, False, {"k": 1}),
            ("mip", "10.0.0.1"),
            ("ma", "address_in", A1),
            ("mu", _uuid.UUID(int=0)),
            ("save", 0, {"callsign": "AB"}),
        ],
        "patching": [
            ("mi", A0, True, {"k": 1, "m": None, "callsign": "C"}),
            ("mi", A1, True, {}),
            ("save", 1, {"k": 2, "dmr_id": None}),
            ("patch", 0, {"address_out": A2, "m": "x"}),
            ("attr", 0, "k", None),
            ("attr", 1, "k", 5),
            ("del", 0, "k"),
            ("save", None, {"k": 1}),
        ],
        "moving": [
            ("mi", A0, True, {}),
            ("mi", A2, True, {}),
            ("patch", 0, {"address_in": A1}),  # guarded: only applied where no other record holds A1
            ("mi", A1, True, {"snmp_enabled": False}),
            ("mi", A0, False, {"address_in": A3}),
            ("mip", "10.0.0.2"),
            ("ma", "snmp_enabled", 1),
            ("ma", "nope", 1),
        ],
        "errors": [
            ("mi", A0, True, {}),
            ("mi", A1, False, {"k": 1}),
            ("mu", _uuid.UUID(int=1)),
            ("del", 0, "k"),
            ("attr", 0, "k", "v"),
            ("save", None, {}),
            ("ma", "dmr_id", None),
            ("mip", ""),
        ],
    }


CROSS_ALPHABET = [
    ("mi", A0, True, {}),
    ("mi", A1, True, {"id": _uuid.UUID(int=0)}),  # assigns id (excluded point 1)
    ("patch", 0, {"id": 5}),
    ("save", 0, {"k": 1}),
    ("save", 1, {"address_in": A0}),  # address another record holds (excluded point 2)
    ("patch", 0, {"address_in": "xy"}),  # not a tuple: match_ip_incoming subscripts it
    ("patch", 0, {"address_in": 5}),
    ("mip", "x"),
    ("mi", A0, False, {"k": 2}),
    ("mu", _uuid.UUID(int=0)),
]


def violates_pre(sut, op):
    """the two preconditions of the theorems (DESIGN §5 C20), evaluated on the real state"""
    p = patch_of(op)
    if op[0] == "save" and op[1] is None:
        return False  # nothing is patched: raises (non-empty patch) or returns None
    if "id" in p:
        return True
    if "address_in" in p:
        if op[0] == "mi":
            tgt = [o for o in sut.storage.all() if o.address_in == op[1]][:1]
        else:
            tgt = [sut.created[op[1]]] if op[1] is not None and op[1] < len(sut.created) else []
        for o in sut.storage.all():
            if (not tgt or o is not tgt[0]) and o.address_in == p["address_in"]:
                return True
    return False


def resolve(sut, op):
    """object references of the pools are creation indices; a reference beyond the objects created so far
    denotes the youngest object; with no object at all the operation (hence the sequence) is inapplicable"""
    if op[0] in ("save", "attr", "del", "patch") and op[1] is not None:
        if not sut.created:
            return None
        if op[1] >= len(sut.created):
            return (op[0], len(sut.created) - 1) + tuple(op[2:])
    return op


def run_sequence(ctx, ops, pairs, stream, dump_every=0, watch=()):
    """runs one history on a fresh storage; returns False if it was inapplicable / left the preconditions"""
    sut = Sut()
    try:
        history = []
        oracle = Oracle(ctx, sut, history, watch) if stream == "ok" else None
        local = [("reset", "ok")]
        for n, op in enumerate(ops):
            op = resolve(sut, op)
            if op is None:
                return False
            if stream == "ok" and violates_pre(sut, op):
                return False
            history.append(op_json(op))
            if oracle:
                oracle.before(op)
            line, out, raw = sut.apply(op)
            local.append((line, out))
            ctx.count(f"op:{op[0]}")
            if isinstance(raw, BaseException):
                ctx.count(f"outcome:{type(raw).__name__}")
            if oracle:
                oracle.after(op, raw)
            else:
                # excluded points: the dictionary keys stay unique and every stored object is known
                keys = [k for k, _ in sut.dict_items()]
                if len(set(keys)) != len(keys):
                    ctx.fail("duplicate-key", {"history": history, "stream": stream}, "dictionary holds one key twice")
                if isinstance(raw, BaseException) and type(raw).__name__ not in ("AttributeError", "KeyError", "SystemError", "TypeError", "IndexError"):
                    ctx.fail("unexpected-exception", {"history": history, "stream": stream}, f"{op[0]} raised {type(raw).__name__}")
            if dump_every and (n + 1) % dump_every == 0:
                local.append(("dump", sut.dump()))
        local.append(("dump", sut.dump()))
        pairs.extend(local)
        return True
    finally:
        sut.close()


def op_json(op):
    def j(x):
        if isinstance(x, _uuid.UUID):
            return {"uuid": x.int}
        if isinstance(x, tuple):
            return {"addr": list(x)}
        if isinstance(x, dict):
            return {"patch": [[k, j(v)] for k, v in x.items()]}
        return x

    return [j(x) for x in op]


def op_unjson(o):
    def u(x):
        if isinstance(x, dict) and "uuid" in x:
            return _uuid.UUID(int=x["uuid"])
        if isinstance(x, dict) and "addr" in x:
            return tuple(x["addr"])
        if isinstance(x, dict) and "patch" in x:
            return {k: u(v) for k, v in x["patch"]}
        return x

    return tuple(u(x) for x in o)


# attribute keys that are different names but become equal under some plausible normalisation (suffix / character
# set stripping, case folding, whitespace, Unicode normalisation, prefix matching, numeric reading): a patch naming
# one of them must not touch the others
KEY_FAMILIES = [
    ["k.10.0", "k.1.0", "k.1", "k.10", "k.100.0", "k", "k.0", "k.", "k.00"],  # SNMP-like instance suffixes
    ["1.3.6.1.4.1.40297.1.2.4.10.0", "1.3.6.1.4.1.40297.1.2.4.1.0", "1.3.6.1.4.1.40297.1.2.4.1", "1.3.6.1.4.1.40297.1.2.1.2.10.0", "1.3.6.1.4.1.40297.1.2.1.2.1.0"],
    ["rx_freq", "RX_FREQ", "Rx_Freq", "rx-freq", "rxfreq", "rx_freq ", " rx_freq", "rx_freq\t", "rx_freq\n"],  # case / separators / whitespace
    ["key", "key2", "ke", "keykey", "key_", "_key", "__key", "key__", "_Repeater__key"],  # prefixes, name mangling look-alikes
    ["\u00e9", "e\u0301", "E\u0301", "\u00c9", "e", "\uff4b", "k\u200b", "\u212a"],  # NFC/NFD, width, zero width, Kelvin sign
    ["0", "00", "0.0", ".0", "+0", "-0", "0x0", "", "None", "False"],  # numeric / empty / literal look-alikes
    ["a=b", "a,b", "a b", "a%3Db", "a;b", "a|b", "a\\b", "a/b"],  # separators of the harness' own line protocol
]


def random_op(rng, sut, stream):
    addrs = [A0, A1, A2, A3, ("10.0.0.3", 1)]
    vals = [None, 0, 1, 7, True, False, "", "AB", "x", A0, A2, ("", 0), 2**70, "v" * 300]
    dyn = ["k", "m", "p2p_is_registered", "rx_freq"]
    if rng.random() < 0.35:
        dyn = rng.choice(KEY_FAMILIES)
    fields = FIELDS[1:] if stream == "ok" else FIELDS

    def patch():
        n = rng.choice([0, 0, 1, 1, 2, 3])
        p = {}
        for _ in range(n):
            if rng.random() < 0.5:
                k = rng.choice(fields)
                if k == "address_in":
                    v = rng.choice(addrs + ([5, "xy", "", None] if stream != "ok" else [("10.0.0.9", rng.randrange(4))]))
                elif k == "id":
                    v = rng.choice([_uuid.UUID(int=rng.randrange(4)), 5, None])
                else:
                    v = rng.choice(vals)
            else:
                k, v = rng.choice(dyn), rng.choice(vals)
            p[k] = v
        return p

    nobj = len(sut.created)
    ref = rng.randrange(nobj) if nobj else None
    c = rng.randrange(100)
    if c < 30 or ref is None:
        return ("mi", rng.choice(addrs), rng.random() < 0.5, patch())
    if c < 40:
        return ("save", rng.choice([ref, ref, None]), patch())
    if c < 50:
        name = rng.choice(FIELDS + ["nope"])
        if name == "id":
            v = _uuid.UUID(int=rng.randrange(nobj + 2))
        elif name.startswith("address"):
            v = rng.choice(addrs + [("", 0)])
        else:
            v = rng.choice(vals)
        return ("ma", name, v)
    if c < 58:
        return ("mip", rng.choice(["10.0.0.1", "10.0.0.2", "x", "", "10.0.0.9"]))
    if c < 66:
        return ("mu", _uuid.UUID(int=rng.randrange(nobj + 2)) if rng.random() < 0.9 else rng.choice([5, None]))
    if c < 78:
        return ("attr", ref, rng.choice(dyn), rng.choice(vals))
    if c < 86:
        return ("del", ref, rng.choice(dyn))
    return ("patch", ref, patch())


def run_keys(ctx, family, pairs):
    """one record (and a bystander) over a family of look-alike keys: every key gets its own value through one of the
    four write paths, then keys are re-patched, set to None and deleted one by one; attr() of every key of the family
    (and of the bystander) is read back after every operation"""
    rng = ctx.rng
    ops = [("mi", A0, True, {}), ("mi", A1, True, {})]
    ways = ["mi", "save", "patch", "attr"]
    order = list(family)
    rng.shuffle(order)
    for n, k in enumerate(order):
        v = rng.choice([n + 1, f"v{n}", (f"10.9.{n}.1", n)])
        w = ways[(n + rng.randrange(4)) % 4]
        ops.append({"mi": ("mi", A0, False, {k: v}), "save": ("save", 0, {k: v}), "patch": ("patch", 0, {k: v}), "attr": ("attr", 0, k, v)}[w])
    for n, k in enumerate(order):
        c = (n + rng.randrange(3)) % 3
        ops.append([("patch", 0, {k: f"second{n}"}), ("del", 0, k), ("save", 0, {k: None, "other": n})][c])
        if n % 3 == 0:
            ops.append(("del", 1, k))  # the bystander never had it: KeyError, nothing changes
    ok = run_sequence(ctx, ops, pairs, "ok", watch=family)
    assert ok
    ctx.count("keys:families")
    ctx.count("keys:operations", len(ops))


def address_no(i):
    return (f"10.{(i >> 16) & 255}.{(i >> 8) & 255}.{i & 255}", 30000 + (i % 1000))


def run_scale(ctx, n_records, pairs, flush):
    """many records: n_records auto-creating lookups of pairwise distinct addresses (most of them never identified,
    some patched), then every kind of lookup for old / middle / new addresses.  Internal thresholds (caches, bounded
    tables, resizing) show up as a wrong len(storage), a lost record or a changed identity."""
    sut = Sut()
    rng = ctx.rng
    try:
        local = [("reset", "ok")]
        objs = []

        def fail(kind, what, i, expected=None, actual=None):
            ctx.count(f"oracle-failure:{kind}")
            if len(ctx.failures) < 200:
                ctx.fail(kind, {"scale": n_records, "at": i, "stream": "scale"}, what, expected=expected, actual=actual)

        def do(op):
            line, out, raw = sut.apply(op)
            local.append((line, out))
            return raw

        for i in range(n_records):
            p = {}
            if i % 7 == 3:
                p = {"dmr_id": 1000 + i}
            elif i % 5 == 1:
                p = {"k": i}
            raw = do(("mi", address_no(i), True, p))
            if isinstance(raw, BaseException) or any(raw is o for o in objs[-3:]) or sut.index(raw) != i:
                fail("creation-rule", "auto-creating lookup of an unseen address did not return a new record", i)
                return
            objs.append(raw)
            if len(sut.storage) != i + 1:
                fail("creation-rule", f"len(storage) after {i + 1} creating lookups of distinct addresses", i, expected=i + 1, actual=len(sut.storage))
                return
            if i % 97 == 0 and i:
                j = rng.randrange(i)
                r = do(("mi", address_no(j), False, {}))
                if r is not objs[j]:
                    fail("identity-changed", f"lookup of address #{j} after {i + 1} records returned another object / None", i, expected=f"obj{j}", actual=sut.res(r) if not isinstance(r, BaseException) else impl_error(r))
                    return
        ctx.count("scale:records", n_records)
        probe = sorted(set(list(range(0, 25)) + [rng.randrange(n_records) for _ in range(40)] + list(range(n_records - 10, n_records))))
        for j in probe:
            for op in (("mi", address_no(j), rng.random() < 0.5, {}), ("mu", _uuid.UUID(int=j)), ("ma", "address_in", address_no(j))):
                r = do(op)
                if r is not objs[j]:
                    fail("identity-changed", f"{op[0]} for record #{j} of {n_records} returned another object / None / raised", j, expected=f"obj{j}", actual=sut.res(r) if not isinstance(r, BaseException) else impl_error(r))
            if len(sut.storage) != n_records:
                fail("lookup-grew-storage", "len(storage) changed during lookups of stored addresses", j, expected=n_records, actual=len(sut.storage))
                return
            want = j if j % 5 == 1 and j % 7 != 3 else None
            got = objs[j].attr("k")
            if got != want:
                fail("attribute-readback", f"attr('k') of record #{j}", j, expected=want, actual=got)
            if objs[j].id != _uuid.UUID(int=j):
                fail("identity-changed", f"id of record #{j} changed", j)
        ids = [o.id for o in sut.storage.all()]
        if len(set(ids)) != len(ids):
            fail("duplicate-id", "two stored records have the same id", n_records)
        local.append(("dump", sut.dump()))
        pairs.extend(local)
        flush("storage.scale")
        ctx.case(("scale", n_records), sample={"stream": "scale", "records": n_records})
    finally:
        sut.close()


def run_wide(ctx, pairs):
    """one record with many attributes / long patches / long histories (sibling of the scale stream)"""
    nkeys = 300
    big = {f"attr{n:03d}": n for n in range(nkeys)}
    ops = [("mi", A0, True, {}), ("mi", A1, True, dict(big)), ("patch", 0, {f"attr{n:03d}": -0 + n * 2 for n in range(0, nkeys, 2)})]
    ops += [("attr", 0, f"attr{n:03d}", f"s{n}") for n in range(1, nkeys, 17)]
    ops += [("del", 1, f"attr{n:03d}") for n in range(0, nkeys, 13)]
    ops += [("save", 1, {"callsign": "C" * 5000, "serial": "S", "wide": 2**200})]
    for n in range(400):
        ops.append(("patch", n % 2, {"counter": n}))
    ok = run_sequence(ctx, ops, pairs, "ok", watch=["attr000", "attr001", "attr013", "attr299", "counter", "wide"])
    assert ok
    ctx.count("wide:operations", len(ops))
    ctx.case(("wide", nkeys))


def run_random(ctx, length, pairs, stream):
    sut = Sut()
    try:
        history = []
        oracle = Oracle(ctx, sut, history) if stream == "ok" else None
        local = [("reset", "ok")]
        n = 0
        while n < length:
            op = random_op(ctx.rng, sut, stream)
            if stream == "ok" and violates_pre(sut, op):
                continue
            history.append(op_json(op))
            if oracle:
                oracle.before(op)
            line, out, raw = sut.apply(op)
            local.append((line, out))
            ctx.count(f"op:{op[0]}")
            if isinstance(raw, BaseException):
                ctx.count(f"outcome:{type(raw).__name__}")
            if oracle:
                oracle.after(op, raw)
            else:
                keys = [k for k, _ in sut.dict_items()]
                if len(set(keys)) != len(keys):
                    ctx.fail("duplicate-key", {"history": history, "stream": stream}, "dictionary holds one key twice")
            n += 1
            if n % 25 == 0:
                local.append(("dump", sut.dump()))
        local.append(("dump", sut.dump()))
        pairs.extend(local)
        ctx.case(("random", stream, tuple(map(str, history))), sample={"stream": stream, "length": length, "first_ops": history[:4], "len": len(sut.storage)} if length > 20 else None)
    finally:
        sut.close()


# historically interesting inputs first (none of them fails on the unchanged tree)
CORPUS = [
    # two peers sharing an IP: distinct records, the IP lookup returns the first
    [("mi", A0, True, {}), ("mi", A1, True, {}), ("mip", "10.0.0.1"), ("mi", A0, False, {}), ("mi", A1, False, {"k": 1})],
    # a patch through match_incoming of a missing record raises and leaves everything alone
    [("mi", A0, True, {}), ("mi", A1, False, {"k": 1}), ("mi", A1, False, {})],
    # None values: data member set to None, dynamic attribute skipped
    [("mi", A0, True, {"dmr_id": None, "k": None}), ("attr", 0, "k", None), ("del", 0, "k")],
    # moving a record to an unheld address, then re-creating the old one
    [("mi", A0, True, {}), ("patch", 0, {"address_in": A1}), ("mi", A0, True, {}), ("mi", A1, False, {})],
]


def flush(ctx, component, pairs):
    if pairs and not ctx.search_only and ctx.driver_ok:
        ctx.correspond(component, pairs)
    pairs.clear()


def run(ctx):
    import logging

    logging.disable(logging.CRITICAL)  # the storage logs a critical line per duplicate match
    try:
        _run(ctx)
    finally:
        logging.disable(logging.NOTSET)


def _run(ctx):
    ctx.rule = (
        "histories of the eight storage operations on a fresh RepeaterStorage: a corpus, every sequence up to "
        "length 5 (quick) / 6 (thorough) over four pools of 8 operations (3 addresses, two sharing an IP; patches with "
        "data members, dynamic attributes and None values; error outcomes), random histories up to length 300 over a "
        "larger pool (incl. families of look-alike attribute keys); a key stream (7 families of names that collide under "
        "suffix/character stripping, case folding, whitespace, Unicode normalisation, prefixes, numeric reading: every key written "
        "through all four write paths, re-patched, deleted, all read back through attr() after every operation); a scale stream "
        "(300 / 1100 records in quick, up to 4200 in thorough: len, identity, ids and attributes of old / middle / new records; "
        "one record with 300 attributes, long values and 400 successive patches); stream 'ok' respects the two preconditions of the theorems (no patch assigns id; address_in is "
        "only assigned a value no other record holds) and is checked against the property as stated, stream 'cross' "
        "crosses them and is checked for model = code and unique dictionary keys. A history is distinct by its "
        "operation list; non-trivial = at least one record exists"
    )
    ctx.trusted_base += [
        "Lean 4.33 kernel",
        "tools/extract_storage.py (data member names and constructor defaults of Repeater read from /repo)",
        "hand-written model of RepeaterStorage / Repeater (Model/Storage.lean) tied to the code by this run's correspondence",
        "uuid.uuid4 replaced by a counter: freshness of real UUIDs is assumed, not proved",
        "Python dict semantics (insertion order, update in place) as modelled by dictSet/dictGet/dictDel",
    ]
    ctx.assumptions += [
        "A1: patch keys and match_attr names are data member names of Repeater or names that are no attribute of it at all "
        "(a key such as 'attr', 'patch', 'logger' or '__class__' would overwrite a method/member by setattr)",
        "A2: values are None, ints/bools, strings, (str,int) tuples, UUIDs (== is structural on them; bool is int)",
        "A3: save/attr/delete_attr/patch are applied to objects obtained from the storage (as the protocol handlers do) or, for save, None",
        "P1/P2 (theorem hypotheses, stream 'ok'): no patch assigns id; address_in is only assigned a value no other stored record holds",
    ]
    pairs = []
    # ---- corpus
    for seq in CORPUS:
        ok = run_sequence(ctx, seq, pairs, "ok")
        ctx.case(("corpus", str(seq)))
        assert ok, "corpus sequence left the preconditions"
    flush(ctx, "storage.corpus", pairs)
    # ---- look-alike keys: names that collide under some normalisation must stay separate attributes
    for rep in range(2 if not ctx.thorough() else 6):
        for fam in KEY_FAMILIES:
            run_keys(ctx, fam, pairs)
            ctx.case(("keys", rep, fam[0]))
    flush(ctx, "storage.keys", pairs)
    # ---- scale: internal thresholds (bounded tables, caches) only show with many records / attributes
    run_wide(ctx, pairs)
    flush(ctx, "storage.wide", pairs)
    for n_records in ([300, 1100] if not ctx.thorough() else [300, 1100, 2100, 4200]):
        run_scale(ctx, n_records + ctx.seed % 7, pairs, lambda comp: flush(ctx, comp, pairs))
    # ---- exhaustive short histories
    maxlen = 6 if ctx.thorough() else 5
    if ctx.boost > 1:
        maxlen = 6
    for name, alpha in alphabets(ctx).items():
        done = skipped = 0
        for L in range(1, maxlen + 1):
            for seq in itertools.product(range(len(alpha)), repeat=L):
                ops = [alpha[i] for i in seq]
                if run_sequence(ctx, ops, pairs, "ok"):
                    done += 1
                    ctx.case((name, seq), nontrivial=any(o[0] == "mi" and o[2] for o in ops), sample={"pool": name, "ops": [op_json(o) for o in ops]} if seq == (0, 2, 3, 4) else None)
                else:
                    skipped += 1
                if len(pairs) > 200000:
                    flush(ctx, f"storage.exhaustive.{name}", pairs)
        flush(ctx, f"storage.exhaustive.{name}", pairs)
        ctx.count(f"exhaustive:{name}:run", done)
        ctx.count(f"exhaustive:{name}:inapplicable-or-outside-preconditions", skipped)
    # ---- excluded points: model = code, dictionary keys unique
    crosslen = 5 if ctx.thorough() else 4
    done = 0
    for L in range(1, crosslen + 1):
        for seq in itertools.product(range(len(CROSS_ALPHABET)), repeat=L):
            ops = [CROSS_ALPHABET[i] for i in seq]
            if run_sequence(ctx, ops, pairs, "cross"):
                done += 1
                ctx.case(("cross", seq))
            if len(pairs) > 200000:
                flush(ctx, "storage.excluded-points", pairs)
    flush(ctx, "storage.excluded-points", pairs)
    ctx.count("exhaustive:cross:run", done)
    # ---- random histories
    nrand = ctx.budget(500, 10000)
    for i in range(nrand):
        length = ctx.rng.choice([3, 8, 20, 60, 150, 300]) if i % 5 else 300
        run_random(ctx, length, pairs, "ok" if i % 4 else "cross")
        if len(pairs) > 200000:
            flush(ctx, "storage.random", pairs)
    flush(ctx, "storage.random", pairs)
    ctx.exhaustive = False


# ------------------------------------------------------------------------------------------------
def replay(obj):
    f = obj.get("failure") or {}
    inp = f.get("input") or {}
    print(json.dumps(obj.get("type")), f.get("what"))
    hist = [op_unjson(o) for o in inp.get("history", [])]
    if not hist:
        print("no history recorded (proof/correspondence record):", json.dumps(obj.get("no_longer_checks") or obj.get("correspondence_differences"))[:2000])
        return 1

    class C:  # minimal context collecting the oracle's verdicts
        failures = []

        def fail(self, kind, input, what, expected=None, actual=None):
            self.failures.append((kind, what, expected, actual))

        def count(self, *a):
            pass

    c = C()
    sut = Sut()
    lines = []
    try:
        oracle = Oracle(c, sut, [op_json(o) for o in hist]) if inp.get("stream") == "ok" else None
        for op in hist:
            if oracle:
                oracle.before(op)
            line, out, raw = sut.apply(op)
            lines.append(line)
            print(f"implementation  {line:60s} -> {out}")
            if oracle:
                oracle.after(op, raw)
        print("implementation  " + sut.dump())
    finally:
        sut.close()
    try:
        import os
        import subprocess

        from common import BIN

        exe = os.path.join(BIN, "drv_c20")
        out = subprocess.run([exe], input="\n".join(["reset"] + lines + ["dump"]) + "\n", capture_output=True, text=True).stdout.split("\n")
        for l, o in zip(lines + ["dump"], out[1:]):
            print(f"model           {l:60s} -> {o}")
    except Exception as e:  # noqa
        print("model driver not available:", e)
    for k in c.failures:
        print("property check:", k)
    print("expected:", f.get("expected"), "actual:", f.get("actual"))
    return 1 if c.failures or not oracle else 0
