"""C02 — BPTC(196,96): encode / decode round trip, repair transparency, every error of weight <= 2 repaired
(DESIGN §5 C02).  Theorems: lean/DmrVerif/Props/C02{,a,b,c}.lean; model: Model/Bptc.lean, and for
histories of calls (every entry point of the class, related inputs of both accepted lengths, objects
kept and overwritten by the caller — bit by bit or as a whole, in place, with contents RELATED to what
the object held before —, streaks of unrepairable frames / raising calls before a correctable frame)
Model/BptcHist.lean.  A fixed small sample of the histories runs again under other ambient states of
the interpreter (python -O child, DEBUG logging, failing sys.stdout, reseeded global random)."""
import contextlib
import io
import itertools
import json
import logging
import os
import queue
import random as _random
import subprocess
import sys
import threading
import types

import numpy
from bitarray import bitarray, frozenbitarray

from common import BIN, VERIF, bits_str, impl_error, sh

PROP = "C02"
MODULES = ["C02", "C02a", "C02b", "C02c"]
GEN = ["Codes", "Bptc"]
MATCHERS = {}

# The 616 double errors (on-air positions) that the repair loop mis-decoded before fix 23ad248 (column pass
# nested inside the row loop), obtained by simulating that old loop on the zero code word.  They stay in
# the corpus of every run so that a regression of the loop nest is re-reported with a concrete input.
OLD_NEST_PAIRS = """
2-24 2-53 2-75 2-82 2-104 2-111 2-133 2-140 2-162 3-25 3-54 3-83 3-105 3-112 3-134 3-141 3-163 3-192 4-26 4-62
4-84 4-113 4-135 4-142 4-164 4-171 4-193 5-27 5-34 5-63 5-85 5-92 5-114 5-165 5-172 5-194 6-35 6-57 6-64 6-86
6-93 6-115 6-122 6-173 6-195 7-36 7-58 7-87 7-94 7-116 7-123 7-145 7-152 7-174 10-39 10-68 10-90 10-97 10-119
10-126 10-148 10-177 10-184 11-18 11-40 11-47 11-69 11-98 11-127 11-149 11-178 11-185 12-19 12-41 12-48 12-70
12-77 12-99 12-128 12-150 12-157 12-179 12-186 13-20 13-42 13-49 13-71 13-78 13-100 13-107 13-129 13-158
13-180 14-21 14-43 14-50 14-72 14-79 14-108 14-130 14-137 14-159 17-39 17-68 17-90 17-97 17-119 17-126 17-148
17-155 17-177 18-40 18-69 18-98 18-120 18-127 18-149 18-156 18-178 19-41 19-77 19-99 19-128 19-150 19-157
19-179 19-186 20-42 20-49 20-78 20-100 20-107 20-129 20-180 20-187 21-50 21-72 21-79 21-101 21-108 21-130
21-137 21-188 24-53 24-75 24-104 24-111 24-133 24-140 24-162 24-169 24-191 25-54 25-83 25-105 25-112 25-134
25-141 25-163 25-192 26-33 26-55 26-62 26-84 26-113 26-142 26-164 26-193 27-34 27-56 27-63 27-85 27-92 27-114
27-143 27-165 27-172 27-194 28-35 28-57 28-64 28-86 28-93 28-115 28-122 28-144 28-173 28-195 29-36 29-58 29-65
29-87 29-94 29-123 29-145 29-152 29-174 32-54 32-83 32-105 32-112 32-134 32-141 32-163 32-170 32-192 33-55
33-84 33-113 33-135 33-142 33-164 33-171 33-193 34-56 34-92 34-114 34-143 34-165 34-172 34-194 35-57 35-64
35-93 35-115 35-122 35-144 35-195 36-65 36-87 36-94 36-116 36-123 36-145 36-152 39-68 39-90 39-119 39-126
39-148 39-155 39-177 39-184 40-69 40-98 40-120 40-127 40-149 40-156 40-178 41-48 41-70 41-77 41-99 41-128
41-157 41-179 42-49 42-71 42-78 42-100 42-107 42-129 42-158 42-180 42-187 43-50 43-72 43-79 43-101 43-108
43-130 43-137 43-159 43-188 47-69 47-98 47-120 47-127 47-149 47-156 47-178 47-185 48-70 48-99 48-128 48-150
48-157 48-179 48-186 49-71 49-107 49-129 49-158 49-180 49-187 50-72 50-79 50-108 50-130 50-137 50-159 53-82
53-104 53-133 53-140 53-162 53-169 53-191 54-83 54-105 54-134 54-141 54-163 54-170 54-192 55-84 55-113 55-135
55-142 55-164 55-171 55-193 56-63 56-85 56-92 56-114 56-143 56-172 56-194 57-64 57-86 57-93 57-115 57-122
57-144 57-173 57-195 58-65 58-87 58-94 58-116 58-123 58-145 58-152 58-174 62-84 62-113 62-135 62-142 62-164
62-171 62-193 63-85 63-114 63-143 63-165 63-172 63-194 64-86 64-122 64-144 64-173 64-195 65-87 65-94 65-123
65-145 65-152 65-174 68-97 68-119 68-148 68-155 68-177 68-184 69-98 69-120 69-149 69-156 69-178 69-185 70-99
70-128 70-150 70-157 70-179 70-186 71-78 71-100 71-107 71-129 71-158 71-187 72-79 72-101 72-108 72-130 72-137
72-159 72-188 75-82 75-104 75-111 75-133 75-140 75-169 75-191 77-99 77-128 77-150 77-157 77-179 77-186 78-100
78-129 78-158 78-180 78-187 79-101 79-137 79-159 79-188 82-111 82-133 82-140 82-162 82-169 82-191 83-112
83-134 83-163 83-170 83-192 84-113 84-135 84-164 84-171 84-193 85-114 85-143 85-165 85-172 85-194 86-93 86-115
86-122 86-144 86-173 87-94 87-116 87-123 87-145 87-152 87-174 90-97 90-119 90-126 90-148 90-155 90-184 92-114
92-143 92-165 92-172 92-194 93-115 93-144 93-173 93-195 94-116 94-152 94-174 97-126 97-148 97-155 97-177
97-184 98-127 98-149 98-178 98-185 99-128 99-150 99-179 99-186 100-129 100-158 100-180 100-187 101-108 101-130
101-137 101-159 101-188 104-111 104-133 104-140 104-162 104-169 104-191 105-112 105-134 105-141 105-163
105-170 107-129 107-158 107-180 107-187 108-130 108-159 108-188 111-133 111-140 111-169 111-191 112-141
112-163 112-170 112-192 113-142 113-164 113-193 114-143 114-165 114-194 115-144 115-173 115-195 116-123
116-145 116-152 116-174 119-126 119-148 119-155 119-177 119-184 120-127 120-149 120-156 120-178 120-185
122-144 122-173 122-195 123-145 123-174 126-148 126-155 126-184 127-156 127-178 127-185 128-157 128-179
129-158 129-180 130-159 130-188 133-140 133-162 133-169 133-191 134-141 134-163 134-170 134-192 135-142
135-164 135-171 135-193 137-159 137-188 140-162 141-163 141-170 142-171 142-193 143-172 143-194 144-173
144-195 145-174 148-155 148-177 148-184 149-156 149-178 149-185 150-157 150-179 150-186 152-174 155-177
156-178 156-185 157-186 158-187 159-188 162-169 162-191 163-170 163-192 164-171 164-193 165-172 165-194
169-191 170-192 171-193 177-184 178-185 179-186 180-187
"""


def old_nest_pairs():
    return [tuple(int(x) for x in tok.split("-")) for tok in OLD_NEST_PAIRS.split()]


def bptc():
    from okdmr.dmrlib.etsi.fec.bptc_196_96 import BPTC19696

    return BPTC19696


class Background:
    """the model driver is a process of its own: batches of the correspondence are piped through it by ONE worker
    thread, in the order they were handed in, while this process goes on calling the real code; join() before the
    run returns (an infrastructure error of the driver is raised there)"""

    def __init__(self, ctx):
        self.ctx, self.q, self.err = ctx, queue.Queue(), None
        self.t = threading.Thread(target=self._work, daemon=True)
        self.t.start()

    def _work(self):
        while True:
            job = self.q.get()
            if job is None:
                return
            if self.err is None:
                try:
                    self.ctx.correspond(*job)
                except BaseException as e:  # noqa
                    self.err = e

    def submit(self, component, pairs):
        if pairs:
            self.q.put((component, pairs))

    def join(self):
        self.q.put(None)
        self.t.join()
        if self.err is not None:
            raise self.err


def call(fn, *a):
    """canonical observable of one call of the real code: bit string, or ERR <ClassName>"""
    try:
        r = fn(*a)
    except BaseException as e:  # noqa
        return impl_error(e)
    try:
        return bits_str(r)
    except Exception:  # noqa
        return "ERR not-a-bit-string"


def layout():
    """on-air position -> (row, column) of the 13x15 table (None for R(3)), read from the live table"""
    B = bptc()
    pos = {}
    for k, v in B.INTERLEAVING_INDICES.items():
        il, row, col = v[0], v[1], v[2]
        pos[il] = (row - 1, col) if row >= 1 else None
    by_rc = {rc: p for p, rc in pos.items() if rc is not None}
    return pos, by_rc


def flip(word: str, positions) -> str:
    w = bitarray(word)
    for p in positions:
        w.invert(p)
    return bits_str(w)


def xor_str(a: str, b: str) -> str:
    return bits_str(bitarray(a) ^ bitarray(b))


class Run:
    def __init__(self, ctx):
        self.ctx = ctx
        self.B = bptc()
        self.bg = Background(ctx)
        self.corr = {"encode": [], "data": [], "repair": []}
        self.enc_cache = {}
        self.enc_sent = 0
        self.enc_quiet = set()  # messages whose encode line is not sent to the model (the oracle sees them all)

    def encode(self, m: str, corr: bool = True) -> str:
        if m not in self.enc_cache:
            self.enc_cache[m] = call(self.B.encode, bitarray(m))
            if not corr:
                self.enc_quiet.add(m)
        return self.enc_cache[m]

    def check(self, m: str, positions, tag: str, corr_level: int = 2, sample=False, extra=None, enc_corr=True):
        """one (message, error pattern): oracle on the real code + lines for the correspondence.
        corr_level 0: oracle only, 1: repair line, 2: repair + data lines; extra: what else the record of a
        failing input says about how the input was built"""
        ctx, B = self.ctx, self.B
        positions = tuple(sorted(positions))
        wgt = len(positions)
        inp = {"message": m, "error_positions": list(positions)}
        if extra:
            inp.update(extra)
        c = self.encode(m, enc_corr)
        ctx.count(f"weight:{wgt}")
        ctx.count(f"shape:{tag}")
        if c.startswith("ERR") or len(c) != 196:
            ctx.case((m, positions))
            ctx.fail("encode", inp, "encode of a 96-bit message does not return 196 bits", expected="196 bits", actual=c[:40])
            return
        w = flip(c, positions)
        d1 = call(B.deinterleave_data_bits, bitarray(w), True)
        ctx.case((m, positions), nontrivial=True,
                 sample={"message": m, "error_positions": list(positions), "decoded_with_repair": d1} if sample else None)
        lines = self.corr
        if wgt <= 2:
            if d1 != m:
                ctx.fail("not-corrected" if wgt else "round-trip", inp,
                         f"decoder with repair does not return the message ({wgt} inverted bits)", expected=m, actual=d1)
        else:
            ctx.count("beyond-guarantee:decoded" if d1 == m else "beyond-guarantee:not-decoded")
        want_corr = corr_level > 0 and not ctx.search_only and ctx.driver_ok
        if wgt == 0 or want_corr:
            rp = call(B.repair_if_necessary, bitarray(w))
            if wgt == 0 and rp != c:
                ctx.fail("repair-alters-codeword", inp, "repair_if_necessary alters an error-free code word", expected=c, actual=rp)
            if want_corr:
                lines["repair"].append((f"bptc.repair {w}", rp))
        if wgt == 0 or (want_corr and corr_level > 1):
            d0 = call(B.deinterleave_data_bits, bitarray(w), False)
            if wgt == 0 and d0 != m:
                ctx.fail("round-trip", inp, "decoder without repair does not return the message", expected=m, actual=d0)
            if want_corr and corr_level > 1:
                lines["data"].append((f"bptc.data 1 {w}", d1))
                lines["data"].append((f"bptc.data 0 {w}", d0))

    def flush(self):
        ctx = self.ctx
        if ctx.search_only or not ctx.driver_ok:
            return
        items = list(self.enc_cache.items())
        enc = [(f"bptc.encode {m}", c) for m, c in items[self.enc_sent:] if m not in self.enc_quiet]
        self.enc_sent = len(items)
        for name, pairs in (("encode", enc + self.corr["encode"]), ("deinterleave_data_bits", self.corr["data"]),
                            ("repair_if_necessary", self.corr["repair"])):
            self.bg.submit(name, pairs)
        self.corr = {"encode": [], "data": [], "repair": []}


def rand_bits(rng, n: int) -> str:
    return "".join("1" if rng.getrandbits(1) else "0" for _ in range(n))


def patterns_for(rng, by_rc, n: int):
    """n error patterns of weight 0..4 for one message: (positions, tag).  Pairs are drawn from every
    structural class the repair treats differently (same row, same column, parity-on-parity corner,
    involving R(3) = on-air bit 0, unrelated)."""
    out = [((), "clean")]
    while len(out) < n:
        k = rng.random()
        if k < 0.22:
            out.append(((rng.randrange(196),), "single"))
        elif k < 0.34:
            r = rng.randrange(13)
            c1, c2 = rng.sample(range(15), 2)
            out.append(((by_rc[(r, c1)], by_rc[(r, c2)]), "pair-same-row"))
        elif k < 0.44:
            c = rng.randrange(15)
            r1, r2 = rng.sample(range(13), 2)
            out.append(((by_rc[(r1, c)], by_rc[(r2, c)]), "pair-same-column"))
        elif k < 0.50:
            a = by_rc[(rng.randrange(9, 13), rng.randrange(11, 15))]
            b = rng.choice([p for p in range(196) if p != a])
            out.append(((a, b), "pair-parity-corner"))
        elif k < 0.55:
            out.append(((0, rng.randrange(1, 196)), "pair-with-R3"))
        elif k < 0.72:
            out.append((tuple(rng.sample(range(196), 2)), "pair-random"))
        elif k < 0.86:
            out.append((tuple(rng.sample(range(196), 3)), "triple"))
        else:
            out.append((tuple(rng.sample(range(196), 4)), "quadruple"))
    return out


# ======================================================================================================
# Histories of calls (hardening).  The property is stated for a *function* of the message and of the
# received word: whatever the class was used for before must not matter, the objects it hands out belong
# to the caller, its arguments stay what they were.  A history is a list of steps (tuples of strings):
#
#   encode A | data R A | repair A | deint A | make | fill @t A      calls; each pushes exactly one handle
#   flip @k i | setall @k v                                           the caller overwrites a kept object
#   put @k A                                                          the caller overwrites a kept object IN PLACE with
#                                                                     the bits of A (buf[:] = … / buf.clear(); buf.extend(…))
#   new A                                                             a bitarray the caller made itself; pushes a handle
#   x NAME A                                                          a call outside the modelled domain (argument of a wrong
#                                                                     type, non-default mode; XCALLS) built from the bits A;
#                                                                     pushes an empty handle; compared with the same call on a
#                                                                     new copy of the class only (the model sees "nop+")
#   read @k | nop | nop+                                              (nop+ pushes an empty handle)
#
# A = B:0101… / L:0101… (a new bitarray in a big / little-endian container, "-" = empty), F:0101… (a
# frozenbitarray), R:0101… (a read-only bitarray over an imported bytes buffer when the length is a multiple
# of 8, else a frozenbitarray) or @k (the kept object itself).  A trailing token ?=0101… is what the property promises for that call (it is not sent
# to the model).  The same lines, prefixed "bh.", are the protocol of the stateful model
# (Model/BptcHist.lean: results are new objects, every call is the history-free function of its arguments).
# ======================================================================================================
CALL_OPS = {"encode": (1,), "data": (2,), "repair": (1,), "deint": (1,), "make": (), "fill": (1, 2)}
METHOD = {"encode": "encode", "data": "deinterleave_data_bits", "repair": "repair_if_necessary",
          "deint": "deinterleave_all_bits", "make": "make_encoding_table", "fill": "fill_encoding_table"}
WANT_KIND = {"encode": "encode", "repair": "repair-alters-codeword"}
PUSH_OPS = set(CALL_OPS) | {"new", "x"}
# calls outside the modelled domain: most raise; what matters is that they leave nothing behind
XCALLS = {
    "encode-none": lambda C, b: C.encode(None),
    "encode-str": lambda C, b: C.encode(b.to01()),
    "encode-bytes": lambda C, b: C.encode(b.tobytes()),
    "encode-list": lambda C, b: C.encode(b.tolist()),
    "encode-int": lambda C, b: C.encode(len(b)),
    "data-none": lambda C, b: C.deinterleave_data_bits(None),
    "data-str": lambda C, b: C.deinterleave_data_bits(b.to01()),
    "data-bytes": lambda C, b: C.deinterleave_data_bits(b.tobytes(), True),
    "data-list": lambda C, b: C.deinterleave_data_bits(b.tolist()),
    "data-array": lambda C, b: C.deinterleave_data_bits(numpy.array(b.tolist(), dtype=int)),
    "data-read-only-array": lambda C, b: C.deinterleave_data_bits(_read_only(numpy.array(b.tolist(), dtype=int))),
    "data-repair-none": lambda C, b: C.deinterleave_data_bits(b, None),
    "data-repair-str": lambda C, b: C.deinterleave_data_bits(b, "no"),
    "data-keywords": lambda C, b: C.deinterleave_data_bits(bits=b, repair_if_necessary=True),
    "repair-none": lambda C, b: C.repair_if_necessary(None),
    "repair-list": lambda C, b: C.repair_if_necessary(b.tolist()),
    "repair-str": lambda C, b: C.repair_if_necessary(b.to01()),
    "repair-deinterleaved": lambda C, b: C.repair_if_necessary(b, True),
    "repair-deinterleaved-of-deint": lambda C, b: C.repair_if_necessary(C.deinterleave_all_bits(b), deinterleaved=True),
    "deint-none": lambda C, b: C.deinterleave_all_bits(None),
    "deint-list": lambda C, b: C.deinterleave_all_bits(b.tolist()),
    "fill-none-table": lambda C, b: C.fill_encoding_table(None, b),
    "fill-list-table": lambda C, b: C.fill_encoding_table([[0] * 15 for _ in range(13)], b),
    "fill-small-table": lambda C, b: C.fill_encoding_table(numpy.zeros((3, 3), dtype=int), b),
    "fill-read-only-table": lambda C, b: C.fill_encoding_table(_read_only(numpy.zeros((13, 15), dtype=int)), b),
    "fill-bits-none": lambda C, b: C.fill_encoding_table(C.make_encoding_table(), None),
}


def _read_only(a):
    a.setflags(write=False)
    return a


def xcall(cls, name, bits):
    try:
        r = XCALLS[name](cls, bits)
    except BaseException as e:  # noqa
        return impl_error(e)
    try:
        if isinstance(r, (bitarray, numpy.ndarray)):
            return "value " + canon_obj(r)
        return "value " + type(r).__name__
    except Exception:  # noqa
        return "value ?"
_FRESH = {}


def fresh_class():
    """an independent copy of the class under test: the module source is executed again in a module object
    of its own, so the copy has its own globals and its own class-level state and nothing was ever called
    on it (the "first call" reference of the history probes).  None when that is not possible."""
    try:
        if "code" not in _FRESH:
            path = sys.modules[bptc().__module__].__file__
            with open(path, encoding="utf-8") as fh:
                _FRESH["code"] = compile(fh.read(), path, "exec")
            _FRESH["path"] = path
        mod = types.ModuleType("okdmr_bptc_196_96_new_copy")
        mod.__file__ = _FRESH["path"]
        exec(_FRESH["code"], mod.__dict__)
        return mod.BPTC19696
    except Exception:  # noqa
        return None


def canon_obj(o) -> str:
    """canonical content of an object the class handed out (bitarray, 13x15 table)"""
    if o is None:
        return "void"
    if isinstance(o, bitarray):
        return o.to01()
    if isinstance(o, numpy.ndarray):
        if o.shape != (13, 15):
            return "ERR shape-" + "x".join(map(str, o.shape))
        return "".join("0" if v == 0 else "1" if v == 1 else "?" for v in o.flatten().tolist())
    try:
        return bits_str(o)
    except Exception:  # noqa
        return "ERR not-a-bit-string"


def copy_obj(o):
    if isinstance(o, bitarray):
        return bitarray(o)  # keeps the bit order of the container
    if isinstance(o, numpy.ndarray):
        return o.copy()
    return o


def call_obj(cls, op, args):
    try:
        r = getattr(cls, METHOD[op])(*args)
    except BaseException as e:  # noqa
        return impl_error(e), None
    if r is None:
        return "ERR returned-None", None
    return canon_obj(r), r


def steps_str(steps):
    return [" ".join(s) for s in steps]


def steps_parse(lines):
    return [tuple(l.split(" ")) for l in lines]


class Hist:
    """one history executed on `cls`; `fresh` (a factory of new copies of the class) enables the comparison
    of every call with the same call made first on a new copy"""

    def __init__(self, cls, fresh=None):
        self.cls, self.fresh = cls, fresh
        self.steps, self.lines, self.bad, self.enc = [], [], [], []
        self.held, self.exp, self.owner, self.no_read = [], [], [], set()
        self.xouts = []  # results of the calls outside the modelled domain (x), in order
        self.stale = 0  # promises that did not apply to what the argument held when the call was made

    def _promise_applies(self, op, toks, content, want):
        """the property promises `want` for this call only if the argument holds a word within two inverted bits of
        encode(want) (decoder with repair), exactly encode(want) (without repair), exactly `want` (repair)"""
        if op == "repair":
            return content == want
        if op != "data" or len(content) != 196:
            return True
        F = (self.fresh() if self.fresh is not None else fresh_class()) or self.cls
        c = call(F.encode, bitarray(want))
        if len(c) != 196 or c.startswith("ERR"):
            return True
        d = sum(1 for a, b in zip(content, c) if a != b)
        return d <= 2 if toks[1] == "1" else d == 0

    def _arg(self, a: str):
        if a.startswith("@"):
            k = int(a[1:])
            return self.held[k] if k < len(self.held) else None
        e, s = a.split(":", 1)
        s = "" if s == "-" else s
        if e == "F" or (e == "R" and (len(s) % 8 or not s)):
            return frozenbitarray(s)
        if e == "R":
            return bitarray(buffer=bitarray(s, endian="big").tobytes(), endian="big")
        return bitarray(s, endian="little" if e == "L" else "big")

    def _push(self, i, obj, content):
        self.held.append(obj)
        self.exp.append(content)
        self.owner.append(i)

    def _touched(self, o):
        """the caller (or fill, its table) changed object o: every handle that is this object follows"""
        cur = canon_obj(o)
        for j, h in enumerate(self.held):
            if h is o:
                self.exp[j] = cur

    def run(self, steps):
        for st in steps:
            self.step(st)
        return self

    def step(self, st):
        st = tuple(st)
        i = len(self.steps)
        self.steps.append(st)
        toks = list(st)
        want = toks.pop()[2:] if toks[-1].startswith("?=") else None
        op = toks[0]
        if op in ("nop", "nop+"):
            out = "void"
            if op == "nop+":
                self._push(i, None, None)
        elif op == "new":
            o = self._arg(toks[1])
            out = "ok"
            self._push(i, o, canon_obj(o))
        elif op == "x":
            o = self._arg(toks[2])
            got = xcall(self.cls, toks[1], copy_obj(o)) if isinstance(o, bitarray) else "void"
            F = self.fresh() if self.fresh is not None and isinstance(o, bitarray) else None
            if F is not None:
                ref = xcall(F, toks[1], copy_obj(o))
                if ref != got:
                    self.bad.append(("history-dependent-result", i, f"the call {toks[1]} returns something else than the same call "
                                     "made first on a new copy of the class", ref, got))
            self._push(i, None, None)
            self.xouts.append(got)
            toks, out = ["nop+"], "void"
        elif op == "put":
            o, src = self._arg(toks[1]), self._arg(toks[2])
            if o is None or not isinstance(src, bitarray):
                out = "void"
            elif not isinstance(o, bitarray) and len(src) != 13 * 15:
                out = "void"
            else:
                out = "ok"
                try:
                    v = bitarray(src)
                    if not isinstance(o, bitarray):
                        o[:] = numpy.array(v.tolist(), dtype=int).reshape(13, 15)
                    elif i % 2:
                        o.clear()
                        o.extend(v)
                    else:
                        o[:] = v
                except Exception:  # noqa
                    out = "ERR cannot-overwrite"
                self._touched(o)
        elif op in ("flip", "setall", "read"):
            o = self._arg(toks[1])
            if o is None:
                out = "void"
            elif op == "read":
                out = canon_obj(o)
            else:
                v = int(toks[2])
                out = "ok"
                try:
                    if isinstance(o, bitarray):
                        if op == "setall":
                            o.setall(v)
                        elif v < len(o):
                            o.invert(v)
                    elif op == "setall":
                        o.fill(v)
                    elif v < o.size:
                        o[v // o.shape[1]][v % o.shape[1]] ^= 1
                except Exception:  # noqa  (an object of an unexpected kind was handed out; reported by the call that returned it)
                    out = "ERR cannot-overwrite"
                self._touched(o)
        else:
            objs = [self._arg(toks[p]) for p in CALL_OPS[op]]
            if any(o is None for o in objs):
                out = "void"
                self._push(i, None, None)
            else:
                flag = [toks[1] == "1"] if op == "data" else []
                before = [canon_obj(o) for o in objs]
                fargs = [copy_obj(o) for o in objs] + flag
                out, res = call_obj(self.cls, op, list(objs) + flag)
                F = self.fresh() if self.fresh is not None else None
                if F is not None:
                    ref, _ = call_obj(F, op, fargs)
                    if ref != out:
                        self.bad.append(("history-dependent-result", i,
                                         f"{METHOD[op]} returns something else than the same call with equal arguments made "
                                         "first on a new copy of the class", ref, out))
                for p, o in enumerate(objs):
                    cur = canon_obj(o)
                    if cur != before[p]:
                        if not (op == "fill" and p == 0):
                            self.bad.append(("argument-altered", i, f"{METHOD[op]} alters its argument", before[p], cur))
                        self._touched(o)
                if want is not None and out != want and not self._promise_applies(op, toks, before[0], want):
                    # the object no longer holds what the promise was made for (a reduced history dropped an overwrite)
                    self.stale += 1
                elif want is not None and out != want:
                    kind = WANT_KIND.get(op) or ("not-corrected" if op == "data" and toks[1] == "1" else "round-trip" if op == "data" else "wrong-result")
                    self.bad.append((kind, i, f"{METHOD[op]} does not return what the property promises for this call", want, out))
                err = out.startswith("ERR")
                self._push(i, None if err else res, None if err else out)
                if op == "fill":
                    self.no_read.add(len(self.held) - 1)
                if op == "encode" and len(before[0]) == 96:
                    self.enc.append((i, before[0], out))
        self.lines.append(("bh." + " ".join(toks), out))
        # every object handed out so far still holds what it held (unless the caller overwrote it)
        for j, o in enumerate(self.held):
            if o is not None and j not in self.no_read:
                cur = canon_obj(o)
                if cur != self.exp[j]:
                    self.bad.append(("held-result-changed", i,
                                     f"the object returned by step {self.owner[j]} ({' '.join(self.steps[self.owner[j]])[:60]}) "
                                     "changed although the caller did not touch it", self.exp[j], cur))
                    self._touched(o)

    def finish(self):
        """read every kept object once more (lines for the model)"""
        for k, o in enumerate(self.held):
            if o is not None and k not in self.no_read:
                self.lines.append((f"bh.read @{k}", canon_obj(o)))
        return self


def property_checks(H, cls, patterns, limit=3):
    """the property on every code word `encode` handed out for a 96-bit message during the history, as it was
    returned: 196 bits; decodes to the message with and without repair; repair does not alter it; decodes
    to the message with the given error patterns (first `limit` code words).
    Returns (kind, step, message, error positions, what, expected, actual)."""
    bad, seen = [], set()
    for i, m, c in H.enc:
        if (m, c) in seen:
            continue
        seen.add((m, c))
        if c.startswith("ERR") or len(c) != 196:
            bad.append(("encode", i, m, (), "encode of a 96-bit message does not return 196 bits", "196 bits", c[:40]))
            continue
        d0 = call(cls.deinterleave_data_bits, bitarray(c), False)
        if d0 != m:
            bad.append(("round-trip", i, m, (), "decoder without repair does not return the message", m, d0))
        rp = call(cls.repair_if_necessary, bitarray(c))
        if rp != c:
            bad.append(("repair-alters-codeword", i, m, (), "repair_if_necessary alters an error-free code word", c, rp))
        for e in [()] + (list(patterns) if len(seen) <= limit else []):
            d1 = call(cls.deinterleave_data_bits, bitarray(flip(c, e)), True)
            if d1 != m:
                bad.append(("not-corrected" if e else "round-trip", i, m, tuple(e),
                            f"decoder with repair does not return the message ({len(e)} inverted bits)", m, d1))
    return bad


def compress(steps):
    """drop the steps that do nothing (nop, calls on empty handles) and renumber the handles"""
    alive, new, out = [], {}, []
    for st in steps:
        toks = list(st)
        op = toks[0]
        refs = [int(t[1:]) for t in toks[1:] if t.startswith("@")]
        dead = op in ("nop", "nop+") or any(r >= len(alive) or not alive[r] for r in refs)
        pushes = op in PUSH_OPS or op == "nop+"
        if pushes:
            if not dead:
                new[len(alive)] = sum(alive)
            alive.append(not dead)
        if not dead:
            out.append(tuple(f"@{new[int(t[1:])]}" if t.startswith("@") else t for t in toks))
    return out


def shrink_history(steps, fails):
    """greedy: blank one step after the other while `fails` (run on a new copy of the class) still holds"""
    steps = list(steps)
    for idx in reversed(range(len(steps) - 1)):
        if steps[idx][0] in ("nop", "nop+"):
            continue
        cand = list(steps)
        cand[idx] = ("nop+",) if steps[idx][0] in PUSH_OPS else ("nop",)
        if fails(cand):
            steps = cand
    small = compress(steps)
    return small if fails(small) else steps


class Rel:
    """inputs related to one 96-bit message m: inputs of the other accepted length that share the integer
    value / a prefix / a suffix / the info bits with it, blocks that carry non-zero reserved bits, words near
    its code word, inputs of wrong lengths.  The reference code word comes from a new copy of the class."""
    R_VALUES = ("0111", "0110", "0101", "0011", "1111", "1110", "0100", "0010", "0001", "1000")

    def __init__(self, m, rng, tabs, by_rc, aims=None):
        self.m, self.rng, self.by_rc = m, rng, by_rc
        self.aims = aims or []  # error patterns aimed at the structure of the message (round 4), if it has one
        self.il, self.info_keys, self.res_keys = tabs
        F = fresh_class() or bptc()
        self.F = F
        self.c = call(F.encode, bitarray(m))
        self.ok = len(self.c) == 196 and not self.c.startswith("ERR")
        if not self.ok:
            self.c = "0" * 196

    def deint(self, w):
        """the 196 "deinterleaved" bits of an on-air word as the library itself produces and accepts them
        (deinterleave_all_bits, taken from the new copy of the class; encode / fill_encoding_table undo it)"""
        d = call(self.F.deinterleave_all_bits, bitarray(w))
        if len(d) == 196 and not d.startswith("ERR"):
            return d
        d = ["0"] * 196
        for k in range(196):
            d[self.il[k]] = w[k]
        return "".join(d)

    def cells(self, m, r):
        """on-air word whose info cells hold m and whose reserved cells hold r; every FEC bit 0"""
        w = ["0"] * 196
        for k, b in zip(self.res_keys, r):
            w[self.il[k]] = b
        for k, b in zip(self.info_keys, m):
            w[self.il[k]] = b
        return "".join(w)

    def embed(self, m, r):
        """196 deinterleaved bits: info bits m, reserved bits r, every FEC bit 0"""
        return self.deint(self.cells(m, r))

    def block(self, m, r):
        """on-air product code word of a block with info bits m and reserved bits r"""
        w = call(self.F.encode, bitarray(self.embed(m, r)))
        if len(w) != 196 or w.startswith("ERR"):
            return self.cells(m, r)
        w = list(w)
        for k, b in zip(self.res_keys, r):
            w[self.il[k]] = b
        return "".join(w)

    def r(self):
        return self.rng.choice(self.R_VALUES)

    def near(self):
        rng, m = self.rng, self.m
        k = rng.random()
        if k < 0.4:
            i = rng.randrange(96)
            return m[:i] + ("1" if m[i] == "0" else "0") + m[i + 1:]
        if k < 0.55:
            return m[::-1]
        if k < 0.7:
            return "".join("1" if b == "0" else "0" for b in m)
        if k < 0.85:
            return "0" * 8 + m[8:]
        return rand_bits(rng, 96)

    def parity_errors(self):
        """1-2 inverted positions outside the 96 info cells: the received info bits stay those of the message"""
        info = {self.il[k] for k in self.info_keys}
        return tuple(sorted(self.rng.sample([p for p in range(196) if p not in info], self.rng.choice((1, 2, 2)))))

    def errors(self, wmax=2):
        rng = self.rng
        if self.aims and wmax >= 1 and rng.random() < 0.6:
            return tuple(sorted(rng.choice(self.aims)[:wmax]))
        k = rng.random()
        if wmax == 0 or k < 0.12:
            return ()
        if wmax == 1 or k < 0.3:
            return (rng.randrange(196),)
        if k < 0.55:
            r = rng.randrange(13)
            c1, c2 = rng.sample(range(15), 2)
            return tuple(sorted((self.by_rc[(r, c1)], self.by_rc[(r, c2)])))
        if k < 0.7:
            c = rng.randrange(15)
            r1, r2 = rng.sample(range(13), 2)
            return tuple(sorted((self.by_rc[(r1, c)], self.by_rc[(r2, c)])))
        if k < 0.8:
            return tuple(sorted((self.il[rng.choice(self.res_keys)], rng.choice([p for p in range(196) if p not in [self.il[q] for q in self.res_keys]]))))
        return tuple(sorted(rng.sample(range(196), 2)))

    X196 = ("value", "prefix", "suffix-rand", "prefix-rand", "info-R", "block-R", "block-R-other", "block", "block+e", "on-air", "random")

    def x196(self, name):
        rng, m = self.rng, self.m
        if name == "value":
            return "0" * 100 + m
        if name == "prefix":
            return m + "0" * 100
        if name == "suffix-rand":
            return rand_bits(rng, 100) + m
        if name == "prefix-rand":
            return m + rand_bits(rng, 100)
        if name == "info-R":
            return self.embed(m, self.r())
        if name == "block-R":
            return self.deint(self.block(m, self.r()))
        if name == "block-R-other":
            return self.deint(self.block(self.near(), self.r()))
        if name == "block":
            return self.deint(self.c)
        if name == "block+e":
            return self.deint(flip(self.c, self.errors()))
        if name == "on-air":
            return self.c
        return rand_bits(rng, 196)

    AIR = ("cw+e", "cw+e", "cw+parity-e", "cw", "block-R", "block-R+e", "block-R-other", "cw+3", "random")

    def air(self, name):
        """(received word, message the property promises for the decoder with repair or None)"""
        rng = self.rng
        if name == "cw":
            return self.c, self.m
        if name == "cw+e":
            return flip(self.c, self.errors()), self.m
        if name == "cw+parity-e":
            return flip(self.c, self.parity_errors()), self.m
        if name == "cw+3":
            return flip(self.c, rng.sample(range(196), rng.choice((3, 4)))), None
        if name == "block-R":
            return self.block(self.m, self.r()), None
        if name == "block-R+e":
            return flip(self.block(self.m, self.r()), self.errors()), None
        if name == "block-R-other":
            return self.block(self.near(), self.r()), None
        return rand_bits(rng, 196), None

    def junk(self):
        """(name of a call outside the modelled domain, bits it is built from)"""
        name = self.rng.choice(sorted(XCALLS))
        if name.startswith(("encode", "fill")):
            x = self.m if self.rng.random() < 0.6 else self.x196(self.rng.choice(self.X196))
        else:
            x = self.air(self.rng.choice(self.AIR))[0]
        return name, x

    def wrong_length(self):
        """(op, argument) with an argument of a length that is not accepted, related to m"""
        rng, m, c = self.rng, self.m, self.c
        return rng.choice([("encode", m[:-1]), ("encode", m[1:]), ("encode", m + "0"), ("encode", "0" + m), ("encode", "-"),
                           ("encode", "0" * 99 + m), ("encode", "0" * 100 + m + "0"), ("encode", c[:-1]),
                           ("repair", c[:-1]), ("repair", c + "0"), ("repair", m), ("data", c[1:]), ("data", m), ("deint", c + "1"),
                           ("deint", m)])


class Build:
    """steps of one history; call() returns the handle of the result"""

    def __init__(self):
        self.steps, self.n = [], 0

    def call(self, *toks):
        self.steps.append(tuple(str(t) for t in toks))
        self.n += 1
        return self.n - 1

    def do(self, *toks):
        self.steps.append(tuple(str(t) for t in toks))


def lit(s, little=False, kind=None):
    return (kind or ("L" if little else "B")) + ":" + (s or "-")


def primes(rel, rng):
    """what happens before the call under observation: every entry point, inputs related to the message"""
    P = []
    for name in Rel.X196:
        P.append((f"encode-196:{name}", lambda b, name=name: b.call("encode", lit(rel.x196(name)))))
    P.append(("encode-196:value-little-endian", lambda b: b.call("encode", lit(rel.x196("value"), True))))
    for op in ("repair", "data 1", "data 0", "deint"):
        for name in ("block-R", "block-R+e"):
            P.append((f"{op}:{name}", lambda b, op=op, name=name: b.call(*op.split(" "), lit(rel.air(name)[0]))))
    for op in ("repair", "data 1"):
        for name in ("cw+e", "cw+parity-e"):
            P.append((f"{op}:{name}", lambda b, op=op, name=name: b.call(*op.split(" "), lit(rel.air(name)[0]))))

    def fill_with(b, x, tamper=None):
        t = b.call("make")
        if tamper is not None:
            b.do("setall", f"@{t}", tamper)
        b.call("fill", f"@{t}", lit(x))

    P.append(("fill:block-R", lambda b: fill_with(b, rel.x196("block-R"))))
    P.append(("fill:info-R", lambda b: fill_with(b, rel.x196("info-R"))))
    P.append(("fill:96-other", lambda b: fill_with(b, rel.near())))
    P.append(("fill:dirty-table-96", lambda b: fill_with(b, rel.near(), 1)))
    P.append(("make-overwritten", lambda b: b.do("setall", f"@{b.call('make')}", 1)))

    def tamper(b, op, arg, n):
        h = b.call(*op.split(" "), lit(arg))
        if n == 0:
            b.do("setall", f"@{h}", rng.getrandbits(1))
        for _ in range(n):
            b.do("flip", f"@{h}", rng.randrange(96))

    P.append(("encode-96-other:result-overwritten", lambda b: tamper(b, "encode", rel.near(), 2)))
    P.append(("encode-96-same:result-overwritten", lambda b: tamper(b, "encode", rel.m, 0)))
    P.append(("encode-96-same:result-3-flips", lambda b: tamper(b, "encode", rel.m, 3)))
    P.append(("data:result-overwritten", lambda b: tamper(b, "data 1", rel.c, 2)))
    P.append(("repair:result-overwritten", lambda b: tamper(b, "repair", rel.c, 0)))
    P.append(("deint:result-overwritten", lambda b: tamper(b, "deint", rel.c, 3)))

    def wrong(b):
        for _ in range(3):
            op, x = rel.wrong_length()
            b.call(*(("data", rng.getrandbits(1)) if op == "data" else (op,)), lit("" if x == "-" else x))
        b.call("fill", f"@{b.call('make')}", lit(rel.m[:-1]))

    P.append(("wrong-lengths", wrong))

    def junk(b, n):
        for _ in range(n):
            name, x = rel.junk()
            b.call("x", name, lit(x))

    P.append(("wrong-types:one-call", lambda b: junk(b, 1)))
    P.append(("wrong-types:four-calls", lambda b: junk(b, 4)))
    P.append(("non-default-mode:repair-deinterleaved", lambda b: (b.call("x", "repair-deinterleaved", lit(rel.air("cw+e")[0])),
                                                                  b.call("x", "repair-deinterleaved-of-deint", lit(rel.c)))))
    P.append(("encode-96:reversed-little-endian", lambda b: b.call("encode", lit(rel.m[::-1], True))))
    P.append(("encode-96:little-endian", lambda b: b.call("encode", lit(rel.m, True))))
    P.append(("encode-96:near", lambda b: b.call("encode", lit(rel.near()))))
    P.append(("nothing", lambda b: None))
    return P


def probes(rel, rng):
    """the calls under observation: what the property promises for them is attached (?=)"""
    m, c = rel.m, rel.c

    def decode(b):
        w, want = rel.air("cw+e")
        b.call("data", 1, lit(w), "?=" + want)
        b.call("data", 0, lit(c), "?=" + m)

    def same_info(b):
        for _ in range(2):
            b.call("data", 1, lit(rel.air("cw+parity-e")[0]), "?=" + m)
        b.call("repair", lit(rel.air("cw+parity-e")[0]))
        b.call("data", 1, lit(rel.air("cw+e")[0]), "?=" + m)
        b.call("repair", lit(c), "?=" + c)

    def repair(b):
        b.call("repair", lit(c), "?=" + c)
        b.call("data", 1, lit(flip(c, rel.errors(1))), "?=" + m)

    def kept(b):
        h = b.call("encode", lit(m))
        b.call("data", 1, f"@{h}", "?=" + m)
        for p in rel.errors():
            b.do("flip", f"@{h}", p)
        b.call("data", 1, f"@{h}", "?=" + m)
        b.call("repair", f"@{h}")
        b.call("data", 0, f"@{h}")

    def table(b):
        t = b.call("make")
        b.call("fill", f"@{t}", lit(m))
        b.call("encode", lit(m))

    def read_only(b):
        b.call("data", 1, lit(rel.air("cw+e")[0], kind="F"), "?=" + m)
        b.call("data", 0, lit(c, kind="F"), "?=" + m)
        b.call("repair", lit(c, kind="F"), "?=" + c)
        h = b.call("encode", lit(m, kind="R"))
        b.call("data", 1, f"@{h}", "?=" + m)
        b.call("encode", lit(m, kind="F"))

    return [
        ("encode-96", lambda b: b.call("encode", lit(m))),
        ("encode-96-little-endian", lambda b: b.call("encode", lit(m, True))),
        ("encode-96-twice", lambda b: (b.call("encode", lit(m)), b.call("encode", lit(m)))),
        ("decode", decode),
        ("decode-same-info-bits", same_info),
        ("repair", repair),
        ("encode-keep-flip-decode", kept),
        ("make-fill-encode", table),
        ("decode-read-only-arguments", read_only),
    ]


def random_history(rng, rels, length):
    """random interleaving of every entry point on inputs related to the messages of `rels`, kept objects
    passed again as arguments, overwritten, and calls repeated"""
    b = Build()
    info = {}  # handle -> ("cw", message, set of flipped positions) | ("bits", length) | ("table",)
    calls = []  # repeatable calls made so far
    while len(b.steps) < length:
        rel = rng.choice(rels)
        k = rng.random()
        if k < 0.20:
            x = rel.m if rng.random() < 0.7 else rel.near()
            le = rng.random() < 0.15
            h = b.call("encode", lit(x, le))
            info[h] = ("cw", x, set())
            calls.append(("encode", lit(x, le)))
        elif k < 0.38:
            x = rel.x196(rng.choice(Rel.X196))
            h = b.call("encode", lit(x, rng.random() < 0.1))
            info[h] = ("bits", 196)
            calls.append(("encode", lit(x)))
        elif k < 0.52:
            w, want = rel.air(rng.choice(Rel.AIR))
            r = 1 if rng.random() < 0.75 else 0
            extra = ["?=" + want] if want is not None and (r == 1 or w == rel.c) else []
            h = b.call("data", r, lit(w, kind=rng.choice(("B", "B", "B", "B", "B", "L", "F", "R"))), *extra)
            info[h] = ("bits", 96)
            calls.append(("data", str(r), lit(w)))
        elif k < 0.60:
            w, want = rel.air(rng.choice(Rel.AIR))
            extra = ["?=" + w] if w == rel.c else []
            h = b.call("repair", lit(w), *extra)
            info[h] = ("bits", 196)
            calls.append(("repair", lit(w)))
        elif k < 0.63:
            h = b.call("deint", lit(rel.air(rng.choice(Rel.AIR))[0]))
            info[h] = ("bits", 196)
        elif k < 0.67:
            info[b.call("make")] = ("table",)
        elif k < 0.73:
            tabs = [h for h, v in info.items() if v[0] == "table"]
            if not tabs:
                info[b.call("make")] = ("table",)
                continue
            x = rng.choice([rel.m, rel.near(), rel.x196(rng.choice(Rel.X196)), rel.m[:-1]])
            b.call("fill", f"@{rng.choice(tabs)}", lit(x))
        elif k < 0.80:
            hs = [h for h, v in info.items()]
            if not hs:
                continue
            h = rng.choice(hs)
            v = info[h]
            n = 195 if v[0] == "table" else 196 if v[0] == "cw" else v[1]
            p = rng.randrange(n)
            b.do("flip", f"@{h}", p)
            if v[0] == "cw":
                v[2].symmetric_difference_update({p})
        elif k < 0.83:
            # a kept 196-bit object is overwritten in place with a word related to the message
            hs = [h for h, v in info.items() if v[0] == "cw" or (v[0] == "bits" and v[1] == 196)]
            if not hs:
                continue
            h = rng.choice(hs)
            w, want = rel.air(rng.choice(Rel.AIR))
            b.do("put", f"@{h}", lit(w))
            info[h] = ("cw", rel.m, {p for p in range(196) if w[p] != rel.c[p]}) if want is not None and rel.ok else ("bits", 196)
        elif k < 0.85:
            hs = [h for h, v in info.items() if v[0] != "cw"]
            if hs:
                b.do("setall", f"@{rng.choice(hs)}", rng.getrandbits(1))
        elif k < 0.87:
            if info:
                b.do("read", f"@{rng.choice(list(info))}")
        elif k < 0.895:
            op, x = rel.wrong_length()
            b.call(*(("data", rng.getrandbits(1)) if op == "data" else (op,)), lit("" if x == "-" else x))
        elif k < 0.91:
            name, x = rel.junk()
            b.call("x", name, lit(x))
        elif k < 0.96:
            # a kept object goes in again as an argument
            hs = [h for h, v in info.items() if v[0] != "table"]
            if not hs:
                continue
            h = rng.choice(hs)
            v = info[h]
            n = 196 if v[0] == "cw" else v[1]
            if n == 96:
                info[b.call("encode", f"@{h}")] = ("bits", 196)
            else:
                op = rng.choice(["data 1", "data 1", "data 0", "repair", "deint", "encode"])
                extra = []
                if v[0] == "cw" and ((op == "data 1" and len(v[2]) <= 2) or (op == "data 0" and not v[2])):
                    extra = ["?=" + v[1]]
                g = b.call(*op.split(" "), f"@{h}", *extra)
                info[g] = ("bits", 96 if op.startswith("data") else 196)
        elif calls:
            # an earlier call once more (same arguments)
            st = rng.choice(calls)
            h = b.call(*st)
            info[h] = ("cw", st[1][2:], set()) if st[0] == "encode" and len(st[1]) == 98 else ("bits", 96 if st[0] == "data" else 196)
    return b.steps


def message_for_history(rng, struct=None):
    """base message of one history: random, or a shape whose integer value / prefix / suffix is special, or (round 4) a
    message with a row / column structure in the payload table; the error patterns aimed at that structure are left in
    struct.hist_aims for the Rel of the message"""
    k = rng.random()
    if k < 0.12 and struct is not None and struct.ok:
        g = struct.grids[rng.choice(("row", "row", "column"))]
        l1, l2 = sorted(rng.sample(range(g.L), 2))
        p = rng.randrange(g.P)
        got = struct.build_near(g, rng.choice(("empty", "empty", "above", "below", "same-as-all", "ones", "two-above")), p, l1, l2,
                                rng.choice(("between", "after", "before", "random", "same")))
        if got is not None:
            m = g.message(got[0])
            struct.hist_aims[m] = [tuple(sorted({struct.pay.by_rc[rc] for rc in cells}))
                                   for pats, _ in struct.aims_near(g, p, l1, l2, got[2]) for _, cells in pats][:8]
            return m, "row-or-column-structure"
    if k < 0.6:
        return rand_bits(rng, 96), "random"
    if k < 0.7:
        n = rng.choice((1, 4, 8, 16, 64))
        return "0" * n + "1" + rand_bits(rng, 95 - n), "leading-zeros"
    if k < 0.78:
        n = rng.choice((1, 4, 8, 16, 64))
        return rand_bits(rng, 95 - n) + "1" + "0" * n, "trailing-zeros"
    if k < 0.86:
        w = ["0"] * 96
        for i in rng.sample(range(96), rng.choice((1, 2, 3))):
            w[i] = "1"
        return "".join(w), "low-weight"
    if k < 0.92:
        return "1" + rand_bits(rng, 94) + "1", "both-ends-set"
    if k < 0.96:
        return "1" * 96, "all-one"
    return "0" * 96, "all-zero"


# ======================================================================================================
# Round 3: a buffer the caller RE-USES.  The caller keeps one bitarray, overwrites it in place and hands the
# same object in again; the new content is RELATED to the previous one: it agrees with it on a region a
# careless "same frame as last time?" test might look at (the 96 info positions, the 100 parity / reserved
# positions, the first / last k bits, one row or column of the table, every other bit), has the same number
# of ones, the same syndromes, is its repaired version, a neighbouring code word, …  The pairs are found with
# the GF(2) structure of the code (unit code words from a new copy of the class); what is promised for each
# call is the property as stated: a word within two inverted bits of encode(m) decodes to m.
# ======================================================================================================
def _bits_of(x: int, n: int = 196) -> str:
    return format(x, f"0{n}b")


def _pos_mask(positions) -> int:
    v = 0
    for p in positions:
        v |= 1 << (195 - p)
    return v


def _positions(x: int):
    return [p for p in range(196) if x >> (195 - p) & 1]


class Algebra:
    """unit code words (as the encoder of a new copy of the class yields them) and what follows by GF(2)-linearity:
    messages whose code words vanish on a region (kernel of the restriction), low-weight code words.  Used only to FIND
    related frames; every frame that is used comes from encode itself and is checked against the property as stated."""
    FIRST_LAST = (8, 16, 32, 64, 96, 98, 128, 144)

    def __init__(self, tabs, by_rc):
        il, info_keys, res_keys = tabs
        self.info_pos = [il[k] for k in info_keys]
        F = fresh_class() or bptc()
        self.units, self.ok = [], True
        for i in range(96):
            c = call(F.encode, bitarray("0" * i + "1" + "0" * (95 - i)))
            if len(c) != 196 or c.startswith("ERR"):
                self.ok = False
                c = "0" * 196
            self.units.append(int(c, 2))
        # message masks: bit i of the mask = message bit i
        self.low = [(1 << i, u) for i, u in enumerate(self.units)]
        for i in range(96):
            for j in range(i + 1, 96):
                x = self.units[i] ^ self.units[j]
                if bin(x).count("1") <= 16:
                    self.low.append(((1 << i) | (1 << j), x))
        info = set(self.info_pos)
        self.regions = {"info": sorted(info), "parity": [p for p in range(196) if p not in info],
                        "even": list(range(0, 196, 2)), "odd": list(range(1, 196, 2)), "middle-64": list(range(64, 128))}
        for k in self.FIRST_LAST:
            self.regions[f"first-{k}"] = list(range(k))
            self.regions[f"last-{k}"] = list(range(196 - k, 196))
        for r in range(13):
            self.regions[f"row-{r}"] = [by_rc[(r, c)] for c in range(15)]
        for c in range(15):
            self.regions[f"col-{c}"] = [by_rc[(r, c)] for r in range(13)]
        self._found = {}

    def cw(self, mask: int) -> int:
        x, i = 0, 0
        while mask:
            if mask & 1:
                x ^= self.units[i]
            mask >>= 1
            i += 1
        return x

    @staticmethod
    def msg(mask: int) -> str:
        return "".join("1" if mask >> i & 1 else "0" for i in range(96))

    def _solve(self, name):
        """(kernel basis of the restriction to the region, low-weight code words meeting it in <= 4 positions)"""
        if name not in self._found:
            S = _pos_mask(self.regions[name])
            ker, piv = [], {}
            for i, u in enumerate(self.units):
                v, t = u & S, 1 << i
                while v:
                    h = v.bit_length()
                    if h in piv:
                        v ^= piv[h][0]
                        t ^= piv[h][1]
                    else:
                        piv[h] = (v, t)
                        break
                if not v:
                    ker.append(t)
            low = []
            if not ker:
                best = sorted(self.low, key=lambda dx: bin(dx[1] & S).count("1"))
                low = [dx for dx in best[:40] if bin(dx[1] & S).count("1") <= 4]
            self._found[name] = (ker, low)
        return self._found[name]

    def fixed_points(self, positions):
        """basis of the messages m with encode(m)[positions] == m (positions: 96 on-air positions)"""
        ker, piv = [], {}
        for i, u in enumerate(self.units):
            v = 1 << i
            for j, p in enumerate(positions):
                if u >> (195 - p) & 1:
                    v ^= 1 << j
            t = 1 << i
            while v:
                h = v.bit_length()
                if h in piv:
                    v ^= piv[h][0]
                    t ^= piv[h][1]
                else:
                    piv[h] = (v, t)
                    break
            if not v:
                ker.append(t)
        return ker

    def difference(self, name, rng):
        """(message mask d != 0, on-air positions where the code word of d meets the region) or None: adding d to a
        message changes its code word inside the region in at most 4 positions (which two error patterns of weight
        <= 2 can take over)"""
        ker, low = self._solve(name)
        if ker:
            d = 0
            for t in rng.sample(ker, min(len(ker), rng.choice((1, 1, 2, 3)))):
                d ^= t
            if d:
                return d, []
        if low:
            d, x = rng.choice(low)
            return d, _positions(x & _pos_mask(self.regions[name]))
        return None


RELATIONS = ("region", "region", "region", "info", "info", "parity", "same-count", "same-syndromes", "repaired-version",
             "neighbour", "same-message", "unrelated", "garbage")
USE_OPS = ("data 1", "data 1", "data 1", "data 1", "repair", "repair", "data 0", "mixed")


class Reuse:
    """histories in which ONE object is overwritten in place with related contents and handed in again"""

    def __init__(self, rel, alg, rng):
        self.rel, self.alg, self.rng = rel, alg, rng
        self.cwc = {}

    def cw(self, m):
        if m not in self.cwc:
            c = call(self.rel.F.encode, bitarray(m))
            self.cwc[m] = c if len(c) == 196 and not c.startswith("ERR") else None
        return self.cwc[m]

    def frame(self, m, e):
        """(received word, message, error positions) or None"""
        c = self.cw(m)
        return None if c is None else (flip(c, e), m, tuple(sorted(e)))

    def xor_msg(self, m, d):
        return xor_str(m, Algebra.msg(d))

    def extra(self, e, avoid, n=1):
        """up to n more inverted positions outside `avoid`, total weight <= 2"""
        e = list(e)
        free = [p for p in range(196) if p not in avoid and p not in e]
        while len(e) < 2 and n > 0 and free and self.rng.random() < 0.35:
            e.append(self.rng.choice(free))
            n -= 1
        return e

    def pair(self, m, relation):
        """two frames (word, message, errors) — message None = nothing is promised — and the name of what they share"""
        rng, alg = self.rng, self.alg
        if relation in ("region", "info", "parity"):
            if relation == "region":
                # first the kind of region (equal shares), then one of that kind
                kind = rng.choice(("first", "last", "first", "last", "row", "col", "even", "odd", "middle"))
                name = rng.choice(sorted(n for n in alg.regions if n.startswith(kind)))
            else:
                name = relation
            got = alg.difference(name, rng) if alg.ok else None
            if got is not None:
                d, T = got
                rng.shuffle(T)
                if len(T) <= 2:
                    ea = [p for p in T if rng.random() < 0.6]
                    eb = [p for p in T if p not in ea]
                else:
                    ea, eb = T[:2], T[2:]
                region = set(alg.regions[name])
                if rng.random() < 0.25 and len(ea) < 2 and len(eb) < 2:
                    p = rng.choice([q for q in range(196) if q not in T])  # the same inverted bit in both frames
                    ea, eb = ea + [p], eb + [p]
                ea, eb = self.extra(ea, region | set(T)), self.extra(eb, region | set(T))
                A, B = self.frame(m, ea), self.frame(self.xor_msg(m, d), eb)
                if A and B:
                    agree = all(A[0][p] == B[0][p] for p in region)
                    tag = f"same-{name.split('-')[0]}" + ("" if agree else ":not-reached")
                    return (A, B, tag) if rng.random() < 0.5 else (B, A, tag)
            relation = "neighbour"
        if relation == "same-count":
            for _ in range(12):
                m2 = self.rel.near() if rng.random() < 0.5 else rand_bits(rng, 96)
                ca, cb = self.cw(m), self.cw(m2)
                if ca is None or cb is None or m2 == m:
                    continue
                diff = cb.count("1") - ca.count("1")
                if abs(diff) > 4:
                    continue
                # invert ones of the heavier / zeros of the lighter word until the counts are equal
                ea, eb = [], []
                while diff:
                    if diff > 0:
                        if len(eb) < 2:
                            eb.append(rng.choice([p for p in range(196) if cb[p] == "1" and p not in eb]))
                        else:
                            ea.append(rng.choice([p for p in range(196) if ca[p] == "0" and p not in ea]))
                        diff -= 1
                    else:
                        if len(ea) < 2:
                            ea.append(rng.choice([p for p in range(196) if ca[p] == "1" and p not in ea]))
                        else:
                            eb.append(rng.choice([p for p in range(196) if cb[p] == "0" and p not in eb]))
                        diff += 1
                if len(ea) <= 2 and len(eb) <= 2:
                    A, B = self.frame(m, ea), self.frame(m2, eb)
                    return A, B, "same-count" + ("" if A[0].count("1") == B[0].count("1") else ":not-reached")
            relation = "neighbour"
        if relation == "same-syndromes":
            e = self.rel.errors()
            m2 = self.rel.near() if rng.random() < 0.5 else rand_bits(rng, 96)
            A, B = self.frame(m, e), self.frame(m2, e)
            if A and B:
                return A, B, "same-syndromes"
        if relation == "repaired-version":
            e = list(self.rel.errors()) or [rng.randrange(196)]
            A, B = self.frame(m, e), self.frame(m, ())
            if A and B:
                return (A, B, "repaired-version") if rng.random() < 0.7 else (B, A, "damaged-version")
        if relation == "neighbour" and alg.ok:
            d, x = rng.choice(alg.low)
            supp = _positions(x)
            ea, eb = rng.sample(supp, rng.choice((0, 1, 2))), []
            eb = rng.sample([p for p in supp if p not in ea], rng.choice((0, 1, 2)))
            A, B = self.frame(m, ea), self.frame(self.xor_msg(m, d), eb)
            if A and B:
                return A, B, "neighbour"
        if relation == "same-message":
            A, B = self.frame(m, self.rel.errors()), self.frame(m, self.rel.errors())
            if A and B:
                return A, B, "same-message"
        if relation == "garbage":
            A = self.frame(m, self.rel.errors())
            if A:
                g = (garbage(rng, self.cw(m), self.rel.by_rc), None, None)
                return (A, g, "garbage-after") if rng.random() < 0.5 else (g, A, "garbage-before")
        A, B = self.frame(m, self.rel.errors()), self.frame(rand_bits(rng, 96), self.rel.errors())
        if A and B:
            return A, B, "unrelated"
        w = rand_bits(rng, 196)
        return (w, None, None), (w, None, None), "encoder-fails"

    def use(self, b, h, fr, op):
        """calls on the kept object h (None: on a new bitarray each time) that now holds the frame fr, with what the
        property promises; between repeated calls the caller may scribble on the result it got"""
        rng = self.rng
        w, m, e = fr
        if op == "mixed":
            op = rng.choice(("data 1", "repair", "data 0", "deint", "encode"))
        n = 1 if rng.random() < 0.7 else 2 if rng.random() < 0.8 else 3
        for j in range(n):
            extra = []
            if m is not None:
                if op == "data 1" and len(e) <= 2:
                    extra = ["?=" + m]
                elif op == "data 0" and not e:
                    extra = ["?=" + m]
                elif op == "repair" and not e:
                    extra = ["?=" + w]
            arg = f"@{h}" if h is not None else lit(w, kind=rng.choice(("B", "B", "B", "L", "F")))
            g = b.call(*op.split(" "), arg, *extra)
            if j + 1 < n and rng.random() < 0.5:
                if rng.random() < 0.5:
                    b.do("flip", f"@{g}", rng.randrange(96))
                else:
                    b.do("setall", f"@{g}", rng.getrandbits(1))
        if rng.random() < 0.25:
            b.call(*rng.choice(("data 1", "repair", "data 0", "deint")).split(" "), f"@{h}" if h is not None else lit(w))

    def overwrite(self, b, h, cur, w):
        """the caller changes the content of h from cur to w in place"""
        rng = self.rng
        diff = [p for p in range(196) if cur is not None and len(cur) == 196 and cur[p] != w[p]]
        if cur is not None and len(cur) == 196 and len(diff) <= 6 and rng.random() < 0.5:
            for p in diff:
                b.do("flip", f"@{h}", p)
        else:
            b.do("put", f"@{h}", lit(w, little=rng.random() < 0.1))

    def history(self, rounds):
        """mode 'one': one buffer overwritten in place; 'two': between the two related contents the caller decodes
        another buffer of its own (a related frame); 'literal': every frame in a new bitarray that is dropped after the
        call (the next one usually lives at the same address)"""
        rng, m = self.rng, self.rel.m
        b = Build()
        op = rng.choice(USE_OPS)
        mode = rng.choice(("one", "one", "one", "two", "two", "literal"))
        tags = [f"mode-{mode}"]
        h, cur, h2 = None, None, None
        for r in range(rounds):
            A, B, tag = self.pair(m, rng.choice(RELATIONS))
            tags.append(tag)
            for fr in (A, B):
                w = fr[0]
                if mode == "literal":
                    self.use(b, None, fr, op)
                    continue
                if mode == "two" and fr is B:
                    # another buffer of the caller goes through the same entry point in between
                    other = self.pair(m, rng.choice(RELATIONS))[rng.getrandbits(1)]
                    if h2 is None:
                        h2 = b.call("new", lit(other[0]))
                    else:
                        b.do("put", f"@{h2}", lit(other[0]))
                    self.use(b, h2, other, op)
                if h is None:
                    k = rng.random()
                    if k < 0.6 or fr[1] is None:
                        h = b.call("new", lit(w, little=rng.random() < 0.15))
                    elif k < 0.8:
                        # the object encode handed out becomes the frame buffer
                        h = b.call("encode", lit(fr[1]))
                        cur = self.cw(fr[1])
                        if cur != w:
                            self.overwrite(b, h, cur, w)
                    else:
                        # the object repair handed out for another frame becomes the frame buffer
                        h = b.call("repair", lit(self.rel.air("cw+e")[0]))
                        b.do("put", f"@{h}", lit(w))
                elif tag == "repaired-version" and fr is B and rng.random() < 0.5:
                    g = b.call("repair", f"@{h}")
                    b.do("put", f"@{h}", f"@{g}")
                else:
                    self.overwrite(b, h, cur, w)
                cur = w
                self.use(b, h, fr, op)
            if B[1] is not None:
                m = B[1]
            elif A[1] is not None:
                m = A[1]
        return b.steps, tags


def garbage(rng, c, by_rc):
    """a received word far outside the fault domain of the property (nothing is promised for it)"""
    k = rng.random()
    c = c or "0" * 196
    if k < 0.3:
        return rand_bits(rng, 196)
    if k < 0.45:
        return flip(c, rng.sample(range(196), rng.randint(4, 12)))
    if k < 0.55:
        rows, cols = rng.sample(range(13), rng.choice((2, 3))), rng.sample(range(15), rng.choice((2, 3)))
        return flip(c, [by_rc[(r, q)] for r in rows for q in cols])
    if k < 0.65:
        r = rng.randrange(13)
        return flip(c, [by_rc[(r, q)] for q in range(15)])
    if k < 0.73:
        q = rng.randrange(15)
        return flip(c, [by_rc[(r, q)] for r in range(13)])
    if k < 0.83:
        a = rng.randrange(196 - 24)
        return flip(c, range(a, a + rng.randint(8, 24)))
    if k < 0.9:
        return "".join("1" if x == "0" else "0" for x in c)
    if k < 0.95:
        return ("01" * 98) if rng.random() < 0.5 else ("1" * 196)
    return c[98:] + c[:98]


def streak_history(rng, rel, n, variant):
    """n frames that cannot be repaired (or calls that raise), then — with nothing in between — frames the property
    covers.  variant: 0 literals through the decoder, 1 literals through repair_if_necessary, 2 one frame buffer
    overwritten in place, 3 garbage alternating with calls that raise (wrong lengths), 4 only decoder calls that raise
    (wrong lengths), 5 only calls of ONE other kind that raise or lie outside the modelled domain (wrong lengths /
    wrong types / non-default mode of one entry point)"""
    b = Build()
    h = None

    def feed(w, op, extra=()):
        nonlocal h
        if variant == 2:
            if h is None:
                h = b.call("new", lit(w))
            else:
                b.do("put", f"@{h}", lit(w))
            b.call(*op.split(" "), f"@{h}", *extra)
        else:
            b.call(*op.split(" "), lit(w, kind=rng.choice(("B", "B", "B", "B", "L", "F"))), *extra)

    m, c = rel.m, rel.c
    other = rng.choice(("encode", "repair", "deint", "x:data", "x:repair", "x:encode", "x:fill", "x:"))
    for i in range(n):
        if variant == 4:
            b.call("data", 1 if rng.random() < 0.8 else 0, lit(rng.choice((c[1:], c[:-1], c + "0", m, "", c + c, c[:195] + "01"))))
        elif variant == 5 and other.startswith("x:"):
            name = rng.choice(sorted(k for k in XCALLS if k.startswith(other[2:])))
            b.call("x", name, lit(m if name.startswith(("encode", "fill")) else c))
        elif variant == 5:
            b.call(other, lit(rng.choice((m[:-1], m + "0", c[1:], c + "0", "", m[1:]) if other == "encode" else (c[1:], c[:-1], c + "0", m, ""))))
        elif variant == 3 and i % 2:
            op, x = rel.wrong_length()
            b.call(*(("data", 1) if op == "data" else (op,)), lit("" if x == "-" else x))
        else:
            feed(garbage(rng, rel.c, rel.by_rc), "repair" if variant == 1 or (variant == 3 and rng.random() < 0.3) else "data 1")
    info = [rel.il[k] for k in rel.info_keys]
    for j in range(rng.choice((1, 2, 3))):
        e = [rng.choice(info)] + ([rng.randrange(196)] if rng.random() < 0.6 else [])
        e = tuple(sorted(set(e)))
        if j == 2:
            e = ()
        feed(flip(rel.c, e), "data 1", ("?=" + rel.m,))
    if rng.random() < 0.5:
        feed(rel.c, "repair", ("?=" + rel.c,))
        feed(rel.c, "data 0", ("?=" + rel.m,))
    if variant >= 4 or rng.random() < 0.4:
        # the encoder after the streak: its code word decodes (and is decoded again by property_checks)
        g = b.call("encode", lit(rel.m))
        b.call("data", 1, f"@{g}", "?=" + rel.m)
    if rng.random() < 0.4:
        # a second, shorter streak and another frame of the fault domain
        for i in range(rng.randint(1, 4)):
            feed(garbage(rng, rel.c, rel.by_rc), "data 1")
        feed(flip(rel.c, rel.errors()), "data 1", ("?=" + rel.m,))
    return b.steps


def message_reuse_history(rng, rel, alg):
    """the caller keeps ONE message buffer, overwrites it in place with a related message and encodes it again; every
    code word handed out is decoded afterwards (property_checks) and right away, clean and with errors put into the
    returned object in place"""
    b = Build()
    m = rel.m
    k0 = rng.random()
    if k0 < 0.7:
        h = b.call("new", lit(m, little=rng.random() < 0.15))
    else:
        # the object the decoder handed out becomes the message buffer
        h = b.call("data", 1, lit(rel.air("cw+e")[0]), "?=" + m)
    tags = []
    for r in range(rng.randint(2, 4)):
        g = b.call("encode", f"@{h}")
        if len(m) == 96:
            b.call("data", 1, f"@{g}", "?=" + m)
            e = rel.errors()
            if e and rng.random() < 0.6:
                for p in e:
                    b.do("flip", f"@{g}", p)
                b.call("data", 1, f"@{g}", "?=" + m)
            if rng.random() < 0.3:
                b.call("repair", f"@{g}")
        # the next content of the message buffer
        base = m if len(m) == 96 else m[-96:]
        k = rng.random()
        if k < 0.2:
            n = rng.choice((8, 16, 32, 48, 64, 88, 95))
            lo, hi = (n, 96) if rng.random() < 0.5 else (0, 96 - n)
            w = list(base)
            for p in rng.sample(range(lo, hi), min(hi - lo, rng.choice((1, 1, 2, 3)))):
                w[p] = "1" if w[p] == "0" else "0"
            m2, tag = "".join(w), "same-prefix-or-suffix"
        elif k < 0.35 and "0" in base and "1" in base:
            w = list(base)
            i, j = rng.choice([p for p in range(96) if w[p] == "0"]), rng.choice([p for p in range(96) if w[p] == "1"])
            w[i], w[j] = "1", "0"
            m2, tag = "".join(w), "same-count"
        elif k < 0.55 and alg.ok:
            got = alg.difference(rng.choice(("parity", "parity", "first-64", "last-64", "even", "first-32")), rng)
            m2, tag = (xor_str(base, Algebra.msg(got[0])), "code-word-agrees-on-a-region") if got else (rel.near(), "near")
        elif k < 0.65:
            m2, tag = rel.x196(rng.choice(("value", "prefix", "suffix-rand", "block-R", "block"))), "other-length-same-value"
        elif k < 0.75:
            n = rng.choice((1, 8, 95))
            m2, tag = base[n:] + base[:n], "rotated"
        elif k < 0.85:
            m2, tag = rel.near(), "near"
        else:
            m2, tag = rand_bits(rng, 96), "unrelated"
        tags.append(tag)
        b.do("put", f"@{h}", lit(m2, little=rng.random() < 0.1))
        m = m2
        if len(m) != 96 and rng.random() < 0.7:
            b.call("encode", f"@{h}")
            m = m[-96:] if rng.random() < 0.5 else rel.near()
            b.do("put", f"@{h}", lit(m))
    g = b.call("encode", f"@{h}")
    if len(m) == 96:
        b.call("data", 1, f"@{g}", "?=" + m)
    return b.steps, tags


# ======================================================================================================
# Ambient state of the interpreter / process (round 3, class g): the property says "for every message … the
# decoder returns exactly that message", so it must not depend on assertions being compiled in, on the root
# logger's level, on a working sys.stdout or on the state of the global random generators.  A fixed small
# sample of histories (valid lengths only) is run again under each of these.
# ======================================================================================================
class _Raises(io.TextIOBase):
    def write(self, s):
        raise OSError("stdout is closed")

    def flush(self):
        raise OSError("stdout is closed")


class _Collect(logging.Handler):
    """formats every record (so that arguments of debug messages are really evaluated)"""

    def __init__(self):
        super().__init__(level=logging.DEBUG)
        self.n = 0

    def emit(self, record):
        self.n += 1
        try:
            record.getMessage()
        except Exception:  # noqa
            pass


@contextlib.contextmanager
def ambient(name):
    if name == "debug-logging":
        root = logging.getLogger()
        old, h = root.level, _Collect()
        olds = {}
        for n_, lg in list(logging.Logger.manager.loggerDict.items()):
            if isinstance(lg, logging.Logger) and n_.startswith("okdmr"):
                olds[lg] = lg.level
                lg.setLevel(logging.DEBUG)
        root.addHandler(h)
        root.setLevel(logging.DEBUG)
        try:
            yield
        finally:
            root.setLevel(old)
            root.removeHandler(h)
            for lg, lv in olds.items():
                lg.setLevel(lv)
    elif name == "failing-stdout":
        old = sys.stdout
        sys.stdout = _Raises()
        try:
            yield
        finally:
            sys.stdout = old
    else:
        yield


def run_hist_ambient(cls, steps, name):
    """one history on cls under the named ambient state; returns the Hist"""
    H = Hist(cls, None)
    if name == "reseeded-random":
        st, nst = _random.getstate(), numpy.random.get_state()
        try:
            for k, s_ in enumerate(steps):
                _random.seed(k % 3)
                numpy.random.seed(k % 3)
                H.step(s_)
        finally:
            _random.setstate(st)
            numpy.random.set_state(nst)
        return H
    with ambient(name):
        H.run(steps)
    return H


CHILD = ("import os, sys; sys.path.insert(0, {h!r}); alt = os.environ.get('VERIF_REPO'); "
         "alt and sys.path.insert(0, alt); import props.c02 as p; p.child_main()")


def child_main():
    """runs in the child interpreter: histories from stdin (JSON), on ONE class object, results to stdout (JSON)"""
    job = json.load(sys.stdin)
    real_out = sys.stdout
    sys.stdout = io.StringIO()  # whatever the library prints must not corrupt the answer
    res = {"optimize": sys.flags.optimize, "debug": __debug__, "histories": []}
    try:
        if job.get("debug_logging"):
            logging.basicConfig(level=logging.DEBUG, stream=io.StringIO())
        B = bptc()
        for n, lines in enumerate(job["histories"]):
            # the first history is the first use of the class in a new process; the others run on new copies of it
            H = Hist(B if n == 0 else (fresh_class() or B), None).run(steps_parse(lines))
            res["histories"].append({"outs": [o for _, o in H.lines], "bad": [list(x) for x in H.bad]})
    except BaseException as e:  # noqa
        res["error"] = impl_error(e)
    sys.stdout = real_out
    json.dump(res, sys.stdout)


def run_child(histories, flags=("-O",), debug_logging=False, timeout=300):
    """the histories in a child interpreter started with `flags`; None when the child cannot be run"""
    cmd = [sys.executable, *flags, "-c", CHILD.format(h=os.path.join(VERIF, "harness"))]
    try:
        p = subprocess.run(cmd, input=json.dumps({"histories": [steps_str(h) for h in histories], "debug_logging": debug_logging}),
                           capture_output=True, text=True, timeout=timeout, cwd=VERIF)
        return json.loads(p.stdout)
    except Exception as e:  # noqa
        return {"error": f"child: {type(e).__name__}"}



class Histories:
    """runs histories on the class under test (one long-lived class object for the whole run) and reports"""

    def __init__(self, ctx, R, by_rc):
        self.ctx, self.R, self.by_rc = ctx, R, by_rc
        B = R.B
        il, info_keys, res_keys = {}, [], []
        for k, v in B.INTERLEAVING_INDICES.items():
            il[k] = v[0]
            if v[3]:
                res_keys.append(k)
            elif not v[4]:
                info_keys.append(k)
        self.tabs = (il, info_keys, res_keys)
        self.lines = []
        self.pending = []
        self.pool = {}  # kind -> histories whose calls all have valid lengths (for the ambient-state sample)
        try:
            self.struct = Structures(ctx, R, by_rc)
        except Exception:  # noqa
            self.struct = None

    def rel(self, m):
        return Rel(m, self.ctx.rng, self.tabs, self.by_rc, aims=self.struct.hist_aims.get(m) if self.struct is not None else None)

    def patterns(self, rel):
        """error patterns for the code words a history handed out: the classes the repair treats differently"""
        rng = self.ctx.rng
        out = []
        for _ in range(2):
            r = rng.randrange(13)
            c1, c2 = rng.sample(range(15), 2)
            out.append(tuple(sorted((self.by_rc[(r, c1)], self.by_rc[(r, c2)]))))
        c = rng.randrange(15)
        r1, r2 = rng.sample(range(13), 2)
        out.append(tuple(sorted((self.by_rc[(r1, c)], self.by_rc[(r2, c)]))))
        out.append(rel.errors())
        return out

    def run(self, steps, rel, tag, sample=False, new_copy=False, pool=None, cap=0):
        ctx, B = self.ctx, self.R.B
        if new_copy:
            # the first calls ever made on a class object are those of this history
            C = fresh_class()
            if C is not None:
                B = C
                ctx.count("hist:first-calls-on-a-new-copy")
        H = Hist(B, fresh_class).run(steps)
        if pool is not None and len(self.pool.setdefault(pool, [])) < cap and \
                not any(o.startswith("ERR") or o == "void" for _, o in H.lines):
            self.pool[pool].append(list(steps))
        pats = self.patterns(rel)
        pbad = property_checks(H, B, pats)
        H.finish()
        ctx.case(("history", tuple(steps)), nontrivial=True,
                 sample={"history": steps_str(steps), "results": [o[:48] for _, o in H.lines[:len(steps)]]} if sample else None)
        ctx.count(f"hist:{tag}")
        ctx.count("hist:steps", len(steps))
        ctx.count("hist:kept-objects", sum(1 for o in H.held if o is not None))
        ctx.count("hist:code-words-re-verified", len(H.enc))
        if H.stale:
            ctx.count("hist:promise-not-applicable", H.stale)
        for st in steps:
            if st[-1].startswith("?="):
                ctx.count("hist:calls-with-promised-result")
            if st[0] in CALL_OPS and any(t.startswith("@") for t in st[1:]) and st[0] != "fill":
                ctx.count("hist:kept-object-as-argument")
            if st[0] == "put":
                ctx.count("hist:overwritten-in-place")
        self.lines.append(("bh.reset", "ok"))
        self.lines += H.lines
        n = 0
        for kind, i, m, e, what, exp, act in pbad:
            if n < 3:
                self.pending.append((0, kind, steps[: i + 1], what, exp, act, m, e))
            n += 1
        for kind, i, what, exp, act in H.bad:
            if n < 3:
                prio = 0 if kind in ("not-corrected", "round-trip", "repair-alters-codeword", "encode") else \
                    1 if kind == "history-dependent-result" and steps[i][0] in ("encode", "data", "repair") else 2
                self.pending.append((prio, kind, steps[: i + 1], what, exp, act, None, None))
            n += 1

    def emit(self):
        """report what the histories found, failures of the property as stated first; the first few are reduced
        to a short history that fails on a new copy of the class (so that the replay, a new process, fails too)"""
        ctx = self.ctx
        self.pending.sort(key=lambda r: r[0])
        for n, (_, kind, steps, what, exp, act, m, e) in enumerate(self.pending):

            def fails(cand):
                C = fresh_class()
                if C is None:
                    return False
                if m is None:
                    return any(b[0] == kind for b in Hist(C, fresh_class).run(cand).bad)
                H2 = Hist(C, None).run(cand)
                return any(b[0] == kind and b[2] == m for b in property_checks(H2, C, [e] if e else [], limit=99))

            inp = {"history": steps_str(steps)}
            if n < 6:
                if fails(steps):
                    inp = {"history": steps_str(shrink_history(steps, fails)), "fails_on_a_new_copy_of_the_class": True}
                else:
                    inp["fails_on_a_new_copy_of_the_class"] = False
            if m is not None:
                inp["message"] = m
                inp["error_positions"] = list(e)
            ctx.fail(kind, inp, what + " (after the calls of the history)", expected=exp, actual=act)
        self.pending = []

    def flush(self):
        ctx = self.ctx
        if self.lines and not ctx.search_only and ctx.driver_ok:
            self.R.bg.submit("history", self.lines)
        self.lines = []


def run_histories(ctx, R, by_rc):
    rng = ctx.rng
    boost = min(ctx.boost, 2)  # the class is small: a changed source is searched twice as long, not 4-8 times
    Hs = Histories(ctx, R, by_rc)
    # ---- every (what happened before) x (call under observation), each with a message of its own
    sweeps = (1 if not ctx.thorough() else 6) * boost
    for s in range(sweeps):
        names_p = [n for n, _ in primes(Hs.rel("0" * 96), rng)]
        names_q = [n for n, _ in probes(Hs.rel("0" * 96), rng)]
        for ip, np_ in enumerate(names_p):
            for iq, nq in enumerate(names_q):
                m, shape = message_for_history(rng, Hs.struct)
                rel = Hs.rel(m)
                b = Build()
                primes(rel, rng)[ip][1](b)
                probes(rel, rng)[iq][1](b)
                ctx.count(f"hist:message:{shape}")
                ctx.count(f"hist:before:{np_.split(':')[0]}")
                Hs.run(b.steps, rel, "pairwise", sample=(s == 0 and (ip, iq) in ((0, 0), (11, 6))),
                       pool="pairwise", cap=24 if (ip * 7 + iq) % 5 == 0 else 0)
        Hs.flush()
    # ---- one buffer overwritten in place with RELATED contents and handed in again (frames, then messages)
    alg = Algebra(Hs.tabs, by_rc)
    cap = 1 if not ctx.thorough() else 4
    n_reuse = (170 if not ctx.thorough() else 2400) * boost
    for i in range(n_reuse):
        m, shape = message_for_history(rng, Hs.struct)
        rel = Hs.rel(m)
        steps, tags = Reuse(rel, alg, rng).history(rng.choice((1, 2, 2, 3)))
        ctx.count(f"hist:message:{shape}")
        for t in tags:
            ctx.count(f"hist:reuse:{t}")
        Hs.run(steps, rel, "buffer-reuse", sample=(i == 0), new_copy=(i % 8 == 7), pool="reuse", cap=40 * cap)
        if i % 200 == 199:
            Hs.flush()
    n_msg = (60 if not ctx.thorough() else 800) * boost
    for i in range(n_msg):
        m, shape = message_for_history(rng, Hs.struct)
        rel = Hs.rel(m)
        steps, tags = message_reuse_history(rng, rel, alg)
        ctx.count(f"hist:message:{shape}")
        for t in tags:
            ctx.count(f"hist:message-reuse:{t}")
        Hs.run(steps, rel, "message-buffer-reuse", sample=(i == 0), new_copy=(i % 8 == 7), pool="message-reuse", cap=20 * cap)
    Hs.flush()
    # ---- streaks of 1..8 frames that cannot be repaired (or calls that raise), then frames the property covers
    reps = (1 if not ctx.thorough() else 8) * boost
    for rep in range(reps):
        for n in range(1, 9):
            for variant in range(6):
                m, shape = message_for_history(rng, Hs.struct)
                rel = Hs.rel(m)
                steps = streak_history(rng, rel, n, variant)
                ctx.count(f"hist:noise-streak:{n}")
                ctx.count(f"hist:noise-streak-variant:{variant}")
                Hs.run(steps, rel, "noise-streak", sample=(rep == 0 and n == 3 and variant == 0),
                       new_copy=((n + variant + rep) % 3 == 0), pool="streak", cap=16 * cap if variant < 3 else 0)
    Hs.flush()
    # ---- random interleavings
    n_rand = (500 if not ctx.thorough() else 6000) * boost
    for i in range(n_rand):
        m, shape = message_for_history(rng, Hs.struct)
        rels = [Hs.rel(m)]
        if rng.random() < 0.4:
            rels.append(Hs.rel(rels[0].near()))
        steps = random_history(rng, rels, rng.randint(4, 14))
        ctx.count(f"hist:message:{shape}")
        Hs.run(steps, rels[0], "random-interleaving", sample=(i == 0))
        if i % 200 == 199:
            Hs.flush()
    # ---- long streaks (a back-off that needs more than 8 frames)
    for n in ((12, 16, 32, 64) if not ctx.thorough() else (12, 16, 32, 64, 100, 128, 256, 300, 1000, 1030)):
        for variant in (0, 4) if n <= 64 else (0,):
            m, shape = message_for_history(rng, Hs.struct)
            rel = Hs.rel(m)
            ctx.count("hist:noise-streak:long")
            Hs.run(streak_history(rng, rel, n, variant), rel, "noise-streak")
    Hs.flush()
    run_ambient(ctx, Hs)
    Hs.flush()
    Hs.emit()


PROMISE_KINDS = ("not-corrected", "round-trip", "repair-alters-codeword", "encode")


def ambient_compare(steps, outs, bad, name):
    """failures of one history run under an ambient state: what the property promises (bad), and every result against
    the same history run in the plain state on a new copy of the class.  -> [(kind, step, what, expected, actual)]"""
    res = []
    for b in bad:
        if b[0] in PROMISE_KINDS:
            res.append((b[0], b[1], b[2], b[3], b[4]))
    C = fresh_class()
    if C is not None and not res:
        ref = [o for _, o in Hist(C, None).run(steps).lines]
        for i, (a, r) in enumerate(zip(outs, ref)):
            if a != r:
                res.append(("ambient-dependent-result", i, f"step {i} ({' '.join(steps[i])[:50]}) returns something else than in the "
                            "plain state of the interpreter", r, a))
                break
    return res


def run_ambient(ctx, Hs):
    """a fixed small sample of the histories (valid lengths only), each on a new copy of the class, under: root logger at
    DEBUG, sys.stdout that raises, global random generators reseeded before every step (in this process), and — two
    child processes per run — `python -O` (assertions stripped) and `python -O` with DEBUG logging configured
    before the library is imported"""
    sample = []
    for kind in ("reuse", "message-reuse", "streak", "pairwise"):
        sample += Hs.pool.get(kind, [])
    if not sample:
        return
    reported = {}

    def report(steps, name, found):
        kind, i, what, exp, act = found
        C = fresh_class()
        if C is not None and kind in PROMISE_KINDS and any(b[0] == kind for b in Hist(C, None).run(steps[: i + 1]).bad):
            # fails in the plain state as well: an ordinary history (reduced and reported with the others)
            Hs.pending.append((0, kind, steps[: i + 1], what, exp, act, None, None))
            return
        reported[name] = reported.get(name, 0) + 1
        if reported[name] <= 3:
            ctx.fail(kind, {"history": steps_str(steps[: i + 1]), "ambient": name}, f"{what} [{name}]", expected=exp, actual=act)

    per = max(1, min(len(sample), 30 if not ctx.thorough() else 120))
    for a, name in enumerate(("debug-logging", "failing-stdout", "reseeded-random")):
        for j in range(per):
            steps = sample[(a * 7 + j * 3) % len(sample)]
            H = run_hist_ambient(fresh_class() or Hs.R.B, steps, name)
            ctx.case(("ambient", name, tuple(steps)))
            ctx.count(f"ambient:{name}")
            Hs.lines.append(("bh.reset", "ok"))
            Hs.lines += H.lines
            for found in ambient_compare(steps, [o for _, o in H.lines], H.bad, name)[:1]:
                report(steps, name, found)
    for flags, dbg, name in ((("-O",), False, "python -O"), (("-O",), True, "python -O, DEBUG logging")):
        part = sample if not dbg else sample[:: 4]
        res = run_child(part, flags, dbg)
        hs = res.get("histories") or []
        if not hs:
            ctx.count(f"ambient:{name}:child-failed")
            # the library cannot even be used in that interpreter: the first history is the witness
            ctx.fail("round-trip", {"history": steps_str(part[0]), "ambient": name},
                     f"the child interpreter could not run the sample [{name}]", expected="results", actual=str(res.get("error"))[:200])
            continue
        if not res.get("optimize"):
            ctx.notes.append(f"ambient {name}: the child interpreter did not run optimised; sample skipped")
            continue
        for steps, r in zip(part, hs):
            ctx.case(("ambient", name, tuple(steps)))
            ctx.count(f"ambient:{name}")
            for found in ambient_compare(steps, r["outs"], [tuple(x) for x in r["bad"]], name)[:1]:
                report(steps, name, found)
        if len(hs) < len(part):
            ctx.fail("round-trip", {"history": steps_str(part[len(hs)]), "ambient": name},
                     f"the child interpreter stopped at this history [{name}]", expected="results", actual=str(res.get("error"))[:200])


def correlated(ctx, R, by_rc):
    rng = ctx.rng
    n = ctx.budget(48, 600)
    for i in range(n):
        p = rng.randrange(196)
        byte = format(p, "08b")
        k = i % 6
        if k == 0:
            m = byte + rand_bits(rng, 88)
        elif k == 1:
            m = rand_bits(rng, 88) + byte
        elif k == 2:
            m = rand_bits(rng, 44) + byte + rand_bits(rng, 44)
        else:
            m = rand_bits(rng, 96)
        e = [p]
        if k == 3:
            # the first / last byte of the RECEIVED word is the position of an inverted bit
            c = R.encode(m)
            if len(c) == 196:
                for _ in range(64):
                    m = rand_bits(rng, 96)
                    c = R.encode(m)
                    q = int(c[:8], 2) if i % 2 else int(c[-8:], 2)
                    if len(c) == 196 and 8 <= q < 188:
                        e = [q]
                        break
        elif k == 4:
            # table cell (row, column) = (first nibble, second nibble) of the message
            r_, c_ = int(m[:4], 2) % 13, int(m[4:8], 2) % 15
            e = [by_rc[(r_, c_)]]
        elif k == 5:
            # the inverted positions are where the message has its first two ones (as on-air positions)
            ones = [j for j in range(96) if m[j] == "1"][:2]
            e = ones or [p]
        if rng.random() < 0.5 and len(e) < 2:
            e.append(rng.choice([q for q in range(196) if q not in e]))
        R.check(m, e, "correlated:position-in-content", corr_level=1)
    # messages that reappear inside their own code word
    alg = Algebra(({k: v[0] for k, v in R.B.INTERLEAVING_INDICES.items()},
                   [k for k, v in R.B.INTERLEAVING_INDICES.items() if not v[3] and not v[4]], []), by_rc)
    if alg.ok:
        for name, positions in (("first-96", list(range(96))), ("last-96", list(range(100, 196))), ("info-cells", alg.info_pos),
                                ("middle-96", list(range(50, 146))), ("reversed-last-96", list(range(195, 99, -1)))):
            ker = alg.fixed_points(positions)
            ctx.count(f"correlated:fixed-points:{name}", len(ker))
            for _ in range(min(len(ker) * 2, ctx.budget(4, 24))):
                d = 0
                for t in rng.sample(ker, rng.randint(1, len(ker))):
                    d ^= t
                if d:
                    m = Algebra.msg(d)
                    for e, tag in patterns_for(rng, by_rc, 4):
                        if len(e) <= 2:
                            R.check(m, e, "correlated:message-inside-its-code-word", corr_level=1)


def scale_stream(ctx, R):
    """N distinct messages encoded one after the other on the long-lived class (N past 8192; thorough past 65536), each
    decoded without repair, every 4th with 1-2 inverted bits and repair; then the earliest and the latest are encoded
    again and must come out as before"""
    rng, B = ctx.rng, R.B
    n = 8300 if not ctx.thorough() else 66000
    if ctx.boost > 1:
        n = 8300 if not ctx.thorough() else 20000  # the stream is about the count, not about a changed source
    base = rng.getrandbits(96)
    kept = {}
    bad = 0
    for i in range(n):
        m = format((base + i * 0x9E3779B97F4A7C15F39CC0605CEDC835) % (1 << 96), "096b")
        c = call(B.encode, bitarray(m))
        if i < 64 or i >= n - 64:
            kept[m] = c
        ctx.count("scale:encode")
        if len(c) != 196 or c.startswith("ERR"):
            bad += 1
            if bad <= 3:
                ctx.fail("encode", {"message": m, "error_positions": [], "stream_index": i}, "encode of a 96-bit message does not return 196 bits "
                         f"(message {i} of a stream of distinct messages)", expected="196 bits", actual=c[:40])
            continue
        d0 = call(B.deinterleave_data_bits, bitarray(c), False)
        if d0 != m:
            bad += 1
            if bad <= 3:
                ctx.fail("round-trip", {"message": m, "error_positions": [], "stream_index": i},
                         f"decoder without repair does not return the message (message {i} of a stream of distinct messages)", expected=m, actual=d0)
        if i % 4 == 0:
            e = sorted(rng.sample(range(196), 1 + (i // 4) % 2))
            d1 = call(B.deinterleave_data_bits, bitarray(flip(c, e)), True)
            ctx.count("scale:decode-with-repair")
            if d1 != m:
                bad += 1
                if bad <= 3:
                    ctx.fail("not-corrected", {"message": m, "error_positions": e, "stream_index": i},
                             f"decoder with repair does not return the message (message {i} of a stream of distinct messages)", expected=m, actual=d1)
    ctx.case(("scale-stream", n, base))
    for m, c in kept.items():
        c2 = call(B.encode, bitarray(m))
        ctx.count("scale:encoded-again")
        if c2 != c:
            ctx.fail("encode", {"message": m, "error_positions": [], "after_stream_of": n},
                     "encode returns another code word for the same message after a long stream of other messages", expected=c, actual=c2)


# ======================================================================================================
# Round 4: the STRUCTURE of the message in the 9x11 payload block of the table, correlated with the error
# positions.  The repair is content-independent (Props/C02: repair_content_independent — what it does to a
# received word depends on the error pattern only), so unit / random messages say everything about the code
# as it is; a change that looks at the CONTENT of the received table (rows that "look like padding", a row that
# "repeats" its neighbour, a column that "is empty", a line of weight k …) breaks that, and fails only for
# messages that have such a structure AND errors that hit exactly the bits that make the structure.  Messages
# are therefore generated by LINE structure (a line = a table row, or — transposed — a table column), and the
# <= 2 errors are AIMED at the structure:
#
#   near-special   two lines are ONE bit (the same position p) away from a special content: empty, all ones,
#                  alternating, a code word with empty parity part, equal to every other line, equal to the line
#                  above / below / two / three above, the XOR of the two lines above, the complement of the line
#                  above; the other lines: random, empty outside / before / after (the two lines are the outermost
#                  used ones, the top two, the bottom two), all equal, period 2 / 3, lone bits; every position p x
#                  every pair of line positions; errors: the two extra bits, the bits on the other side of the
#                  relation, the parity cells in which the two lines differ from the special content, one of them
#                  and any cell of the crossing line / of the same line, each alone
#   aligned        two lines ARE special (equal to the line above / two / three above, empty, full, equal to all);
#                  errors in the same position of both (every position incl. parity), in a line and its twin
#   window         the used lines are a window [a, b] (dense, only its ends, every other line); errors in the first
#                  and last used line, the first two, the last two, just outside, across the edge
#   lone           every line holds exactly one set bit (same position, diagonals, random); errors at pairs of them;
#                  lines of weight exactly k (0..P) that an error takes to k-1 / k+1; messages of weight 0..96
#   parity-lines   the same one-bit-off structure in the PARITY lines of the table (rows 9..12 / columns 11..14;
#                  the message is found by GF(2) elimination on the unit code words) and in one payload + one
#                  parity line
#   zero-parity    messages whose code word has an EMPTY parity part (row parity, column parity, checks on checks,
#                  all 100 of them: kernel of the restriction of the code), errors at set data cells
#
# Every frame comes from encode itself and is checked against the property as stated.  A quick run with the
# committed source takes every 4th member of the big families (all of them when the source drifted / thorough).
# ======================================================================================================
STRUCT_ABS = ("empty", "ones", "alt01", "alt10", "kernel", "same-as-all")
# relation -> offsets of the lines the special content is made of
STRUCT_REL = {"above": (-1,), "below": (1,), "two-above": (-2,), "three-above": (-3,), "xor-of-two-above": (-1, -2),
              "complement-of-above": (-1,), "above-shifted-by-one": (-1,)}
FILLS_WINDOW = ("between", "after", "before", "random")
FILLS_ROT = ("random", "same", "period2", "between", "period3", "empty", "after", "lone-same", "before", "lone-diag")
BASE_KINDS = ("random", "kernel", "ones", "alt01", "low", "cw-other", "random", "alt10")


LITERAL_MODULES = ("okdmr.dmrlib.etsi.fec.bptc_196_96", "okdmr.dmrlib.etsi.fec.hamming_15_11_3", "okdmr.dmrlib.etsi.fec.hamming_13_9_3",
                   "okdmr.dmrlib.etsi.fec.hamming_common", "okdmr.dmrlib.etsi.fec.fec_utils")


def harvest_literals():
    """bit patterns written out in the CURRENT source of the modules under test (the check is rebuilt from the tree on every
    run, so a constant that a change compares the table with is visible here): strings of 0 / 1, lists / tuples of the ints 0 / 1
    (4..196 elements), bytes, integer literals above 196 (every smaller value is a position of the interleaving table).
    -> [(from the BPTC module itself, tuple of bits)], in source order, without repetitions"""
    import ast
    import importlib
    out, seen = [], set()
    for n, name in enumerate(LITERAL_MODULES):
        try:
            mod = sys.modules.get(name) or importlib.import_module(name)
            with open(mod.__file__, encoding="utf-8") as fh:
                tree = ast.parse(fh.read())
        except Exception:  # noqa
            continue
        for node in ast.walk(tree):
            bits = None
            if isinstance(node, ast.Constant):
                v = node.value
                if isinstance(v, str) and 4 <= len(v) <= 196 and set(v) <= {"0", "1"}:
                    bits = tuple(int(ch) for ch in v)
                elif type(v) is int and 196 < v and v.bit_length() <= 196:
                    bits = tuple(int(ch) for ch in bin(v)[2:])
                elif isinstance(v, bytes) and 1 <= len(v) <= 24:
                    bits = tuple(int(ch) for b in v for ch in format(b, "08b"))
            elif isinstance(node, (ast.List, ast.Tuple)) and 4 <= len(node.elts) <= 196 and \
                    all(isinstance(e, ast.Constant) and type(e.value) is int and e.value in (0, 1) for e in node.elts):
                bits = tuple(e.value for e in node.elts)
            if bits and any(bits) and bits not in seen:
                seen.add(bits)
                out.append((n == 0, bits))
    return out


class Payload:
    """the payload block of the 13x15 table as the live INTERLEAVING_INDICES lays it out: message bit <-> cell"""

    def __init__(self, by_rc):
        I = bptc().INTERLEAVING_INDICES
        self.by_rc = by_rc
        keys = [k for k, v in I.items() if not v[3] and not v[4]]
        self.cell_of_bit = [(I[k][1] - 1, I[k][2]) for k in keys]
        self.bit_of_cell = {rc: i for i, rc in enumerate(self.cell_of_bit)}
        self.ok = (len(keys) == 96 and len(self.bit_of_cell) == 96
                   and all(0 <= r < 9 and 0 <= c < 11 for r, c in self.cell_of_bit)
                   and all((r, c) in by_rc for r in range(13) for c in range(15))
                   and all((r, 3) in self.bit_of_cell for r in range(9)) and all((3, c) in self.bit_of_cell for c in range(11)))

    def rows(self, m: str):
        """the 9 payload rows of a message as strings ('.' = a cell that carries no message bit)"""
        return ["".join(m[self.bit_of_cell[(r, c)]] if (r, c) in self.bit_of_cell else "." for c in range(11)) for r in range(9)]


class Grid:
    """the table as lines x positions: orientation 'row' (line = table row, position = column: 9 payload lines of 11
    positions) or 'column' (the transpose: 11 payload lines of 9 positions); the parity lines follow the payload lines
    (L..L+3), the parity positions the payload positions (P..P+3).  A line is an int, bit p = position p."""

    def __init__(self, pay, orient, alg):
        self.pay, self.orient = pay, orient
        self.L, self.P = (9, 11) if orient == "row" else (11, 9)
        self.all = (1 << self.P) - 1
        self._free = {}
        # parity of the unit lines under the line code, read from unit code words of a line that is all message bits
        self.par = [0] * self.P
        if alg.ok:
            for p in range(self.P):
                u = alg.units[pay.bit_of_cell[self.rc(3, p)]]
                for q in range(4):
                    if u >> (195 - pay.by_rc[self.rc(3, self.P + q)]) & 1:
                        self.par[p] |= 1 << q
        self.parity = [0] * (1 << self.P)
        for x in range(1, 1 << self.P):
            low = x & -x
            self.parity[x] = self.parity[x ^ low] ^ self.par[low.bit_length() - 1]
        # lines that are code words with an empty parity part
        self.kernel = [x for x in range(1, 1 << self.P) if self.parity[x] == 0] if any(self.par) else []
        # the OTHER code, for 'a line that is the beginning of a code word of the other code'
        self.other_par = None
        self.literals = {}  # name -> content of a line taken from a bit pattern written out in the source

    def add_literals(self, found, rng, cap_main=8, cap_other=2):
        """contents of a line made of the harvested bit patterns: the first / last P bits of a longer one, a shorter one at
        either end of the line, each in both bit orders; every pattern of the BPTC module itself (up to cap_main), a
        seeded choice of the others"""
        P = self.P

        def lines_of(bits):
            n, res = len(bits), []
            cuts = [bits[:P], bits[-P:]] if n >= P else [bits + (0,) * (P - n), (0,) * (P - n) + bits]
            for cut in cuts:
                for order in (cut, cut[::-1]):
                    x = sum(1 << p for p, b in enumerate(order) if b)
                    if x not in (0, self.all) and x not in res:
                        res.append(x)
            return res

        main, other = [], []
        for is_main, bits in found:
            for x in lines_of(bits):
                tgt = main if is_main else other
                if x not in main and x not in other:
                    tgt.append(x)
        chosen = main[:cap_main] + rng.sample(other, min(cap_other, len(other)))
        self.literals = {"literal-" + "".join(str(x >> p & 1) for p in range(P)): x for x in chosen}

    def rc(self, l, p):
        return (l, p) if self.orient == "row" else (p, l)

    def free(self, lines):
        """positions at which every one of the given payload lines carries a message bit"""
        key = frozenset(lines)
        if key not in self._free:
            self._free[key] = sum(1 << p for p in range(self.P) if all(self.rc(l, p) in self.pay.bit_of_cell for l in key))
        return self._free[key]

    def message(self, lines) -> str:
        if self.orient == "row":
            return "".join("1" if lines[r] >> c & 1 else "0" for r, c in self.pay.cell_of_bit)
        return "".join("1" if lines[c] >> r & 1 else "0" for r, c in self.pay.cell_of_bit)

    def base(self, kind, mask, rng):
        P = self.P
        if kind == "random":
            x = rng.getrandbits(P)
        elif kind in ("zero", "empty"):
            x = 0
        elif kind == "ones":
            x = self.all
        elif kind == "alt01":
            x = sum(1 << p for p in range(1, P, 2))
        elif kind == "alt10":
            x = sum(1 << p for p in range(0, P, 2))
        elif kind == "low":
            x = 0
            for p in rng.sample(range(P), rng.choice((1, 2, 2, 3))):
                x |= 1 << p
        elif kind == "kernel":
            ks = [k for k in self.kernel if not k & ~mask]
            x = rng.choice(ks) if ks else 0
        elif kind in self.literals:
            x = self.literals[kind]
        elif kind == "cw-other" and self.other_par is not None:
            # the first P bits of a code word of the other code (9 data bits and its first two parity bits in a row)
            d = rng.getrandbits(self.P - 2)
            x = d | (self.other_par[d] & 3) << (self.P - 2)
        else:
            x = rng.getrandbits(P)
        return x & mask

    def nonempty(self, x, mask, rng):
        return x if x & mask else 1 << rng.choice([p for p in range(self.P) if mask >> p & 1])


def solve_affine(eqs):
    """GF(2): eqs = [(coefficient mask, right-hand side)] -> (the solution whose free variables are 0, the reduced pivot
    rows {pivot variable: (mask, right-hand side)}) or None when the equations contradict each other"""
    piv = {}
    for a, t in eqs:
        while a:
            h = a.bit_length() - 1
            if h not in piv:
                piv[h] = (a, t)
                break
            a, t = a ^ piv[h][0], t ^ piv[h][1]
        else:
            if t:
                return None
    hs = sorted(piv)
    for h in hs:
        a, t = piv[h]
        for g in hs:
            if g > h and piv[g][0] >> h & 1:
                piv[g] = (piv[g][0] ^ a, piv[g][1] ^ t)
    part = 0
    for h in hs:
        if piv[h][1]:
            part |= 1 << h
    return part, piv


class Structures:
    def __init__(self, ctx, R, by_rc):
        self.ctx, self.R, self.rng = ctx, R, ctx.rng
        self.pay = Payload(by_rc)
        self.ok = self.pay.ok
        self.hist_aims = {}
        if not self.ok:
            return
        I = R.B.INTERLEAVING_INDICES
        self.alg = Algebra(({k: v[0] for k, v in I.items()}, [k for k, v in I.items() if not v[3] and not v[4]], []), by_rc)
        self.grids = {o: Grid(self.pay, o, self.alg) for o in ("row", "column")}
        self.grids["row"].other_par = self.grids["column"].parity
        try:
            found = harvest_literals()
        except Exception:  # noqa
            found = []
        ctx.count("structure:literals-in-the-source", len(found))
        for g in self.grids.values():
            g.add_literals(found, self.rng)
        self.literal_messages = [bits for _, bits in found if len(bits) == 96][:8]
        self.n = 0
        # more messages of the small families and more aimed patterns per message (thorough / the proof or the
        # correspondence broke): 4 times the seeded choice of a quick run; every aimed pattern when both hold
        self.full = ctx.thorough() or ctx.boost >= 8
        self.every = ctx.thorough() and ctx.boost >= 8
        self.mult = 4 if self.full else 1
        # every member of the big families (thorough / the source drifted), or every 4th
        self.stride = 1 if (ctx.thorough() or ctx.boost >= 3) else 4
        self.offset = self.rng.randrange(self.stride)
        # coefficient mask of every on-air position: which message bits its code word bit is the sum of
        self.coef = [0] * 196
        for i, u in enumerate(self.alg.units):
            for p in _positions(u):
                self.coef[p] |= 1 << i

    # ---- one structured message and the error patterns aimed at it
    def emit(self, g, family, desc, lines, groups, m=None):
        """groups: [([(name, cells of the table), …], how many of them a quick run takes)]; the clean code word of
        every other message goes along (round trip, repair leaves it alone)"""
        rng, ctx = self.rng, self.ctx
        m = g.message(lines) if m is None else m
        extra = {"structure": f"{g.orient}s as lines; {desc}", "payload_rows": self.pay.rows(m)}
        self.n += 1
        if self.n % 8 == 0:
            self.layout_lines(m, extra["payload_rows"])
        chosen = []
        for pats, k in groups:
            pats = [pt for pt in pats if pt[1]]
            chosen += pats if (self.every or k * self.mult >= len(pats)) else rng.sample(pats, k * self.mult)
        if self.full or self.n % 2 == 0:
            chosen.append(("clean", ()))
        ctx.count(f"structure:{family}:messages")
        seen = set()
        for j, (name, cells) in enumerate(chosen):
            pos = tuple(sorted({self.pay.by_rc[rc] for rc in cells}))
            if pos in seen:
                continue
            seen.add(pos)
            ctx.count(f"structure:aim:{name}")
            if self.n % 8 == 0 and j == 0:
                self.layout_lines(m, None, pos)
            self.R.check(m, pos, f"structure:{family}", corr_level=1 if (self.n + j) % 10 == 0 else 0, sample=(self.n == 5 and j == 0),
                         extra=dict(extra, errors_aimed_at=name), enc_corr=(self.n % 5 == 0))

    def layout_lines(self, m, rows, pos=None):
        """model vs code on the LAYOUT the generator relies on: the payload rows fill_encoding_table lays a message out in
        (bptc.rows), the 13x15 table repair_if_necessary builds from a received word (bptc.table); the generator's own
        reading of INTERLEAVING_INDICES is compared with what the class does as well"""
        ctx, B = self.ctx, self.R.B
        if ctx.search_only or not ctx.driver_ok:
            return

        def table(x, nr, nc, deint):
            try:
                b = bitarray(x)
                t = B.fill_encoding_table(B.make_encoding_table(), B.deinterleave_all_bits(b) if deint else b)
                return "/".join("".join("1" if t[r][c] == 1 else "0" if t[r][c] == 0 else "?" for c in range(nc)) for r in range(nr))
            except BaseException as e:  # noqa
                return impl_error(e)

        if pos is None:
            out = table(m, 9, 11, False)
            self.R.corr["encode"].append((f"bptc.rows {m}", out))
            ctx.count("structure:layout:rows-compared")
            if out != "/".join(r.replace(".", "0") for r in rows):
                ctx.count("structure:layout:fill-differs-from-the-interleaving-table")
        else:
            c = self.R.encode(m)
            if len(c) == 196 and not c.startswith("ERR"):
                w = flip(c, pos)
                out = table(w, 13, 15, True)
                self.R.corr["repair"].append((f"bptc.table {w}", out))
                ctx.count("structure:layout:received-table-compared")
                if out != "/".join("".join(w[self.pay.by_rc[(r, q)]] for q in range(15)) for r in range(13)):
                    ctx.count("structure:layout:received-table-differs-from-the-interleaving-table")

    def fill_fn(self, g, fill, l1, l2, p):
        """content of the lines that are not part of the structure"""
        rng = self.rng
        xs = [g.base(rng.choice(BASE_KINDS), g.all, rng) for _ in range(3)]

        def f(l):
            if fill == "random":
                return rng.getrandbits(g.P)
            if fill == "empty":
                return 0
            if fill == "between":
                return g.nonempty(rng.getrandbits(g.P), g.free({l}), rng) if l1 < l < l2 else 0
            if fill == "after":
                return g.nonempty(rng.getrandbits(g.P), g.free({l}), rng) if l > l2 else 0
            if fill == "before":
                return g.nonempty(rng.getrandbits(g.P), g.free({l}), rng) if l < l1 else 0
            if fill == "same":
                return xs[0]
            if fill == "period2":
                return xs[l % 2]
            if fill == "period3":
                return xs[l % 3]
            if fill == "lone-same":
                return 1 << p
            if fill == "lone-diag":
                return 1 << ((l + p) % g.P)
            return rng.getrandbits(g.P)

        return f, xs

    def aims_near(self, g, p, l1, l2, others=()):
        """error patterns aimed at two lines that are one bit (position p) away from something special"""
        rng, P, L = self.rng, g.P, g.L
        a1, a2 = g.rc(l1, p), g.rc(l2, p)
        key = [("both-extra-bits", (a1, a2))]
        sec = []
        if others:
            b1, b2 = others
            sec += [("extra-bit+other-side", (a1, g.rc(b2, p))), ("other-side+extra-bit", (g.rc(b1, p), a2)),
                    ("both-other-sides", (g.rc(b1, p), g.rc(b2, p)))]
        qs = [q for q in range(4) if g.par[p] >> q & 1]
        sec += [("differing-parity-cells", (g.rc(l1, P + q), g.rc(l2, P + q))) for q in qs]
        sec += [("extra-bit+differing-parity-cell", (a1, g.rc(l2, P + q))) for q in qs[:1]]
        sec += [("one-extra-bit", (a1,)), ("one-extra-bit", (a2,))]
        cross = [l for l in range(L + 4) if l not in (l1, l2)]
        sec += [("extra-bit+crossing-line", (a1, g.rc(l, p))) for l in rng.sample(cross, 3)]
        sec += [("extra-bit+crossing-line", (a2, g.rc(rng.choice(cross), p)))]
        sec += [("extra-bit+same-line", (a1, g.rc(l1, q))) for q in rng.sample([q for q in range(P + 4) if q != p], 2)]
        if g.orient == "column" and p < 9:
            # the row pass runs first and "corrects" a third cell of a table row that holds two errors: two errors in
            # table row p chosen so that the third cell is the extra bit of line l1 / l2
            syn = self.grids["row"].par + [1, 2, 4, 8]
            for l in (l1, l2):
                j1 = rng.choice([j for j in range(15) if j != l])
                j2 = [j for j in range(15) if syn[j] == syn[j1] ^ syn[l]]
                if j2 and j2[0] not in (j1, l):
                    sec.append(("row-pass-miscorrection-lands-on-extra-bit", ((p, j1), (p, j2[0]))))
        return [(key, 1), (sec, 1)]

    def build_near(self, g, S, p, l1, l2, fill):
        """lines l1 < l2 one bit (position p) away from the special content S -> (lines, description, other-side lines)"""
        rng, L = self.rng, g.L
        offs = STRUCT_REL.get(S)
        special = (l1, l2)
        involved = set(special)
        if offs:
            if any(not 0 <= l + o < L for l in special for o in offs):
                return None
            involved |= {l + o for l in special for o in offs}
        mask = g.free(involved)
        if not mask >> p & 1:
            return None
        f, xs = self.fill_fn(g, fill, l1, l2, p)
        lines = [f(l) & g.free({l}) for l in range(L)]
        for l in involved:
            lines[l] &= mask
        S0 = None
        if S == "same-as-all":
            S0 = xs[0] & mask
            lines = [(xs[0] & g.free({l})) for l in range(L)]
        elif not offs:
            S0 = g.base(S, mask, rng)
        for l in (range(L) if not offs or offs[0] < 0 else reversed(range(L))):
            if l in special:
                if offs:
                    ref = 0
                    for o in offs:
                        ref ^= lines[l + o]
                    if S.startswith("complement"):
                        ref = ~ref & mask
                    elif S.endswith("shifted-by-one"):
                        ref = (ref << 1) & mask
                else:
                    ref = S0
                lines[l] = ref ^ (1 << p)
        return lines, f"lines {l1} and {l2} = [{S}] with position {p} inverted, other lines: {fill}", \
            tuple(l + offs[0] for l in special) if offs else ()

    def near_special(self):
        ctx = self.ctx
        for o, g in self.grids.items():
            pairs = list(itertools.combinations(range(g.L), 2))
            for si, S in enumerate(STRUCT_ABS + tuple(STRUCT_REL) + tuple(g.literals)):
                for fi, fill0 in enumerate(FILLS_WINDOW if S == "empty" else (None,)):
                    for pi, (l1, l2) in enumerate(pairs):
                        for p in range(g.P):
                            if (pi + p + fi + si) % self.stride != self.offset:
                                continue
                            fill = fill0 or FILLS_ROT[(pi * 7 + p * 3 + si) % len(FILLS_ROT)]
                            got = self.build_near(g, S, p, l1, l2, fill)
                            if got is None:
                                ctx.count("structure:near-special:not-constructible")
                                continue
                            lines, desc, others = got
                            ctx.count(f"structure:near-special:{o}:{S.split('-')[0] if S in g.literals else S}")
                            ctx.count(f"structure:fill:{fill}")
                            self.emit(g, "near-special", desc, lines, self.aims_near(g, p, l1, l2, others))
            self.R.flush()

    def aligned(self):
        """two lines ARE special (equal to a neighbour, empty, full, equal to all others); errors in the same position
        of both lines — every position, parity included — and in a line and its twin"""
        ctx, rng = self.ctx, self.rng
        for o, g in self.grids.items():
            pairs = list(itertools.combinations(range(g.L), 2))
            n = 0
            for S in ("above", "two-above", "three-above", "empty", "ones", "same-as-all", "kernel", "alt01") + tuple(g.literals):
                offs = STRUCT_REL.get(S)
                for l1, l2 in pairs:
                    involved = {l1, l2}
                    if offs:
                        if l1 + offs[0] < 0:
                            continue
                        involved |= {l1 + offs[0], l2 + offs[0]}
                    mask = g.free(involved)
                    n += 1
                    fill = FILLS_ROT[n % 4]  # random, same, period2, between
                    f, xs = self.fill_fn(g, fill, l1, l2, n % g.P)
                    lines = [f(l) & g.free({l}) for l in range(g.L)]
                    if S == "same-as-all":
                        lines = [xs[0] & g.free({l}) for l in range(g.L)]
                    for l in involved:
                        lines[l] &= mask
                    if offs:
                        for l in (l1, l2):  # ascending: a chain l2 = l1 + 1 copies the copy
                            lines[l] = lines[l + offs[0]]
                    elif S != "same-as-all":
                        lines[l1], lines[l2] = g.base(S, mask, rng), g.base(S, mask, rng)
                    allq = range(g.P + 4)
                    groups = [([("same-position-in-both", (g.rc(l1, q), g.rc(l2, q))) for q in allq], 3)]
                    if offs:
                        groups.append(([("line-and-its-twin", (g.rc(l + offs[0], q), g.rc(l, q))) for q in allq for l in (l1, l2)], 2))
                    groups.append(([("two-in-one-special-line", (g.rc(l1, q), g.rc(l1, (q + 1 + n) % (g.P + 4)))) for q in allq], 1))
                    ctx.count(f"structure:aligned:{o}:{S.split('-')[0] if S in g.literals else S}")
                    self.emit(g, "aligned", f"lines {l1} and {l2} are [{S}], other lines: {fill}", lines, groups)
        self.R.flush()

    def window(self):
        """the used lines are a window [a, b]: empty lines at the top / bottom / in the middle"""
        ctx, rng = self.ctx, self.rng
        for o, g in self.grids.items():
            L, P = g.L, g.P
            for a in range(L):
                for b in range(a, L):
                    v = ("dense", "only-the-ends", "every-other-line")[(a * 3 + b) % 3]
                    lines = [0] * L
                    for l in range(a, b + 1):
                        if v == "dense" or l in (a, b) or (v == "every-other-line" and (l - a) % 2 == 0):
                            lines[l] = g.nonempty(rng.getrandbits(P) & g.free({l}), g.free({l}), rng)
                    allq = range(P + 4)
                    groups = []
                    if a < b:
                        groups.append(([("first-and-last-used-line", (g.rc(a, q), g.rc(b, q))) for q in allq], 2))
                        groups.append(([("first-two-lines-of-the-window", (g.rc(a, q), g.rc(a + 1, q))) for q in allq], 1))
                        groups.append(([("last-two-lines-of-the-window", (g.rc(b - 1, q), g.rc(b, q))) for q in allq], 1))
                    groups.append(([("two-in-the-first-used-line", (g.rc(a, q), g.rc(a, (q + 1 + a + b) % (P + 4)))) for q in allq], 1))
                    out = [l for l in (a - 1, b + 1) if 0 <= l < L]
                    if len(out) == 2:
                        groups.append(([("just-outside-the-window", (g.rc(out[0], q), g.rc(out[1], q))) for q in allq], 1))
                    if out:
                        groups.append(([("across-the-edge", (g.rc(l, q), g.rc(a if l < a else b, q))) for q in allq for l in out], 1))
                        groups.append(([("empty-line-next-to-the-window", (g.rc(l, q),)) for q in allq for l in out], 1))
                    ctx.count(f"structure:window:{o}:{v}")
                    self.emit(g, "window", f"used lines {a}..{b} ({v}), every other line empty", lines, groups)
        self.R.flush()

    def lone(self):
        """every line holds exactly one set bit; lines of weight exactly k; messages of weight exactly k"""
        ctx, rng = self.ctx, self.rng
        for o, g in self.grids.items():
            L, P = g.L, g.P
            places = [(f"all at position {p}", [p] * L) for p in range(P)]
            places += [(f"diagonal from {s}", [(l + s) % P for l in range(L)]) for s in range(P)]
            places += [(f"anti-diagonal from {s}", [(s - l) % P for l in range(L)]) for s in range(P)]
            places += [("random positions", [rng.randrange(P) for _ in range(L)]) for _ in range(3)]
            for name, pos in places:
                lines = [(1 << pos[l]) & g.free({l}) for l in range(L)]
                used = [l for l in range(L) if lines[l]]
                groups = [([("two-lone-bits", (g.rc(l, pos[l]), g.rc(k, pos[k]))) for l, k in itertools.combinations(used, 2)], 6),
                          ([("lone-bit+cell-under-another", (g.rc(l, pos[l]), g.rc(l, pos[k]))) for l in used for k in used if pos[k] != pos[l]], 2)]
                ctx.count(f"structure:lone:{o}:every-line-one-bit")
                self.emit(g, "lone", f"every line holds exactly one set bit ({name})", lines, groups)
            # two lines of weight exactly k, the same position p set in both (an error takes them to k-1) or clear in both (k+1)
            for k in range(P + 1):
                for sign in ("-", "+"):
                    for _ in range(3 if not self.full else 10):
                        l1, l2 = sorted(rng.sample(range(L), 2))
                        mask = g.free({l1, l2})
                        cand = [p for p in range(P) if mask >> p & 1]
                        need = k - 1 if sign == "-" else k
                        if need < 0 or need > len(cand) - 1:
                            continue
                        p = rng.choice(cand)
                        rest = [q for q in cand if q != p]
                        lines = [rng.getrandbits(P) & g.free({l}) for l in range(L)]
                        same = rng.random() < 0.5
                        sup = rng.sample(rest, need)
                        for l in (l1, l2):
                            if not same:
                                sup = rng.sample(rest, need)
                            lines[l] = sum(1 << q for q in sup) | ((1 << p) if sign == "-" else 0)
                        ctx.count(f"structure:lone:{o}:two-lines-of-weight-k")
                        ctx.count(f"structure:line-weight:{k}{sign}1")
                        self.emit(g, "lone", f"lines {l1} and {l2} have weight exactly {k}, position {p} takes both to {k}{sign}1",
                                  lines, self.aims_near(g, p, l1, l2))
        # messages of weight exactly k
        g = self.grids["row"]
        cells = self.pay.cell_of_bit
        for k in range(97):
            sup = sorted(rng.sample(range(96), k))
            sset = set(sup)
            m = "".join("1" if i in sset else "0" for i in range(96))
            ones, zeros = [cells[i] for i in sup], [cells[i] for i in range(96) if m[i] == "0"]
            pats = []
            for name, S in (("two-set-bits", ones), ("two-clear-bits", zeros)):
                same_col = [(x, y) for x, y in itertools.combinations(S, 2) if x[1] == y[1]]
                same_row = [(x, y) for x, y in itertools.combinations(S, 2) if x[0] == y[0]]
                for kind, P2 in (("same-column", same_col), ("same-row", same_row)):
                    if P2:
                        pats.append((f"{name}-{kind}", rng.choice(P2)))
            if ones and zeros:
                pats.append(("one-set-one-clear", (rng.choice(ones), rng.choice(zeros))))
            if ones:
                pats.append(("one-set-bit", (rng.choice(ones),)))
            ctx.count("structure:lone:message-weight-k")
            self.emit(g, "lone", f"message of weight exactly {k}", None, [(pats, 2)], m=m)
        self.R.flush()

    def constrained(self, targets, minimal, eqs=()):
        """a message whose code word holds the given values in the given table cells (GF(2) elimination on the unit
        code words; eqs: further equations (on-air positions whose sum is …, value)), or None; the rest of the message is
        random unless `minimal`"""
        E = [(self.coef[self.pay.by_rc[rc]], v) for rc, v in targets.items()]
        for ps, v in eqs:
            a = 0
            for q in ps:
                a ^= self.coef[q]
            E.append((a, v))
        got = solve_affine(E)
        if got is None:
            return None
        x, piv = got
        if not minimal:
            for f in range(96):
                if f not in piv and self.rng.getrandbits(1):
                    x ^= 1 << f
                    for h, (a, _) in piv.items():
                        if a >> f & 1:
                            x ^= 1 << h
        return Algebra.msg(x)

    def parity_lines(self):
        """the one-bit-off structure in the parity lines of the table (and in one payload + one parity line)"""
        ctx, rng = self.ctx, self.rng
        if not self.alg.ok:
            return
        n = 0
        for o, g in self.grids.items():
            L, P = g.L, g.P
            pairs = [(l1, l2) for l1 in range(L + 4) for l2 in range(max(l1 + 1, L), L + 4)]
            for si, S in enumerate(("empty", "ones", "alt01", "above")):
                for pi, (l1, l2) in enumerate(pairs):
                    for p in range(P):
                        if (pi + p + si) % self.stride != self.offset:
                            continue
                        n += 1
                        targets, eqs, bad = {}, [], False
                        for l in (l1, l2):
                            mask = g.free({l}) if l < L else g.all
                            if S == "above":
                                # the line equals the line before it (payload or parity) but for position p
                                mask &= g.free({l - 1}) if 0 < l <= L else g.all if l > L else 0
                                eqs += [((self.pay.by_rc[g.rc(l, q)], self.pay.by_rc[g.rc(l - 1, q)]), int(q == p))
                                        for q in range(P) if mask >> q & 1]
                            else:
                                x = g.base(S, mask, rng) ^ (1 << p)
                                for q in range(P):
                                    if mask >> q & 1:
                                        targets[g.rc(l, q)] = x >> q & 1
                            if not mask >> p & 1:
                                bad = True
                        m = None if bad else self.constrained(targets, minimal=(n % 3 == 0), eqs=eqs)
                        if m is None:
                            ctx.count("structure:parity-lines:not-constructible")
                            continue
                        c = self.R.encode(m, n % 5 == 0)
                        reached = len(c) == 196 and all(c[self.pay.by_rc[rc]] == "01"[v] for rc, v in targets.items()) \
                            and all((c[a] != c[b]) == bool(v) for (a, b), v in eqs)
                        ctx.count(f"structure:parity-lines:{o}:{S}" + ("" if reached else ":not-reached"))
                        self.emit(g, "parity-lines", f"lines {l1} and {l2} (parity lines from {L}) = [{S}] with position {p} inverted, "
                                  + ("smallest such message" if n % 3 == 0 else "rest of the message random"), None,
                                  self.aims_near(g, p, l1, l2), m=m)
            self.R.flush()

    def zero_parity(self):
        """messages whose code word has an empty parity part (kernel of the restriction of the code to that part)"""
        ctx, rng, alg, by_rc = self.ctx, self.rng, self.alg, self.pay.by_rc
        if not alg.ok:
            return
        alg.regions["zero:row-parity"] = [by_rc[(r, c)] for r in range(9) for c in range(11, 15)]
        alg.regions["zero:column-parity"] = [by_rc[(r, c)] for r in range(9, 13) for c in range(11)]
        alg.regions["zero:checks-on-checks"] = [by_rc[(r, c)] for r in range(9, 13) for c in range(11, 15)]
        alg.regions["zero:all-parity"] = alg.regions["parity"]
        g = self.grids["row"]
        for name in ("zero:row-parity", "zero:column-parity", "zero:checks-on-checks", "zero:all-parity"):
            ker, _ = alg._solve(name)
            part = set(alg.regions[name])
            part_cells = [rc for rc in by_rc if by_rc[rc] in part]
            ctx.count(f"structure:zero-parity:{name[5:]}:dimension", len(ker))
            if not ker:
                continue
            for i in range(8 if not self.full else 40):
                d = 0
                for t in rng.sample(ker, min(len(ker), rng.choice((1, 1, 2, 3, len(ker) // 2 or 1)))):
                    d ^= t
                if not d:
                    continue
                m = Algebra.msg(d)
                ones = [self.pay.cell_of_bit[j] for j in range(96) if m[j] == "1"]
                pats = []
                for kind, idx in (("same-column", 1), ("same-row", 0)):
                    P2 = [(x, y) for x, y in itertools.combinations(ones, 2) if x[idx] == y[idx]]
                    pats += [(f"two-set-data-cells-{kind}", pr) for pr in rng.sample(P2, min(2, len(P2)))]
                if len(ones) >= 2:
                    pats.append(("two-set-data-cells", tuple(rng.sample(ones, 2))))
                x = rng.choice(ones)
                pats.append(("set-data-cell+its-row-parity", (x, (x[0], rng.randrange(11, 15)))))
                pats.append(("set-data-cell+its-column-parity", (x, (rng.randrange(9, 13), x[1]))))
                pats.append(("two-cells-of-the-empty-part", tuple(rng.sample(part_cells, 2))))
                pats.append(("one-set-data-cell", (x,)))
                ctx.count(f"structure:zero-parity:{name[5:]}")
                self.emit(g, "zero-parity", f"code word with an empty part: {name[5:]}", None, [(pats, 4)], m=m)
        self.R.flush()

    def regions(self):
        """messages whose code word is EMPTY / FULL on a region of the frame as it is transmitted (the first / last k
        bits, a table row or column, every other bit, the info cells …), or one bit away from that; errors inside the
        region, outside of it, at the odd bit"""
        ctx, rng, alg = self.ctx, self.rng, self.alg
        if not alg.ok:
            return
        info = [q for q in alg.info_pos]
        for name in sorted(n for n in alg.regions if not n.startswith("zero:")):
            reg = [q for q in alg.regions[name] if self.coef[q]]
            kind = name.split("-")[0]
            for value in (0, 1):
                for near in (False, True):
                    odd = rng.choice(reg) if near else None
                    tg = [((q,), value ^ int(q == odd)) for q in reg]
                    m = self.constrained({}, minimal=rng.random() < 0.5, eqs=tg)
                    if m is None:
                        ctx.count(f"structure:regions:{kind}:not-constructible")
                        continue
                    outside = [q for q in info if q not in set(reg)] or info
                    pats = [("two-inside-the-region", tuple(rng.sample(reg, 2))) if len(reg) > 1 else ("one-inside-the-region", (reg[0],)),
                            ("one-inside+info-bit-outside", (rng.choice(reg), rng.choice(outside))),
                            ("two-info-bits-outside", tuple(rng.sample(outside, min(2, len(outside))))),
                            ("one-info-bit-outside", (rng.choice(outside),))]
                    key = [("odd-bit+info-bit-outside", (odd, rng.choice([q for q in outside if q != odd] or info))), ("odd-bit", (odd,))] if near else []
                    ctx.count(f"structure:regions:{kind}:{'full' if value else 'empty'}{':one-bit-off' if near else ''}")
                    self.n += 1
                    extra = {"structure": f"code word {'full' if value else 'empty'} on the region {name} of the frame"
                             + (f" but for on-air position {odd}" if near else ""), "payload_rows": self.pay.rows(m)}
                    for j, (nm, pos) in enumerate(key + (pats if self.full else rng.sample(pats, 2)) + [("clean", ())]):
                        ctx.count(f"structure:aim:{nm}")
                        self.R.check(m, tuple(sorted(set(pos))), "structure:regions", corr_level=1 if (self.n + j) % 10 == 0 else 0,
                                     extra=dict(extra, errors_aimed_at=nm), enc_corr=(self.n % 5 == 0))
        self.R.flush()

    def light(self):
        """the lightest / heaviest code words (unit messages, pairs of them that give a light code word, their complements)
        with the errors at cells that are SET (clear) in the code word: the frame's weight, and the weight of the rows
        and columns hit, go below (above) anything an intact frame of that message can have"""
        ctx, rng, alg = self.ctx, self.rng, self.alg
        if not alg.ok:
            return
        g = self.grids["row"]
        cell_of = {q: rc for rc, q in self.pay.by_rc.items()}
        msgs = [(1 << i, "unit message") for i in range(96)]
        low = [d for d, x in alg.low[96:]]
        msgs += [(d, "two message bits, light code word") for d in rng.sample(low, min(len(low), 24 if not self.full else 200))]
        ones = (1 << 96) - 1
        msgs += [(ones, "all-one message")] + [(ones ^ (1 << i), "all but one message bit") for i in rng.sample(range(96), 12 if not self.full else 96)]
        msgs += [(sum(1 << i for i, b in enumerate(bits) if b), "96-bit pattern written out in the source") for bits in self.literal_messages]
        for k, (d, what) in enumerate(msgs):
            m = Algebra.msg(d)
            c = self.R.encode(m, k % 5 == 0)
            if len(c) != 196 or c.startswith("ERR"):
                continue
            heavy = bin(d).count("1") > 48
            hit = [q for q in range(196) if q in cell_of and c[q] == ("0" if heavy else "1")]
            if len(hit) < 2:
                continue
            pairs = list(itertools.combinations(hit, 2))
            pats = [("two-set-cells" if not heavy else "two-clear-cells", tuple(cell_of[q] for q in pr)) for pr in pairs]
            pats += [("one-set-cell" if not heavy else "one-clear-cell", (cell_of[q],)) for q in hit]
            ctx.count(f"structure:light:{'heavy' if heavy else 'light'}-code-word")
            self.emit(g, "light", f"{what}: code word of weight {c.count('1')}", None, [(pats, 6 if not heavy else 3)], m=m)
        self.R.flush()

    def run(self):
        if not self.ok:
            self.ctx.count("structure:layout-not-usable")
            return
        self.near_special()
        self.aligned()
        self.window()
        self.lone()
        self.parity_lines()
        self.zero_parity()
        self.regions()
        self.light()


def structured(ctx, R, by_rc):
    try:
        S = Structures(ctx, R, by_rc)
    except Exception:  # noqa  (a layout the generator cannot read: the other classes still run; the tables are proof obligations)
        ctx.count("structure:layout-not-usable")
        return
    S.run()


# ------------------------------------------------------------------------------------------------
# history / object-identity probes (harness/histories.py); the adapters of the four FEC properties live in harness/hist_fec.py
def ENTRY_POINTS():
    import hist_fec

    return hist_fec.entry_points("c02")


def run(ctx):
    import histories

    histories.run(ctx, ENTRY_POINTS)  # generic history / object-identity probes (adapters: harness/hist_fec.py)
    ctx.rule = (
        "message = 96 seeded random bits (plus all-zero, all-one, the 96 unit messages in thorough); error pattern = set of "
        "inverted on-air positions of weight 0..4 drawn from the structural classes of the 13x15 table (clean, single, "
        "pair in one row / one column / parity-on-parity corner / with R(3) / random, triple, quadruple); corpus = the 616 "
        "pairs that failed before fix 23ad248; thorough additionally enumerates all 19,307 patterns of weight <= 2 on "
        "several random code words.  A case is (message, pattern); all are non-trivial; distinct = distinct pair.  "
        "Histories of calls (one long-lived class object for the whole run): every pair (what was called before: encode of "
        "196-bit inputs sharing the integer value / prefix / suffix / info bits with the message, blocks with non-zero "
        "reserved bits through encode / repair / decode / deinterleave / fill, tables and results the caller overwrote, "
        "wrong lengths, little-endian containers) x (call under observation: encode, encode twice, decode, repair, "
        "encode-keep-flip-decode, make-fill-encode), each with a message of its own (random, leading / trailing zeros, low "
        "weight, all-zero, all-one), plus random interleavings of all entry points (4-14 steps) with kept objects passed "
        "again, overwritten and calls repeated.  Every call is compared with the same call made first on a new copy of the "
        "class and with the stateful model; arguments and kept objects are re-read after every step; every code word "
        "handed out for a 96-bit message is decoded afterwards (clean, repair, 4 error patterns of weight <= 2).  A case is "
        "one history.  Round 3: (a) ONE buffer of the caller (its own bitarray, or an object encode / repair handed out) is "
        "overwritten IN PLACE (buf[:] = ..., clear+extend, single bit flips) and handed in again, the two contents being a pair "
        "found with the GF(2) structure of the code (unit code words, kernel of the restriction of the code to a region, "
        "low-weight code words): same 96 info bits / same 100 parity+reserved bits / same first or last 8..144 bits / same "
        "row or column of the table / same even or odd bits but another message, same number of ones, same syndromes, the "
        "repaired / damaged version, a neighbouring code word, same message with other errors, unrelated, garbage; through "
        "the decoder with and without repair, repair_if_necessary, deinterleave_all_bits, encode; one buffer, two buffers "
        "alternating, or new bitarrays that are dropped after each call; results scribbled on between repeated calls.  (b) ONE "
        "message buffer overwritten in place with a related message (same prefix / suffix, same count, code word agreeing on "
        "a region, other accepted length with the same value, rotated) and encoded again.  (c) streaks of 1..8 (and 12..64; "
        "thorough up to 1030) frames that cannot be repaired (random, 4-12 errors, error squares, whole row / column, burst, "
        "inverted, constant) or calls that raise (wrong lengths, wrong types, non-default mode; one entry point or mixed) "
        "immediately followed by frames within two inverted bits of a code word; a share of all of these runs on a new copy "
        "of the class (its first calls ever).  (d) messages / received words whose bytes equal an inverted position, messages "
        "that reappear as a slice of their own code word.  (e) a stream of 8300 (thorough 66000) distinct messages through "
        "the long-lived class.  (f) ambient: a fixed sample of the histories with valid lengths again with the root logger "
        "at DEBUG, sys.stdout that raises, global random reseeded before every step, and in child interpreters `python -O` "
        "and `python -O` with DEBUG logging configured before import; results compared with the promise and with the plain run.  "
        "Round 4: messages built by LINE STRUCTURE in the 9x11 payload block of the table (line = table row, or transposed: table "
        "column) with the <= 2 errors AIMED at the structure.  near-special: two lines one bit (the same position p) away from a "
        "special content — empty, all ones, alternating, a code word with empty parity part, equal to every other line, equal to the "
        "line above / below / two / three above, XOR of the two lines above, complement / shift of the line above, a bit pattern "
        "written out in the current source of the anchored files — for every p x every pair of line positions (a quick run on the "
        "committed source takes every 4th member, seeded offset; all of them when the source drifted and in thorough); other lines "
        "random / empty outside, before, after (the two lines are the outermost used ones, the top two, the bottom two) / all equal / "
        "period 2, 3 / lone bits; errors: the two extra bits (always), and the bits on the other side of the relation, the parity cells "
        "in which the lines differ from the special content, an extra bit plus a cell of the crossing / the same line, the two cells "
        "whose row-pass mis-correction lands on the extra bit, each extra bit alone (quick: one of these, thorough: all).  aligned: two "
        "lines ARE special; errors in the same position of both (every position, parity included), in a line and its twin.  window: "
        "the used lines are [a, b] (dense, only the ends, every other line); errors in the first and last used line, the first two, the "
        "last two, just outside, across the edge.  lone: every line exactly one set bit (same position, diagonals, random) with errors "
        "at pairs of them; two lines of weight exactly k = 0..P taken to k-1 / k+1; messages of weight 0..96.  parity-lines: the one-bit-"
        "off structure in the parity rows 9..12 / columns 11..14 and in one payload + one parity line (message found by GF(2) "
        "elimination on the unit code words, checked on the real code word).  zero-parity / regions: code words with an empty row-"
        "parity / column-parity / checks-on-checks / whole parity part, code words empty or full (or one bit off) on a region of the "
        "transmitted frame.  light: unit messages, light pairs, all-one and all-but-one messages with the errors at set (clear) cells "
        "of the code word.  The clean code word of every other such message is checked too; model vs code on the layout itself "
        "(bptc.rows / bptc.table against fill_encoding_table of the real class); 12 % of the histories use such a message with the "
        "aimed errors."
    )
    ctx.trusted_base += [
        "Lean 4.33 kernel",
        "tools/extract_bptc.py (INTERLEAVING_INDICES and the four derived maps of BPTC19696, in dict order) and tools/extract.py (Hamming matrices)",
        "hand-written model Model/Bptc.lean (loops as scatter/gather over the extracted tables, row/column passes as maps calling Code.correct) tied to the code by this run's correspondence on encode / deinterleave_data_bits / repair_if_necessary",
        "numpy / bitarray are trusted as the substrate of the implementation",
        "Model/BptcHist.lean (objects handed out so far, calls as history-free functions of their arguments, fill_encoding_table "
        "on the table it is given) tied to the code by this run's correspondence on histories (bh.* lines)",
        "the 'first call' reference of the history probes is the module source executed again in a module object of its own "
        "(state kept in the Hamming classes or other modules would be shared with it; the model comparison does not depend on it)",
        "the related frames of the buffer re-use histories are FOUND by GF(2)-linear algebra on the unit code words of a new copy of "
        "the class; what is promised for them is only the property as stated (a word within two inverted bits of encode(m) decodes to "
        "m, checked against the content the object really holds when the call is made)",
        "calls outside the modelled domain (wrong types, repair_if_necessary(deinterleaved=True)) are compared with the same call on a "
        "new copy of the class only (the model sees a no-op)",
        "the structured messages of round 4 are BUILT from the harness' reading of INTERLEAVING_INDICES (message bit <-> table cell, cell "
        "<-> on-air position; compared with fill_encoding_table of the class and with the model ops bptc.rows / bptc.table on every run) "
        "and, for structures in the parity lines, by GF(2) elimination on the unit code words of a new copy of the class; what is checked "
        "for them is only the property as stated, on frames that encode itself produced",
    ]
    ctx.assumptions += [
        "inputs are bitarrays (big-endian containers; little-endian containers with the same bit sequence in the history probes: the entry points index the bits, so the model ignores the container's bit order); messages have 96 bits, received words 196 bits (other lengths: both sides raise/return AssertionError, compared)",
        "make_encoding_table / fill_encoding_table are exercised with 13x15 integer tables holding 0/1 only",
        "repair_if_necessary is modelled for deinterleaved=False only (the library never passes True)",
        "ambient states are sampled, not enumerated: python -O, DEBUG logging, failing sys.stdout, reseeded random; forced thread "
        "interleavings are out of scope (the property does not mention concurrency)",
    ]
    rng = ctx.rng
    R = Run(ctx)
    try:
        _run(ctx, R, rng)
    finally:
        R.bg.join()


def _run(ctx, R, rng):
    B = R.B
    pos, by_rc = layout()

    # ---------------- corpus: historically failing inputs first
    m0 = rand_bits(rng, 96)
    R.check(m0, (2, 24), "corpus-old-nest", sample=True)
    old_pairs = old_nest_pairs()
    for n, pr in enumerate(old_pairs):
        m = m0 if n % 3 else rand_bits(rng, 96)
        R.check(m, pr, "corpus-old-nest", corr_level=2 if n % 4 == 0 else 1)
    # repair used to overwrite on-air bit 0 with table[12][0] (fix 87ec7cf): clean words, both values of that cell
    seen = set()
    for _ in range(64):
        m = rand_bits(rng, 96)
        c = R.encode(m)
        if len(c) == 196 and c[29] not in seen:  # on-air 29 = table[12][0]
            seen.add(c[29])
            R.check(m, (), "corpus-R3-writeback", sample=True)
        if len(seen) == 2:
            break
    for m in ("0" * 96, "1" * 96):
        for e, tag in patterns_for(rng, by_rc, 8):
            R.check(m, e, tag)

    # ---------------- random messages x structured error patterns
    n_msgs = ctx.budget(300, 2500)
    per_msg = 40
    for i in range(n_msgs):
        m = rand_bits(rng, 96)
        for j, (e, tag) in enumerate(patterns_for(rng, by_rc, per_msg)):
            # correspondence on every pattern of the first messages, then on a thinning sample (the oracle sees all)
            lvl = 2 if (i < 40 or j % 8 == 0) else (1 if j % 2 == 0 else 0)
            if ctx.thorough() and i >= 300:
                lvl = 2 if j % 10 == 0 else 0
            R.check(m, e, tag, corr_level=lvl, sample=(i == 1 and j in (3, 9)))
        if i % 50 == 49:
            R.flush()
    R.flush()

    # ---------------- GF(2)-linearity of the encoder and unit messages (what reduces 2^96 to 96 in the proof)
    n_lin = ctx.budget(60, 1000)
    for _ in range(n_lin):
        a, b = rand_bits(rng, 96), rand_bits(rng, 96)
        ca, cb, cab = R.encode(a), R.encode(b), R.encode(xor_str(a, b))
        ctx.case(("lin", a, b))
        ctx.count("linearity")
        if any(x.startswith("ERR") for x in (ca, cb, cab)) or xor_str(ca, cb) != cab:
            ctx.fail("not-linear", {"a": a, "b": b}, "encode(a xor b) != encode(a) xor encode(b)", expected=None, actual=cab[:40])
    units = range(96) if ctx.thorough() else rng.sample(range(96), 12 * ctx.boost if ctx.boost * 12 <= 96 else 96)
    for i in units:
        m = "0" * i + "1" + "0" * (95 - i)
        R.check(m, (), "unit-message")
        c = R.encode(m)
        # minimum distance 9 of the product code: a unit message encodes to weight >= 9
        if len(c) == 196 and c.count("1") < 9:
            ctx.fail("min-distance", {"message": m, "error_positions": []}, "unit message encodes to weight < 9", expected=">=9", actual=c.count("1"))
        for e, tag in patterns_for(rng, by_rc, 6 if not ctx.thorough() else 20):
            R.check(m, e, tag)
    R.flush()

    # ---------------- correlations between parts of one input: a byte of the message / of the received word that
    # equals an inverted position, messages that reappear as a slice of their own code word
    correlated(ctx, R, by_rc)
    R.flush()

    # ---------------- structure of the message in the payload table (rows / columns) with the errors aimed at it
    structured(ctx, R, by_rc)
    R.flush()

    # ---------------- scale: a stream of distinct messages through the long-lived class (past 8192 / 65536 entries)
    scale_stream(ctx, R)

    # ---------------- histories of calls: every entry point, related inputs of both accepted lengths, kept objects
    run_histories(ctx, R, by_rc)

    # ---------------- argument validation and the 196-bit branch of encode (model must reject what the code rejects)
    if not ctx.search_only and ctx.driver_ok:
        pairs = []
        for n in (0, 1, 95, 97, 195, 197, 392):
            x = rand_bits(rng, n)
            s = x or "-"
            pairs.append((f"bptc.encode {s}", call(B.encode, bitarray(x))))
            pairs.append((f"bptc.data 1 {s}", call(B.deinterleave_data_bits, bitarray(x), True)))
            pairs.append((f"bptc.data 0 {s}", call(B.deinterleave_data_bits, bitarray(x), False)))
            pairs.append((f"bptc.repair {s}", call(B.repair_if_necessary, bitarray(x))))
            ctx.case(("len", n, x))
            ctx.count("wrong-length")
        for _ in range(ctx.budget(40, 400)):
            x = rand_bits(rng, 196)
            pairs.append((f"bptc.encode {x}", call(B.encode, bitarray(x))))
            pairs.append((f"bptc.deinterleave_all {x}", call(B.deinterleave_all_bits, bitarray(x))))
            pairs.append((f"bptc.repair {x}", call(B.repair_if_necessary, bitarray(x))))
            ctx.case(("w196", x))
            ctx.count("random-196-bit-word")
        R.bg.submit("lengths-and-196-bit-branch", pairs)

    # ---------------- thorough: every pattern of weight <= 2 on several code words
    if ctx.thorough():
        n_words = 3 * ctx.boost
        allpat = [()] + [(i,) for i in range(196)] + list(itertools.combinations(range(196), 2))
        for k in range(n_words):
            m = rand_bits(rng, 96)
            for n, e in enumerate(allpat):
                # model vs code on all patterns of the first word, every 4th of the others
                lvl = 2 if k == 0 else (1 if n % 4 == k % 4 else 0)
                R.check(m, e, "exhaustive-le2", corr_level=lvl)
            R.flush()
        ctx.exhaustive = True
        ctx.notes.append(f"all {len(allpat)} error patterns of weight <= 2 on {n_words} random code words")


def replay_ambient(inp, f, name):
    """re-run a history under the recorded ambient state (child interpreter / logging / stdout / random)"""
    steps = steps_parse(inp["history"])
    if name.startswith("python -O"):
        res = run_child([steps], ("-O",), "DEBUG" in name)
        hs = res.get("histories") or []
        if not hs:
            print(f"the child interpreter ({name}) could not run the history:", res.get("error"))
            return 1
        print(f"child interpreter: sys.flags.optimize={res.get('optimize')} __debug__={res.get('debug')}")
        outs, bad = hs[0]["outs"], [tuple(x) for x in hs[0]["bad"]]
    else:
        H = run_hist_ambient(bptc(), steps, name)
        outs, bad = [o for _, o in H.lines], H.bad
    C = fresh_class()
    ref = [o for _, o in Hist(C, None).run(steps).lines] if C is not None else [None] * len(outs)
    for i, (st, out) in enumerate(zip(steps, outs)):
        print(f"step {i:2d}  {' '.join(st)[:150]}")
        print(f"         implementation [{name}] -> {out}")
        print(f"         implementation [plain]  -> {ref[i]}" + ("" if ref[i] == out else "      <-- differs"))
    found = ambient_compare(steps, outs, bad, name)
    for kind, i, what, exp, act in found:
        print(f"FAILS [{kind}] at step {i}: {what} [{name}]")
        print(f"         expected {exp}")
        print(f"         actual   {act}")
    if not found:
        print("the history does not fail under this ambient state in this process")
    print("recorded:", f.get("what"))
    return 1 if found else 0


def replay_history(inp, f):
    """re-run a history on the real class (this process has not called it before), then the recorded check"""
    if inp.get("ambient"):
        return replay_ambient(inp, f, inp["ambient"])
    B = bptc()
    steps = steps_parse(inp["history"])
    H = Hist(B, fresh_class).run(steps)
    model = {}
    try:
        lines = ["bh.reset"] + [l for l, _ in H.lines]
        rc, out, _ = sh([BIN + "/drv_c02"], input="\n".join(lines) + "\n", timeout=120)
        model = dict(enumerate(out.split("\n")[1:]))
    except Exception as e:  # noqa
        print("model driver not available:", e)
    for i, (st, (_, out)) in enumerate(zip(steps, H.lines)):
        print(f"step {i:2d}  {' '.join(st)[:150]}")
        print(f"         implementation -> {out}")
        if i in model:
            print(f"         model          -> {model[i]}" + ("" if model[i] == out else "      <-- differs"))
    bad = [(k, i, w, e, a) for k, i, w, e, a in H.bad]
    if "message" in inp:
        e = tuple(inp.get("error_positions") or ())
        for k, i, m, pe, w, ex, ac in property_checks(H, B, [e] if e else [], limit=99):
            if m == inp["message"]:
                bad.append((k, i, f"{w}; message {m}, inverted on-air positions {list(pe)}", ex, ac))
    for k, i, w, ex, ac in bad:
        print(f"FAILS [{k}] at step {i}: {w}")
        print(f"         expected {ex}")
        print(f"         actual   {ac}")
    if not bad:
        print("the history does not fail in this process")
    print("recorded:", f.get("what"))
    print("expected:", f.get("expected"))
    print("actual:  ", f.get("actual"))
    return 1 if bad else 0


def replay(obj):
    if str((obj.get("failure") or {}).get("kind", "")).startswith("history:"):
        import histories

        return histories.replay((obj.get("failure") or {}).get("input") or {}, ENTRY_POINTS)
    f = obj.get("failure") or {}
    inp = f.get("input", {})
    B = bptc()
    print(obj.get("type"), "-", f.get("what"))
    if "a" in inp:
        a, b = inp["a"], inp["b"]
        ca, cb, cab = (call(B.encode, bitarray(x)) for x in (a, b, xor_str(a, b)))
        print("implementation encode(a) xor encode(b) =", xor_str(ca, cb) if not (ca.startswith("ERR") or cb.startswith("ERR")) else (ca, cb))
        print("implementation encode(a xor b)         =", cab)
        return 1 if (ca.startswith("ERR") or cb.startswith("ERR") or cab.startswith("ERR") or xor_str(ca, cb) != cab) else 0
    if "history" in inp:
        return replay_history(inp, f)
    if "message" not in inp:
        print("nothing to replay: no failing input was recorded (see no_longer_checks / correspondence_differences)")
        for d in (obj.get("correspondence_differences") or [])[:5]:
            print("difference:", d)
        for d in (obj.get("no_longer_checks") or [])[:5]:
            print("no longer checks:", d)
        return 1
    m, positions = inp["message"], inp.get("error_positions", [])
    c = call(B.encode, bitarray(m))
    if inp.get("structure"):
        print("built by structure :", inp["structure"], "| errors aimed at:", inp.get("errors_aimed_at"))
        try:
            pos, by_rc = layout()
            where = {p: rc for rc, p in by_rc.items()}
            for r, row in enumerate(Payload(by_rc).rows(m)):
                print(f"payload row {r}      = {row}")
            print("inverted cells (table row, column) =", [where.get(p) for p in positions])
        except Exception as e:  # noqa
            print("payload rows not available:", e)
    print(f"message            = {m}")
    print(f"implementation encode             = {c}")
    bad = 0
    if c.startswith("ERR") or len(c) != 196:
        return 1
    w = flip(c, positions)
    d1 = call(B.deinterleave_data_bits, bitarray(w), True)
    d0 = call(B.deinterleave_data_bits, bitarray(w), False)
    rp = call(B.repair_if_necessary, bitarray(w))
    print(f"inverted on-air positions         = {positions}")
    print(f"implementation decode (repair)    = {d1}   {'== message' if d1 == m else '!= message'}")
    print(f"implementation decode (no repair) = {d0}   {'== message' if d0 == m else '!= message'}")
    print(f"implementation repair_if_necessary= {rp}   {'== code word' if rp == c else '!= code word'}")
    if len(positions) <= 2 and d1 != m:
        bad = 1
    if len(positions) == 0 and (d0 != m or rp != c):
        bad = 1
    if c.count("1") < 9 and m.count("1") == 1:
        bad = 1
    exe = BIN + "/drv_c02"
    try:
        lines = [f"bptc.encode {m}", f"bptc.data 1 {w}", f"bptc.data 0 {w}", f"bptc.repair {w}"]
        rc, out, _ = sh([exe], input="\n".join(lines) + "\n", timeout=120)
        for l, o in zip(lines, out.split("\n")):
            print(f"model {l.split(' ')[0]:<12} {' '.join(l.split(' ')[1:-1]):<2}= {o}")
    except Exception as e:  # noqa
        print("model driver not available:", e)
    print("expected:", f.get("expected"))
    print("actual:  ", f.get("actual"))
    return bad
