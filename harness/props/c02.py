"""C02 — BPTC(196,96): encode / decode round trip, repair transparency, every error of weight <= 2 repaired
(DESIGN §5 C02).  Theorems: lean/DmrVerif/Props/C02{,a,b,c}.lean; model: Model/Bptc.lean, and for
histories of calls (every entry point of the class, related inputs of both accepted lengths, objects
kept and overwritten by the caller) Model/BptcHist.lean."""
import itertools
import sys
import types

import numpy
from bitarray import bitarray

from common import BIN, bits_str, impl_error, sh

PROP = "C02"
MODULES = ["C02", "C02a", "C02b", "C02c"]
GEN = ["Codes", "Bptc"]
MATCHERS = {}

# The 616 double errors (on-air positions) that the repair loop mis-decoded before fix 23ad248 (column pass
# nested inside the row loop), obtained by simulating that old loop on the zero code word.  They stay in
# the corpus of every run so that a regression of the loop nest is re-reported with a concrete input.
OLD_NEST_PAIRS = """
2-24 2-53 2-75 2-82 2-104 2-111 2-133 2-140 2-162 3-25 3-54 3-83 3-105 3-112 3-134 3-141 3-163 3-192 4-26 4-62
4-84 4-113 4-135 4-142 4-164 4-171 4-193 5-27 5-34 5-63 5-85 5-92 5-114 5-165 5-172 5-194 6-35 6-57 6-64 6-86
6-93 6-115 6-122 6-173 6-195 7-36 7-58 7-87 7-94 7-116 7-123 7-145 7-152 7-174 10-39 10-68 10-90 10-97 10-119
10-126 10-148 10-177 10-184 11-18 11-40 11-47 11-69 11-98 11-127 11-149 11-178 11-185 12-19 12-41 12-48 12-70
12-77 12-99 12-128 12-150 12-157 12-179 12-186 13-20 13-42 13-49 13-71 13-78 13-100 13-107 13-129 13-158
13-180 14-21 14-43 14-50 14-72 14-79 14-108 14-130 14-137 14-159 17-39 17-68 17-90 17-97 17-119 17-126 17-148
17-155 17-177 18-40 18-69 18-98 18-120 18-127 18-149 18-156 18-178 19-41 19-77 19-99 19-128 19-150 19-157
19-179 19-186 20-42 20-49 20-78 20-100 20-107 20-129 20-180 20-187 21-50 21-72 21-79 21-101 21-108 21-130
21-137 21-188 24-53 24-75 24-104 24-111 24-133 24-140 24-162 24-169 24-191 25-54 25-83 25-105 25-112 25-134
25-141 25-163 25-192 26-33 26-55 26-62 26-84 26-113 26-142 26-164 26-193 27-34 27-56 27-63 27-85 27-92 27-114
27-143 27-165 27-172 27-194 28-35 28-57 28-64 28-86 28-93 28-115 28-122 28-144 28-173 28-195 29-36 29-58 29-65
29-87 29-94 29-123 29-145 29-152 29-174 32-54 32-83 32-105 32-112 32-134 32-141 32-163 32-170 32-192 33-55
33-84 33-113 33-135 33-142 33-164 33-171 33-193 34-56 34-92 34-114 34-143 34-165 34-172 34-194 35-57 35-64
35-93 35-115 35-122 35-144 35-195 36-65 36-87 36-94 36-116 36-123 36-145 36-152 39-68 39-90 39-119 39-126
39-148 39-155 39-177 39-184 40-69 40-98 40-120 40-127 40-149 40-156 40-178 41-48 41-70 41-77 41-99 41-128
41-157 41-179 42-49 42-71 42-78 42-100 42-107 42-129 42-158 42-180 42-187 43-50 43-72 43-79 43-101 43-108
43-130 43-137 43-159 43-188 47-69 47-98 47-120 47-127 47-149 47-156 47-178 47-185 48-70 48-99 48-128 48-150
48-157 48-179 48-186 49-71 49-107 49-129 49-158 49-180 49-187 50-72 50-79 50-108 50-130 50-137 50-159 53-82
53-104 53-133 53-140 53-162 53-169 53-191 54-83 54-105 54-134 54-141 54-163 54-170 54-192 55-84 55-113 55-135
55-142 55-164 55-171 55-193 56-63 56-85 56-92 56-114 56-143 56-172 56-194 57-64 57-86 57-93 57-115 57-122
57-144 57-173 57-195 58-65 58-87 58-94 58-116 58-123 58-145 58-152 58-174 62-84 62-113 62-135 62-142 62-164
62-171 62-193 63-85 63-114 63-143 63-165 63-172 63-194 64-86 64-122 64-144 64-173 64-195 65-87 65-94 65-123
65-145 65-152 65-174 68-97 68-119 68-148 68-155 68-177 68-184 69-98 69-120 69-149 69-156 69-178 69-185 70-99
70-128 70-150 70-157 70-179 70-186 71-78 71-100 71-107 71-129 71-158 71-187 72-79 72-101 72-108 72-130 72-137
72-159 72-188 75-82 75-104 75-111 75-133 75-140 75-169 75-191 77-99 77-128 77-150 77-157 77-179 77-186 78-100
78-129 78-158 78-180 78-187 79-101 79-137 79-159 79-188 82-111 82-133 82-140 82-162 82-169 82-191 83-112
83-134 83-163 83-170 83-192 84-113 84-135 84-164 84-171 84-193 85-114 85-143 85-165 85-172 85-194 86-93 86-115
86-122 86-144 86-173 87-94 87-116 87-123 87-145 87-152 87-174 90-97 90-119 90-126 90-148 90-155 90-184 92-114
92-143 92-165 92-172 92-194 93-115 93-144 93-173 93-195 94-116 94-152 94-174 97-126 97-148 97-155 97-177
97-184 98-127 98-149 98-178 98-185 99-128 99-150 99-179 99-186 100-129 100-158 100-180 100-187 101-108 101-130
101-137 101-159 101-188 104-111 104-133 104-140 104-162 104-169 104-191 105-112 105-134 105-141 105-163
105-170 107-129 107-158 107-180 107-187 108-130 108-159 108-188 111-133 111-140 111-169 111-191 112-141
112-163 112-170 112-192 113-142 113-164 113-193 114-143 114-165 114-194 115-144 115-173 115-195 116-123
116-145 116-152 116-174 119-126 119-148 119-155 119-177 119-184 120-127 120-149 120-156 120-178 120-185
122-144 122-173 122-195 123-145 123-174 126-148 126-155 126-184 127-156 127-178 127-185 128-157 128-179
129-158 129-180 130-159 130-188 133-140 133-162 133-169 133-191 134-141 134-163 134-170 134-192 135-142
135-164 135-171 135-193 137-159 137-188 140-162 141-163 141-170 142-171 142-193 143-172 143-194 144-173
144-195 145-174 148-155 148-177 148-184 149-156 149-178 149-185 150-157 150-179 150-186 152-174 155-177
156-178 156-185 157-186 158-187 159-188 162-169 162-191 163-170 163-192 164-171 164-193 165-172 165-194
169-191 170-192 171-193 177-184 178-185 179-186 180-187
"""


def old_nest_pairs():
    return [tuple(int(x) for x in tok.split("-")) for tok in OLD_NEST_PAIRS.split()]


def bptc():
    from okdmr.dmrlib.etsi.fec.bptc_196_96 import BPTC19696

    return BPTC19696


def call(fn, *a):
    """canonical observable of one call of the real code: bit string, or ERR <ClassName>"""
    try:
        r = fn(*a)
    except BaseException as e:  # noqa
        return impl_error(e)
    try:
        return bits_str(r)
    except Exception:  # noqa
        return "ERR not-a-bit-string"


def layout():
    """on-air position -> (row, column) of the 13x15 table (None for R(3)), read from the live table"""
    B = bptc()
    pos = {}
    for k, v in B.INTERLEAVING_INDICES.items():
        il, row, col = v[0], v[1], v[2]
        pos[il] = (row - 1, col) if row >= 1 else None
    by_rc = {rc: p for p, rc in pos.items() if rc is not None}
    return pos, by_rc


def flip(word: str, positions) -> str:
    w = bitarray(word)
    for p in positions:
        w.invert(p)
    return bits_str(w)


def xor_str(a: str, b: str) -> str:
    return bits_str(bitarray(a) ^ bitarray(b))


class Run:
    def __init__(self, ctx):
        self.ctx = ctx
        self.B = bptc()
        self.corr = {"encode": [], "data": [], "repair": []}
        self.enc_cache = {}
        self.enc_sent = 0

    def encode(self, m: str) -> str:
        if m not in self.enc_cache:
            self.enc_cache[m] = call(self.B.encode, bitarray(m))
        return self.enc_cache[m]

    def check(self, m: str, positions, tag: str, corr_level: int = 2, sample=False):
        """one (message, error pattern): oracle on the real code + lines for the correspondence.
        corr_level 0: oracle only, 1: repair line, 2: repair + data lines"""
        ctx, B = self.ctx, self.B
        positions = tuple(sorted(positions))
        wgt = len(positions)
        inp = {"message": m, "error_positions": list(positions)}
        c = self.encode(m)
        ctx.count(f"weight:{wgt}")
        ctx.count(f"shape:{tag}")
        if c.startswith("ERR") or len(c) != 196:
            ctx.case((m, positions))
            ctx.fail("encode", inp, "encode of a 96-bit message does not return 196 bits", expected="196 bits", actual=c[:40])
            return
        w = flip(c, positions)
        d1 = call(B.deinterleave_data_bits, bitarray(w), True)
        ctx.case((m, positions), nontrivial=True,
                 sample={"message": m, "error_positions": list(positions), "decoded_with_repair": d1} if sample else None)
        lines = self.corr
        if wgt <= 2:
            if d1 != m:
                ctx.fail("not-corrected" if wgt else "round-trip", inp,
                         f"decoder with repair does not return the message ({wgt} inverted bits)", expected=m, actual=d1)
        else:
            ctx.count("beyond-guarantee:decoded" if d1 == m else "beyond-guarantee:not-decoded")
        want_corr = corr_level > 0 and not ctx.search_only and ctx.driver_ok
        if wgt == 0 or want_corr:
            rp = call(B.repair_if_necessary, bitarray(w))
            if wgt == 0 and rp != c:
                ctx.fail("repair-alters-codeword", inp, "repair_if_necessary alters an error-free code word", expected=c, actual=rp)
            if want_corr:
                lines["repair"].append((f"bptc.repair {w}", rp))
        if wgt == 0 or (want_corr and corr_level > 1):
            d0 = call(B.deinterleave_data_bits, bitarray(w), False)
            if wgt == 0 and d0 != m:
                ctx.fail("round-trip", inp, "decoder without repair does not return the message", expected=m, actual=d0)
            if want_corr and corr_level > 1:
                lines["data"].append((f"bptc.data 1 {w}", d1))
                lines["data"].append((f"bptc.data 0 {w}", d0))

    def flush(self):
        ctx = self.ctx
        if ctx.search_only or not ctx.driver_ok:
            return
        items = list(self.enc_cache.items())
        enc = [(f"bptc.encode {m}", c) for m, c in items[self.enc_sent:]]
        self.enc_sent = len(items)
        for name, pairs in (("encode", enc + self.corr["encode"]), ("deinterleave_data_bits", self.corr["data"]),
                            ("repair_if_necessary", self.corr["repair"])):
            if pairs:
                ctx.correspond(name, pairs)
        self.corr = {"encode": [], "data": [], "repair": []}


def rand_bits(rng, n: int) -> str:
    return "".join("1" if rng.getrandbits(1) else "0" for _ in range(n))


def patterns_for(rng, by_rc, n: int):
    """n error patterns of weight 0..4 for one message: (positions, tag).  Pairs are drawn from every
    structural class the repair treats differently (same row, same column, parity-on-parity corner,
    involving R(3) = on-air bit 0, unrelated)."""
    out = [((), "clean")]
    while len(out) < n:
        k = rng.random()
        if k < 0.22:
            out.append(((rng.randrange(196),), "single"))
        elif k < 0.34:
            r = rng.randrange(13)
            c1, c2 = rng.sample(range(15), 2)
            out.append(((by_rc[(r, c1)], by_rc[(r, c2)]), "pair-same-row"))
        elif k < 0.44:
            c = rng.randrange(15)
            r1, r2 = rng.sample(range(13), 2)
            out.append(((by_rc[(r1, c)], by_rc[(r2, c)]), "pair-same-column"))
        elif k < 0.50:
            a = by_rc[(rng.randrange(9, 13), rng.randrange(11, 15))]
            b = rng.choice([p for p in range(196) if p != a])
            out.append(((a, b), "pair-parity-corner"))
        elif k < 0.55:
            out.append(((0, rng.randrange(1, 196)), "pair-with-R3"))
        elif k < 0.72:
            out.append((tuple(rng.sample(range(196), 2)), "pair-random"))
        elif k < 0.86:
            out.append((tuple(rng.sample(range(196), 3)), "triple"))
        else:
            out.append((tuple(rng.sample(range(196), 4)), "quadruple"))
    return out


# ======================================================================================================
# Histories of calls (hardening).  The property is stated for a *function* of the message and of the
# received word: whatever the class was used for before must not matter, the objects it hands out belong
# to the caller, its arguments stay what they were.  A history is a list of steps (tuples of strings):
#
#   encode A | data R A | repair A | deint A | make | fill @t A      calls; each pushes exactly one handle
#   flip @k i | setall @k v                                           the caller overwrites a kept object
#   read @k | nop | nop+                                              (nop+ pushes an empty handle)
#
# A = B:0101… / L:0101… (a new bitarray in a big / little-endian container, "-" = empty) or @k (the kept
# object itself).  A trailing token ?=0101… is what the property promises for that call (it is not sent
# to the model).  The same lines, prefixed "bh.", are the protocol of the stateful model
# (Model/BptcHist.lean: results are new objects, every call is the history-free function of its arguments).
# ======================================================================================================
CALL_OPS = {"encode": (1,), "data": (2,), "repair": (1,), "deint": (1,), "make": (), "fill": (1, 2)}
METHOD = {"encode": "encode", "data": "deinterleave_data_bits", "repair": "repair_if_necessary",
          "deint": "deinterleave_all_bits", "make": "make_encoding_table", "fill": "fill_encoding_table"}
WANT_KIND = {"encode": "encode", "repair": "repair-alters-codeword"}
_FRESH = {}


def fresh_class():
    """an independent copy of the class under test: the module source is executed again in a module object
    of its own, so the copy has its own globals and its own class-level state and nothing was ever called
    on it (the "first call" reference of the history probes).  None when that is not possible."""
    try:
        if "code" not in _FRESH:
            path = sys.modules[bptc().__module__].__file__
            with open(path, encoding="utf-8") as fh:
                _FRESH["code"] = compile(fh.read(), path, "exec")
            _FRESH["path"] = path
        mod = types.ModuleType("okdmr_bptc_196_96_new_copy")
        mod.__file__ = _FRESH["path"]
        exec(_FRESH["code"], mod.__dict__)
        return mod.BPTC19696
    except Exception:  # noqa
        return None


def canon_obj(o) -> str:
    """canonical content of an object the class handed out (bitarray, 13x15 table)"""
    if o is None:
        return "void"
    if isinstance(o, bitarray):
        return o.to01()
    if isinstance(o, numpy.ndarray):
        if o.shape != (13, 15):
            return "ERR shape-" + "x".join(map(str, o.shape))
        return "".join("0" if v == 0 else "1" if v == 1 else "?" for v in o.flatten().tolist())
    try:
        return bits_str(o)
    except Exception:  # noqa
        return "ERR not-a-bit-string"


def copy_obj(o):
    if isinstance(o, bitarray):
        return bitarray(o)  # keeps the bit order of the container
    if isinstance(o, numpy.ndarray):
        return o.copy()
    return o


def call_obj(cls, op, args):
    try:
        r = getattr(cls, METHOD[op])(*args)
    except BaseException as e:  # noqa
        return impl_error(e), None
    if r is None:
        return "ERR returned-None", None
    return canon_obj(r), r


def steps_str(steps):
    return [" ".join(s) for s in steps]


def steps_parse(lines):
    return [tuple(l.split(" ")) for l in lines]


class Hist:
    """one history executed on `cls`; `fresh` (a factory of new copies of the class) enables the comparison
    of every call with the same call made first on a new copy"""

    def __init__(self, cls, fresh=None):
        self.cls, self.fresh = cls, fresh
        self.steps, self.lines, self.bad, self.enc = [], [], [], []
        self.held, self.exp, self.owner, self.no_read = [], [], [], set()

    def _arg(self, a: str):
        if a.startswith("@"):
            k = int(a[1:])
            return self.held[k] if k < len(self.held) else None
        e, s = a.split(":", 1)
        return bitarray("" if s == "-" else s, endian="little" if e == "L" else "big")

    def _push(self, i, obj, content):
        self.held.append(obj)
        self.exp.append(content)
        self.owner.append(i)

    def _touched(self, o):
        """the caller (or fill, its table) changed object o: every handle that is this object follows"""
        cur = canon_obj(o)
        for j, h in enumerate(self.held):
            if h is o:
                self.exp[j] = cur

    def run(self, steps):
        for st in steps:
            self.step(st)
        return self

    def step(self, st):
        st = tuple(st)
        i = len(self.steps)
        self.steps.append(st)
        toks = list(st)
        want = toks.pop()[2:] if toks[-1].startswith("?=") else None
        op = toks[0]
        if op in ("nop", "nop+"):
            out = "void"
            if op == "nop+":
                self._push(i, None, None)
        elif op in ("flip", "setall", "read"):
            o = self._arg(toks[1])
            if o is None:
                out = "void"
            elif op == "read":
                out = canon_obj(o)
            else:
                v = int(toks[2])
                out = "ok"
                try:
                    if isinstance(o, bitarray):
                        if op == "setall":
                            o.setall(v)
                        elif v < len(o):
                            o.invert(v)
                    elif op == "setall":
                        o.fill(v)
                    elif v < o.size:
                        o[v // o.shape[1]][v % o.shape[1]] ^= 1
                except Exception:  # noqa  (an object of an unexpected kind was handed out; reported by the call that returned it)
                    out = "ERR cannot-overwrite"
                self._touched(o)
        else:
            objs = [self._arg(toks[p]) for p in CALL_OPS[op]]
            if any(o is None for o in objs):
                out = "void"
                self._push(i, None, None)
            else:
                flag = [toks[1] == "1"] if op == "data" else []
                before = [canon_obj(o) for o in objs]
                fargs = [copy_obj(o) for o in objs] + flag
                out, res = call_obj(self.cls, op, list(objs) + flag)
                F = self.fresh() if self.fresh is not None else None
                if F is not None:
                    ref, _ = call_obj(F, op, fargs)
                    if ref != out:
                        self.bad.append(("history-dependent-result", i,
                                         f"{METHOD[op]} returns something else than the same call with equal arguments made "
                                         "first on a new copy of the class", ref, out))
                for p, o in enumerate(objs):
                    cur = canon_obj(o)
                    if cur != before[p]:
                        if not (op == "fill" and p == 0):
                            self.bad.append(("argument-altered", i, f"{METHOD[op]} alters its argument", before[p], cur))
                        self._touched(o)
                if want is not None and out != want:
                    kind = WANT_KIND.get(op) or ("not-corrected" if op == "data" and toks[1] == "1" else "round-trip" if op == "data" else "wrong-result")
                    self.bad.append((kind, i, f"{METHOD[op]} does not return what the property promises for this call", want, out))
                err = out.startswith("ERR")
                self._push(i, None if err else res, None if err else out)
                if op == "fill":
                    self.no_read.add(len(self.held) - 1)
                if op == "encode" and len(before[0]) == 96:
                    self.enc.append((i, before[0], out))
        self.lines.append(("bh." + " ".join(toks), out))
        # every object handed out so far still holds what it held (unless the caller overwrote it)
        for j, o in enumerate(self.held):
            if o is not None and j not in self.no_read:
                cur = canon_obj(o)
                if cur != self.exp[j]:
                    self.bad.append(("held-result-changed", i,
                                     f"the object returned by step {self.owner[j]} ({' '.join(self.steps[self.owner[j]])[:60]}) "
                                     "changed although the caller did not touch it", self.exp[j], cur))
                    self._touched(o)

    def finish(self):
        """read every kept object once more (lines for the model)"""
        for k, o in enumerate(self.held):
            if o is not None and k not in self.no_read:
                self.lines.append((f"bh.read @{k}", canon_obj(o)))
        return self


def property_checks(H, cls, patterns, limit=3):
    """the property on every code word `encode` handed out for a 96-bit message during the history, as it was
    returned: 196 bits; decodes to the message with and without repair; repair does not alter it; decodes
    to the message with the given error patterns (first `limit` code words).
    Returns (kind, step, message, error positions, what, expected, actual)."""
    bad, seen = [], set()
    for i, m, c in H.enc:
        if (m, c) in seen:
            continue
        seen.add((m, c))
        if c.startswith("ERR") or len(c) != 196:
            bad.append(("encode", i, m, (), "encode of a 96-bit message does not return 196 bits", "196 bits", c[:40]))
            continue
        d0 = call(cls.deinterleave_data_bits, bitarray(c), False)
        if d0 != m:
            bad.append(("round-trip", i, m, (), "decoder without repair does not return the message", m, d0))
        rp = call(cls.repair_if_necessary, bitarray(c))
        if rp != c:
            bad.append(("repair-alters-codeword", i, m, (), "repair_if_necessary alters an error-free code word", c, rp))
        for e in [()] + (list(patterns) if len(seen) <= limit else []):
            d1 = call(cls.deinterleave_data_bits, bitarray(flip(c, e)), True)
            if d1 != m:
                bad.append(("not-corrected" if e else "round-trip", i, m, tuple(e),
                            f"decoder with repair does not return the message ({len(e)} inverted bits)", m, d1))
    return bad


def compress(steps):
    """drop the steps that do nothing (nop, calls on empty handles) and renumber the handles"""
    alive, new, out = [], {}, []
    for st in steps:
        toks = list(st)
        op = toks[0]
        refs = [int(t[1:]) for t in toks[1:] if t.startswith("@")]
        dead = op in ("nop", "nop+") or any(r >= len(alive) or not alive[r] for r in refs)
        pushes = op in CALL_OPS or op == "nop+"
        if pushes:
            if not dead:
                new[len(alive)] = sum(alive)
            alive.append(not dead)
        if not dead:
            out.append(tuple(f"@{new[int(t[1:])]}" if t.startswith("@") else t for t in toks))
    return out


def shrink_history(steps, fails):
    """greedy: blank one step after the other while `fails` (run on a new copy of the class) still holds"""
    steps = list(steps)
    for idx in reversed(range(len(steps) - 1)):
        if steps[idx][0] in ("nop", "nop+"):
            continue
        cand = list(steps)
        cand[idx] = ("nop+",) if steps[idx][0] in CALL_OPS else ("nop",)
        if fails(cand):
            steps = cand
    small = compress(steps)
    return small if fails(small) else steps


class Rel:
    """inputs related to one 96-bit message m: inputs of the other accepted length that share the integer
    value / a prefix / a suffix / the info bits with it, blocks that carry non-zero reserved bits, words near
    its code word, inputs of wrong lengths.  The reference code word comes from a new copy of the class."""
    R_VALUES = ("0111", "0110", "0101", "0011", "1111", "1110", "0100", "0010", "0001", "1000")

    def __init__(self, m, rng, tabs, by_rc):
        self.m, self.rng, self.by_rc = m, rng, by_rc
        self.il, self.info_keys, self.res_keys = tabs
        F = fresh_class() or bptc()
        self.F = F
        self.c = call(F.encode, bitarray(m))
        self.ok = len(self.c) == 196 and not self.c.startswith("ERR")
        if not self.ok:
            self.c = "0" * 196

    def deint(self, w):
        """the 196 "deinterleaved" bits of an on-air word as the library itself produces and accepts them
        (deinterleave_all_bits, taken from the new copy of the class; encode / fill_encoding_table undo it)"""
        d = call(self.F.deinterleave_all_bits, bitarray(w))
        if len(d) == 196 and not d.startswith("ERR"):
            return d
        d = ["0"] * 196
        for k in range(196):
            d[self.il[k]] = w[k]
        return "".join(d)

    def cells(self, m, r):
        """on-air word whose info cells hold m and whose reserved cells hold r; every FEC bit 0"""
        w = ["0"] * 196
        for k, b in zip(self.res_keys, r):
            w[self.il[k]] = b
        for k, b in zip(self.info_keys, m):
            w[self.il[k]] = b
        return "".join(w)

    def embed(self, m, r):
        """196 deinterleaved bits: info bits m, reserved bits r, every FEC bit 0"""
        return self.deint(self.cells(m, r))

    def block(self, m, r):
        """on-air product code word of a block with info bits m and reserved bits r"""
        w = call(self.F.encode, bitarray(self.embed(m, r)))
        if len(w) != 196 or w.startswith("ERR"):
            return self.cells(m, r)
        w = list(w)
        for k, b in zip(self.res_keys, r):
            w[self.il[k]] = b
        return "".join(w)

    def r(self):
        return self.rng.choice(self.R_VALUES)

    def near(self):
        rng, m = self.rng, self.m
        k = rng.random()
        if k < 0.4:
            i = rng.randrange(96)
            return m[:i] + ("1" if m[i] == "0" else "0") + m[i + 1:]
        if k < 0.55:
            return m[::-1]
        if k < 0.7:
            return "".join("1" if b == "0" else "0" for b in m)
        if k < 0.85:
            return "0" * 8 + m[8:]
        return rand_bits(rng, 96)

    def parity_errors(self):
        """1-2 inverted positions outside the 96 info cells: the received info bits stay those of the message"""
        info = {self.il[k] for k in self.info_keys}
        return tuple(sorted(self.rng.sample([p for p in range(196) if p not in info], self.rng.choice((1, 2, 2)))))

    def errors(self, wmax=2):
        rng = self.rng
        k = rng.random()
        if wmax == 0 or k < 0.12:
            return ()
        if wmax == 1 or k < 0.3:
            return (rng.randrange(196),)
        if k < 0.55:
            r = rng.randrange(13)
            c1, c2 = rng.sample(range(15), 2)
            return tuple(sorted((self.by_rc[(r, c1)], self.by_rc[(r, c2)])))
        if k < 0.7:
            c = rng.randrange(15)
            r1, r2 = rng.sample(range(13), 2)
            return tuple(sorted((self.by_rc[(r1, c)], self.by_rc[(r2, c)])))
        if k < 0.8:
            return tuple(sorted((self.il[rng.choice(self.res_keys)], rng.choice([p for p in range(196) if p not in [self.il[q] for q in self.res_keys]]))))
        return tuple(sorted(rng.sample(range(196), 2)))

    X196 = ("value", "prefix", "suffix-rand", "prefix-rand", "info-R", "block-R", "block-R-other", "block", "block+e", "on-air", "random")

    def x196(self, name):
        rng, m = self.rng, self.m
        if name == "value":
            return "0" * 100 + m
        if name == "prefix":
            return m + "0" * 100
        if name == "suffix-rand":
            return rand_bits(rng, 100) + m
        if name == "prefix-rand":
            return m + rand_bits(rng, 100)
        if name == "info-R":
            return self.embed(m, self.r())
        if name == "block-R":
            return self.deint(self.block(m, self.r()))
        if name == "block-R-other":
            return self.deint(self.block(self.near(), self.r()))
        if name == "block":
            return self.deint(self.c)
        if name == "block+e":
            return self.deint(flip(self.c, self.errors()))
        if name == "on-air":
            return self.c
        return rand_bits(rng, 196)

    AIR = ("cw+e", "cw+e", "cw+parity-e", "cw", "block-R", "block-R+e", "block-R-other", "cw+3", "random")

    def air(self, name):
        """(received word, message the property promises for the decoder with repair or None)"""
        rng = self.rng
        if name == "cw":
            return self.c, self.m
        if name == "cw+e":
            return flip(self.c, self.errors()), self.m
        if name == "cw+parity-e":
            return flip(self.c, self.parity_errors()), self.m
        if name == "cw+3":
            return flip(self.c, rng.sample(range(196), rng.choice((3, 4)))), None
        if name == "block-R":
            return self.block(self.m, self.r()), None
        if name == "block-R+e":
            return flip(self.block(self.m, self.r()), self.errors()), None
        if name == "block-R-other":
            return self.block(self.near(), self.r()), None
        return rand_bits(rng, 196), None

    def wrong_length(self):
        """(op, argument) with an argument of a length that is not accepted, related to m"""
        rng, m, c = self.rng, self.m, self.c
        return rng.choice([("encode", m[:-1]), ("encode", m[1:]), ("encode", m + "0"), ("encode", "0" + m), ("encode", "-"),
                           ("encode", "0" * 99 + m), ("encode", "0" * 100 + m + "0"), ("encode", c[:-1]),
                           ("repair", c[:-1]), ("repair", c + "0"), ("repair", m), ("data", c[1:]), ("data", m), ("deint", c + "1"),
                           ("deint", m)])


class Build:
    """steps of one history; call() returns the handle of the result"""

    def __init__(self):
        self.steps, self.n = [], 0

    def call(self, *toks):
        self.steps.append(tuple(str(t) for t in toks))
        self.n += 1
        return self.n - 1

    def do(self, *toks):
        self.steps.append(tuple(str(t) for t in toks))


def lit(s, little=False):
    return ("L:" if little else "B:") + (s or "-")


def primes(rel, rng):
    """what happens before the call under observation: every entry point, inputs related to the message"""
    P = []
    for name in Rel.X196:
        P.append((f"encode-196:{name}", lambda b, name=name: b.call("encode", lit(rel.x196(name)))))
    P.append(("encode-196:value-little-endian", lambda b: b.call("encode", lit(rel.x196("value"), True))))
    for op in ("repair", "data 1", "data 0", "deint"):
        for name in ("block-R", "block-R+e"):
            P.append((f"{op}:{name}", lambda b, op=op, name=name: b.call(*op.split(" "), lit(rel.air(name)[0]))))
    for op in ("repair", "data 1"):
        for name in ("cw+e", "cw+parity-e"):
            P.append((f"{op}:{name}", lambda b, op=op, name=name: b.call(*op.split(" "), lit(rel.air(name)[0]))))

    def fill_with(b, x, tamper=None):
        t = b.call("make")
        if tamper is not None:
            b.do("setall", f"@{t}", tamper)
        b.call("fill", f"@{t}", lit(x))

    P.append(("fill:block-R", lambda b: fill_with(b, rel.x196("block-R"))))
    P.append(("fill:info-R", lambda b: fill_with(b, rel.x196("info-R"))))
    P.append(("fill:96-other", lambda b: fill_with(b, rel.near())))
    P.append(("fill:dirty-table-96", lambda b: fill_with(b, rel.near(), 1)))
    P.append(("make-overwritten", lambda b: b.do("setall", f"@{b.call('make')}", 1)))

    def tamper(b, op, arg, n):
        h = b.call(*op.split(" "), lit(arg))
        if n == 0:
            b.do("setall", f"@{h}", rng.getrandbits(1))
        for _ in range(n):
            b.do("flip", f"@{h}", rng.randrange(96))

    P.append(("encode-96-other:result-overwritten", lambda b: tamper(b, "encode", rel.near(), 2)))
    P.append(("encode-96-same:result-overwritten", lambda b: tamper(b, "encode", rel.m, 0)))
    P.append(("encode-96-same:result-3-flips", lambda b: tamper(b, "encode", rel.m, 3)))
    P.append(("data:result-overwritten", lambda b: tamper(b, "data 1", rel.c, 2)))
    P.append(("repair:result-overwritten", lambda b: tamper(b, "repair", rel.c, 0)))
    P.append(("deint:result-overwritten", lambda b: tamper(b, "deint", rel.c, 3)))

    def wrong(b):
        for _ in range(3):
            op, x = rel.wrong_length()
            b.call(*(("data", rng.getrandbits(1)) if op == "data" else (op,)), lit("" if x == "-" else x))
        b.call("fill", f"@{b.call('make')}", lit(rel.m[:-1]))

    P.append(("wrong-lengths", wrong))
    P.append(("encode-96:reversed-little-endian", lambda b: b.call("encode", lit(rel.m[::-1], True))))
    P.append(("encode-96:little-endian", lambda b: b.call("encode", lit(rel.m, True))))
    P.append(("encode-96:near", lambda b: b.call("encode", lit(rel.near()))))
    P.append(("nothing", lambda b: None))
    return P


def probes(rel, rng):
    """the calls under observation: what the property promises for them is attached (?=)"""
    m, c = rel.m, rel.c

    def decode(b):
        w, want = rel.air("cw+e")
        b.call("data", 1, lit(w), "?=" + want)
        b.call("data", 0, lit(c), "?=" + m)

    def same_info(b):
        for _ in range(2):
            b.call("data", 1, lit(rel.air("cw+parity-e")[0]), "?=" + m)
        b.call("repair", lit(rel.air("cw+parity-e")[0]))
        b.call("data", 1, lit(rel.air("cw+e")[0]), "?=" + m)
        b.call("repair", lit(c), "?=" + c)

    def repair(b):
        b.call("repair", lit(c), "?=" + c)
        b.call("data", 1, lit(flip(c, rel.errors(1))), "?=" + m)

    def kept(b):
        h = b.call("encode", lit(m))
        b.call("data", 1, f"@{h}", "?=" + m)
        for p in rel.errors():
            b.do("flip", f"@{h}", p)
        b.call("data", 1, f"@{h}", "?=" + m)
        b.call("repair", f"@{h}")
        b.call("data", 0, f"@{h}")

    def table(b):
        t = b.call("make")
        b.call("fill", f"@{t}", lit(m))
        b.call("encode", lit(m))

    return [
        ("encode-96", lambda b: b.call("encode", lit(m))),
        ("encode-96-little-endian", lambda b: b.call("encode", lit(m, True))),
        ("encode-96-twice", lambda b: (b.call("encode", lit(m)), b.call("encode", lit(m)))),
        ("decode", decode),
        ("decode-same-info-bits", same_info),
        ("repair", repair),
        ("encode-keep-flip-decode", kept),
        ("make-fill-encode", table),
    ]


def random_history(rng, rels, length):
    """random interleaving of every entry point on inputs related to the messages of `rels`, kept objects
    passed again as arguments, overwritten, and calls repeated"""
    b = Build()
    info = {}  # handle -> ("cw", message, set of flipped positions) | ("bits", length) | ("table",)
    calls = []  # repeatable calls made so far
    while len(b.steps) < length:
        rel = rng.choice(rels)
        k = rng.random()
        if k < 0.20:
            x = rel.m if rng.random() < 0.7 else rel.near()
            le = rng.random() < 0.15
            h = b.call("encode", lit(x, le))
            info[h] = ("cw", x, set())
            calls.append(("encode", lit(x, le)))
        elif k < 0.38:
            x = rel.x196(rng.choice(Rel.X196))
            h = b.call("encode", lit(x, rng.random() < 0.1))
            info[h] = ("bits", 196)
            calls.append(("encode", lit(x)))
        elif k < 0.52:
            w, want = rel.air(rng.choice(Rel.AIR))
            r = 1 if rng.random() < 0.75 else 0
            extra = ["?=" + want] if want is not None and (r == 1 or w == rel.c) else []
            h = b.call("data", r, lit(w), *extra)
            info[h] = ("bits", 96)
            calls.append(("data", str(r), lit(w)))
        elif k < 0.60:
            w, want = rel.air(rng.choice(Rel.AIR))
            extra = ["?=" + w] if w == rel.c else []
            h = b.call("repair", lit(w), *extra)
            info[h] = ("bits", 196)
            calls.append(("repair", lit(w)))
        elif k < 0.63:
            h = b.call("deint", lit(rel.air(rng.choice(Rel.AIR))[0]))
            info[h] = ("bits", 196)
        elif k < 0.67:
            info[b.call("make")] = ("table",)
        elif k < 0.73:
            tabs = [h for h, v in info.items() if v[0] == "table"]
            if not tabs:
                info[b.call("make")] = ("table",)
                continue
            x = rng.choice([rel.m, rel.near(), rel.x196(rng.choice(Rel.X196)), rel.m[:-1]])
            b.call("fill", f"@{rng.choice(tabs)}", lit(x))
        elif k < 0.83:
            hs = [h for h, v in info.items()]
            if not hs:
                continue
            h = rng.choice(hs)
            v = info[h]
            n = 195 if v[0] == "table" else 196 if v[0] == "cw" else v[1]
            p = rng.randrange(n)
            b.do("flip", f"@{h}", p)
            if v[0] == "cw":
                v[2].symmetric_difference_update({p})
        elif k < 0.85:
            hs = [h for h, v in info.items() if v[0] != "cw"]
            if hs:
                b.do("setall", f"@{rng.choice(hs)}", rng.getrandbits(1))
        elif k < 0.87:
            if info:
                b.do("read", f"@{rng.choice(list(info))}")
        elif k < 0.91:
            op, x = rel.wrong_length()
            b.call(*(("data", rng.getrandbits(1)) if op == "data" else (op,)), lit("" if x == "-" else x))
        elif k < 0.96:
            # a kept object goes in again as an argument
            hs = [h for h, v in info.items() if v[0] != "table"]
            if not hs:
                continue
            h = rng.choice(hs)
            v = info[h]
            n = 196 if v[0] == "cw" else v[1]
            if n == 96:
                info[b.call("encode", f"@{h}")] = ("bits", 196)
            else:
                op = rng.choice(["data 1", "data 1", "data 0", "repair", "deint", "encode"])
                extra = []
                if v[0] == "cw" and ((op == "data 1" and len(v[2]) <= 2) or (op == "data 0" and not v[2])):
                    extra = ["?=" + v[1]]
                g = b.call(*op.split(" "), f"@{h}", *extra)
                info[g] = ("bits", 96 if op.startswith("data") else 196)
        elif calls:
            # an earlier call once more (same arguments)
            st = rng.choice(calls)
            h = b.call(*st)
            info[h] = ("cw", st[1][2:], set()) if st[0] == "encode" and len(st[1]) == 98 else ("bits", 96 if st[0] == "data" else 196)
    return b.steps


def message_for_history(rng):
    """base message of one history: random, or a shape whose integer value / prefix / suffix is special"""
    k = rng.random()
    if k < 0.6:
        return rand_bits(rng, 96), "random"
    if k < 0.7:
        n = rng.choice((1, 4, 8, 16, 64))
        return "0" * n + "1" + rand_bits(rng, 95 - n), "leading-zeros"
    if k < 0.78:
        n = rng.choice((1, 4, 8, 16, 64))
        return rand_bits(rng, 95 - n) + "1" + "0" * n, "trailing-zeros"
    if k < 0.86:
        w = ["0"] * 96
        for i in rng.sample(range(96), rng.choice((1, 2, 3))):
            w[i] = "1"
        return "".join(w), "low-weight"
    if k < 0.92:
        return "1" + rand_bits(rng, 94) + "1", "both-ends-set"
    if k < 0.96:
        return "1" * 96, "all-one"
    return "0" * 96, "all-zero"


class Histories:
    """runs histories on the class under test (one long-lived class object for the whole run) and reports"""

    def __init__(self, ctx, R, by_rc):
        self.ctx, self.R, self.by_rc = ctx, R, by_rc
        B = R.B
        il, info_keys, res_keys = {}, [], []
        for k, v in B.INTERLEAVING_INDICES.items():
            il[k] = v[0]
            if v[3]:
                res_keys.append(k)
            elif not v[4]:
                info_keys.append(k)
        self.tabs = (il, info_keys, res_keys)
        self.lines = []
        self.pending = []

    def rel(self, m):
        return Rel(m, self.ctx.rng, self.tabs, self.by_rc)

    def patterns(self, rel):
        """error patterns for the code words a history handed out: the classes the repair treats differently"""
        rng = self.ctx.rng
        out = []
        for _ in range(2):
            r = rng.randrange(13)
            c1, c2 = rng.sample(range(15), 2)
            out.append(tuple(sorted((self.by_rc[(r, c1)], self.by_rc[(r, c2)]))))
        c = rng.randrange(15)
        r1, r2 = rng.sample(range(13), 2)
        out.append(tuple(sorted((self.by_rc[(r1, c)], self.by_rc[(r2, c)]))))
        out.append(rel.errors())
        return out

    def run(self, steps, rel, tag, sample=False):
        ctx, B = self.ctx, self.R.B
        H = Hist(B, fresh_class).run(steps)
        pats = self.patterns(rel)
        pbad = property_checks(H, B, pats)
        H.finish()
        ctx.case(("history", tuple(steps)), nontrivial=True,
                 sample={"history": steps_str(steps), "results": [o[:48] for _, o in H.lines[:len(steps)]]} if sample else None)
        ctx.count(f"hist:{tag}")
        ctx.count("hist:steps", len(steps))
        ctx.count("hist:kept-objects", sum(1 for o in H.held if o is not None))
        ctx.count("hist:code-words-re-verified", len(H.enc))
        for st in steps:
            if st[-1].startswith("?="):
                ctx.count("hist:calls-with-promised-result")
            if st[0] in CALL_OPS and any(t.startswith("@") for t in st[1:]) and st[0] != "fill":
                ctx.count("hist:kept-object-as-argument")
        self.lines.append(("bh.reset", "ok"))
        self.lines += H.lines
        n = 0
        for kind, i, m, e, what, exp, act in pbad:
            if n < 3:
                self.pending.append((0, kind, steps[: i + 1], what, exp, act, m, e))
            n += 1
        for kind, i, what, exp, act in H.bad:
            if n < 3:
                prio = 0 if kind in ("not-corrected", "round-trip", "repair-alters-codeword", "encode") else \
                    1 if kind == "history-dependent-result" and steps[i][0] in ("encode", "data", "repair") else 2
                self.pending.append((prio, kind, steps[: i + 1], what, exp, act, None, None))
            n += 1

    def emit(self):
        """report what the histories found, failures of the property as stated first; the first few are reduced
        to a short history that fails on a new copy of the class (so that the replay, a new process, fails too)"""
        ctx = self.ctx
        self.pending.sort(key=lambda r: r[0])
        for n, (_, kind, steps, what, exp, act, m, e) in enumerate(self.pending):

            def fails(cand):
                C = fresh_class()
                if C is None:
                    return False
                if m is None:
                    return any(b[0] == kind for b in Hist(C, fresh_class).run(cand).bad)
                H2 = Hist(C, None).run(cand)
                return any(b[0] == kind and b[2] == m for b in property_checks(H2, C, [e] if e else [], limit=99))

            inp = {"history": steps_str(steps)}
            if n < 6:
                if fails(steps):
                    inp = {"history": steps_str(shrink_history(steps, fails)), "fails_on_a_new_copy_of_the_class": True}
                else:
                    inp["fails_on_a_new_copy_of_the_class"] = False
            if m is not None:
                inp["message"] = m
                inp["error_positions"] = list(e)
            ctx.fail(kind, inp, what + " (after the calls of the history)", expected=exp, actual=act)
        self.pending = []

    def flush(self):
        ctx = self.ctx
        if self.lines and not ctx.search_only and ctx.driver_ok:
            ctx.correspond("history", self.lines)
        self.lines = []


def run_histories(ctx, R, by_rc):
    rng = ctx.rng
    boost = min(ctx.boost, 2)  # the class is small: a changed source is searched twice as long, not 4-8 times
    Hs = Histories(ctx, R, by_rc)
    # ---- every (what happened before) x (call under observation), each with a message of its own
    sweeps = (1 if not ctx.thorough() else 6) * boost
    for s in range(sweeps):
        names_p = [n for n, _ in primes(Hs.rel("0" * 96), rng)]
        names_q = [n for n, _ in probes(Hs.rel("0" * 96), rng)]
        for ip, np_ in enumerate(names_p):
            for iq, nq in enumerate(names_q):
                m, shape = message_for_history(rng)
                rel = Hs.rel(m)
                b = Build()
                primes(rel, rng)[ip][1](b)
                probes(rel, rng)[iq][1](b)
                ctx.count(f"hist:message:{shape}")
                ctx.count(f"hist:before:{np_.split(':')[0]}")
                Hs.run(b.steps, rel, "pairwise", sample=(s == 0 and (ip, iq) in ((0, 0), (11, 6))))
        Hs.flush()
    # ---- random interleavings
    n_rand = (500 if not ctx.thorough() else 6000) * boost
    for i in range(n_rand):
        m, shape = message_for_history(rng)
        rels = [Hs.rel(m)]
        if rng.random() < 0.4:
            rels.append(Hs.rel(rels[0].near()))
        steps = random_history(rng, rels, rng.randint(4, 14))
        ctx.count(f"hist:message:{shape}")
        Hs.run(steps, rels[0], "random-interleaving", sample=(i == 0))
        if i % 200 == 199:
            Hs.flush()
    Hs.flush()
    Hs.emit()


def run(ctx):
    ctx.rule = (
        "message = 96 seeded random bits (plus all-zero, all-one, the 96 unit messages in thorough); error pattern = set of "
        "inverted on-air positions of weight 0..4 drawn from the structural classes of the 13x15 table (clean, single, "
        "pair in one row / one column / parity-on-parity corner / with R(3) / random, triple, quadruple); corpus = the 616 "
        "pairs that failed before fix 23ad248; thorough additionally enumerates all 19,307 patterns of weight <= 2 on "
        "several random code words.  A case is (message, pattern); all are non-trivial; distinct = distinct pair.  "
        "Histories of calls (one long-lived class object for the whole run): every pair (what was called before: encode of "
        "196-bit inputs sharing the integer value / prefix / suffix / info bits with the message, blocks with non-zero "
        "reserved bits through encode / repair / decode / deinterleave / fill, tables and results the caller overwrote, "
        "wrong lengths, little-endian containers) x (call under observation: encode, encode twice, decode, repair, "
        "encode-keep-flip-decode, make-fill-encode), each with a message of its own (random, leading / trailing zeros, low "
        "weight, all-zero, all-one), plus random interleavings of all entry points (4-14 steps) with kept objects passed "
        "again, overwritten and calls repeated.  Every call is compared with the same call made first on a new copy of the "
        "class and with the stateful model; arguments and kept objects are re-read after every step; every code word "
        "handed out for a 96-bit message is decoded afterwards (clean, repair, 4 error patterns of weight <= 2).  A case is "
        "one history."
    )
    ctx.trusted_base += [
        "Lean 4.33 kernel",
        "tools/extract_bptc.py (INTERLEAVING_INDICES and the four derived maps of BPTC19696, in dict order) and tools/extract.py (Hamming matrices)",
        "hand-written model Model/Bptc.lean (loops as scatter/gather over the extracted tables, row/column passes as maps calling Code.correct) tied to the code by this run's correspondence on encode / deinterleave_data_bits / repair_if_necessary",
        "numpy / bitarray are trusted as the substrate of the implementation",
        "Model/BptcHist.lean (objects handed out so far, calls as history-free functions of their arguments, fill_encoding_table "
        "on the table it is given) tied to the code by this run's correspondence on histories (bh.* lines)",
        "the 'first call' reference of the history probes is the module source executed again in a module object of its own "
        "(state kept in the Hamming classes or other modules would be shared with it; the model comparison does not depend on it)",
    ]
    ctx.assumptions += [
        "inputs are bitarrays (big-endian containers; little-endian containers with the same bit sequence in the history probes: the entry points index the bits, so the model ignores the container's bit order); messages have 96 bits, received words 196 bits (other lengths: both sides raise/return AssertionError, compared)",
        "make_encoding_table / fill_encoding_table are exercised with 13x15 integer tables holding 0/1 only",
        "repair_if_necessary is modelled for deinterleaved=False only (the library never passes True)",
    ]
    rng = ctx.rng
    R = Run(ctx)
    B = R.B
    pos, by_rc = layout()

    # ---------------- corpus: historically failing inputs first
    m0 = rand_bits(rng, 96)
    R.check(m0, (2, 24), "corpus-old-nest", sample=True)
    old_pairs = old_nest_pairs()
    for n, pr in enumerate(old_pairs):
        m = m0 if n % 3 else rand_bits(rng, 96)
        R.check(m, pr, "corpus-old-nest", corr_level=2 if n % 4 == 0 else 1)
    # repair used to overwrite on-air bit 0 with table[12][0] (fix 87ec7cf): clean words, both values of that cell
    seen = set()
    for _ in range(64):
        m = rand_bits(rng, 96)
        c = R.encode(m)
        if len(c) == 196 and c[29] not in seen:  # on-air 29 = table[12][0]
            seen.add(c[29])
            R.check(m, (), "corpus-R3-writeback", sample=True)
        if len(seen) == 2:
            break
    for m in ("0" * 96, "1" * 96):
        for e, tag in patterns_for(rng, by_rc, 8):
            R.check(m, e, tag)

    # ---------------- random messages x structured error patterns
    n_msgs = ctx.budget(300, 2500)
    per_msg = 40
    for i in range(n_msgs):
        m = rand_bits(rng, 96)
        for j, (e, tag) in enumerate(patterns_for(rng, by_rc, per_msg)):
            # correspondence on every pattern of the first messages, then on a thinning sample (the oracle sees all)
            lvl = 2 if (i < 40 or j % 8 == 0) else (1 if j % 2 == 0 else 0)
            if ctx.thorough() and i >= 300:
                lvl = 2 if j % 10 == 0 else 0
            R.check(m, e, tag, corr_level=lvl, sample=(i == 1 and j in (3, 9)))
        if i % 50 == 49:
            R.flush()
    R.flush()

    # ---------------- GF(2)-linearity of the encoder and unit messages (what reduces 2^96 to 96 in the proof)
    n_lin = ctx.budget(60, 1000)
    for _ in range(n_lin):
        a, b = rand_bits(rng, 96), rand_bits(rng, 96)
        ca, cb, cab = R.encode(a), R.encode(b), R.encode(xor_str(a, b))
        ctx.case(("lin", a, b))
        ctx.count("linearity")
        if any(x.startswith("ERR") for x in (ca, cb, cab)) or xor_str(ca, cb) != cab:
            ctx.fail("not-linear", {"a": a, "b": b}, "encode(a xor b) != encode(a) xor encode(b)", expected=None, actual=cab[:40])
    units = range(96) if ctx.thorough() else rng.sample(range(96), 12 * ctx.boost if ctx.boost * 12 <= 96 else 96)
    for i in units:
        m = "0" * i + "1" + "0" * (95 - i)
        R.check(m, (), "unit-message")
        c = R.encode(m)
        # minimum distance 9 of the product code: a unit message encodes to weight >= 9
        if len(c) == 196 and c.count("1") < 9:
            ctx.fail("min-distance", {"message": m, "error_positions": []}, "unit message encodes to weight < 9", expected=">=9", actual=c.count("1"))
        for e, tag in patterns_for(rng, by_rc, 6 if not ctx.thorough() else 20):
            R.check(m, e, tag)
    R.flush()

    # ---------------- histories of calls: every entry point, related inputs of both accepted lengths, kept objects
    run_histories(ctx, R, by_rc)

    # ---------------- argument validation and the 196-bit branch of encode (model must reject what the code rejects)
    if not ctx.search_only and ctx.driver_ok:
        pairs = []
        for n in (0, 1, 95, 97, 195, 197, 392):
            x = rand_bits(rng, n)
            s = x or "-"
            pairs.append((f"bptc.encode {s}", call(B.encode, bitarray(x))))
            pairs.append((f"bptc.data 1 {s}", call(B.deinterleave_data_bits, bitarray(x), True)))
            pairs.append((f"bptc.data 0 {s}", call(B.deinterleave_data_bits, bitarray(x), False)))
            pairs.append((f"bptc.repair {s}", call(B.repair_if_necessary, bitarray(x))))
            ctx.case(("len", n, x))
            ctx.count("wrong-length")
        for _ in range(ctx.budget(40, 400)):
            x = rand_bits(rng, 196)
            pairs.append((f"bptc.encode {x}", call(B.encode, bitarray(x))))
            pairs.append((f"bptc.deinterleave_all {x}", call(B.deinterleave_all_bits, bitarray(x))))
            pairs.append((f"bptc.repair {x}", call(B.repair_if_necessary, bitarray(x))))
            ctx.case(("w196", x))
            ctx.count("random-196-bit-word")
        ctx.correspond("lengths-and-196-bit-branch", pairs)

    # ---------------- thorough: every pattern of weight <= 2 on several code words
    if ctx.thorough():
        n_words = 3 * ctx.boost
        allpat = [()] + [(i,) for i in range(196)] + list(itertools.combinations(range(196), 2))
        for k in range(n_words):
            m = rand_bits(rng, 96)
            for n, e in enumerate(allpat):
                # model vs code on all patterns of the first word, every 4th of the others
                lvl = 2 if k == 0 else (1 if n % 4 == k % 4 else 0)
                R.check(m, e, "exhaustive-le2", corr_level=lvl)
            R.flush()
        ctx.exhaustive = True
        ctx.notes.append(f"all {len(allpat)} error patterns of weight <= 2 on {n_words} random code words")


def replay_history(inp, f):
    """re-run a history on the real class (this process has not called it before), then the recorded check"""
    B = bptc()
    steps = steps_parse(inp["history"])
    H = Hist(B, fresh_class).run(steps)
    model = {}
    try:
        lines = ["bh.reset"] + [l for l, _ in H.lines]
        rc, out, _ = sh([BIN + "/drv_c02"], input="\n".join(lines) + "\n", timeout=120)
        model = dict(enumerate(out.split("\n")[1:]))
    except Exception as e:  # noqa
        print("model driver not available:", e)
    for i, (st, (_, out)) in enumerate(zip(steps, H.lines)):
        print(f"step {i:2d}  {' '.join(st)[:150]}")
        print(f"         implementation -> {out}")
        if i in model:
            print(f"         model          -> {model[i]}" + ("" if model[i] == out else "      <-- differs"))
    bad = [(k, i, w, e, a) for k, i, w, e, a in H.bad]
    if "message" in inp:
        e = tuple(inp.get("error_positions") or ())
        for k, i, m, pe, w, ex, ac in property_checks(H, B, [e] if e else [], limit=99):
            if m == inp["message"]:
                bad.append((k, i, f"{w}; message {m}, inverted on-air positions {list(pe)}", ex, ac))
    for k, i, w, ex, ac in bad:
        print(f"FAILS [{k}] at step {i}: {w}")
        print(f"         expected {ex}")
        print(f"         actual   {ac}")
    if not bad:
        print("the history does not fail in this process")
    print("recorded:", f.get("what"))
    print("expected:", f.get("expected"))
    print("actual:  ", f.get("actual"))
    return 1 if bad else 0


def replay(obj):
    f = obj.get("failure") or {}
    inp = f.get("input", {})
    B = bptc()
    print(obj.get("type"), "-", f.get("what"))
    if "a" in inp:
        a, b = inp["a"], inp["b"]
        ca, cb, cab = (call(B.encode, bitarray(x)) for x in (a, b, xor_str(a, b)))
        print("implementation encode(a) xor encode(b) =", xor_str(ca, cb) if not (ca.startswith("ERR") or cb.startswith("ERR")) else (ca, cb))
        print("implementation encode(a xor b)         =", cab)
        return 1 if (ca.startswith("ERR") or cb.startswith("ERR") or cab.startswith("ERR") or xor_str(ca, cb) != cab) else 0
    if "history" in inp:
        return replay_history(inp, f)
    if "message" not in inp:
        print("nothing to replay: no failing input was recorded (see no_longer_checks / correspondence_differences)")
        for d in (obj.get("correspondence_differences") or [])[:5]:
            print("difference:", d)
        for d in (obj.get("no_longer_checks") or [])[:5]:
            print("no longer checks:", d)
        return 1
    m, positions = inp["message"], inp.get("error_positions", [])
    c = call(B.encode, bitarray(m))
    print(f"message            = {m}")
    print(f"implementation encode             = {c}")
    bad = 0
    if c.startswith("ERR") or len(c) != 196:
        return 1
    w = flip(c, positions)
    d1 = call(B.deinterleave_data_bits, bitarray(w), True)
    d0 = call(B.deinterleave_data_bits, bitarray(w), False)
    rp = call(B.repair_if_necessary, bitarray(w))
    print(f"inverted on-air positions         = {positions}")
    print(f"implementation decode (repair)    = {d1}   {'== message' if d1 == m else '!= message'}")
    print(f"implementation decode (no repair) = {d0}   {'== message' if d0 == m else '!= message'}")
    print(f"implementation repair_if_necessary= {rp}   {'== code word' if rp == c else '!= code word'}")
    if len(positions) <= 2 and d1 != m:
        bad = 1
    if len(positions) == 0 and (d0 != m or rp != c):
        bad = 1
    if c.count("1") < 9 and m.count("1") == 1:
        bad = 1
    exe = BIN + "/drv_c02"
    try:
        lines = [f"bptc.encode {m}", f"bptc.data 1 {w}", f"bptc.data 0 {w}", f"bptc.repair {w}"]
        rc, out, _ = sh([exe], input="\n".join(lines) + "\n", timeout=120)
        for l, o in zip(lines, out.split("\n")):
            print(f"model {l.split(' ')[0]:<12} {' '.join(l.split(' ')[1:-1]):<2}= {o}")
    except Exception as e:  # noqa
        print("model driver not available:", e)
    print("expected:", f.get("expected"))
    print("actual:  ", f.get("actual"))
    return bad
