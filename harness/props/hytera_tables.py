"""Class-level constant tables of the Hytera PDU / handler modules — shared helper of C12 and C17 (round 5).

A changed Enum member value, an added or removed member, a changed key of a dict-literal table change what the
parsers accept without changing a single function statement: there is nothing for the coverage obligation to see.
This module gives both properties

1. `harvest(roots)`: an `ast` reading (nothing is imported or executed) of every Enum / IntEnum / Flag class
   (member -> value, whether `_missing_` folds unknown values onto a member), every dict literal's key list and
   every simple class-level constant of the given files and of every `okdmr.*` module they import (transitively,
   function-level imports included) — from the CURRENT source under `repo_root()` (VERIF_REPO, default /repo);
2. a committed snapshot of that reading (harness/props/c12.enums.json, c17.enums.json; written by the modules'
   `--rebaseline` switch).  The snapshot is the catalogue of documented wire values at the time it was taken.  It is
   never compared as a verdict: a difference only DIRECTS the search (`diff_tables`, `candidates`) and the
   catalogue says which hand-written frames count as documented / which raw opcodes count as pass-through.  Only a
   concrete frame or datagram that the property's oracle rejects on the real code is ever reported;
3. the wire layout of every implemented message kind written out by hand (`KINDS`: service octet, opcode octets,
   length, payload segments, checksum, 0x03) with the position / width / byte order of every enum-typed field
   (`Site`), so that any value can be placed in any such field independent of the library;
4. the seed-rotated sixteenth of the 16-bit space and the neighbourhood of the catalogue entries.
"""
import ast
import glob
import json
import os

PDU_DIR = "okdmr/dmrlib/hytera/pdu"
HANDLERS = [
    "okdmr/dmrlib/protocols/hytera/hstrp_datagram_protocol.py",
    "okdmr/dmrlib/protocols/hytera/rrs_datagram_protocol.py",
]
HERE = os.path.dirname(os.path.abspath(__file__))


def repo_root() -> str:
    return os.environ.get("VERIF_REPO") or "/repo"


def roots_pdu(root=None):
    root = root or repo_root()
    return sorted(os.path.relpath(p, root) for p in glob.glob(os.path.join(root, PDU_DIR, "*.py")))


def roots_handlers(root=None):
    return roots_pdu(root) + list(HANDLERS)


# ------------------------------------------------------------------------------------------------
# harvest

_ENUM_BASES = ("Enum", "IntEnum", "Flag", "IntFlag", "StrEnum", "ReprEnum")


def _fold(node, env):
    """value of a constant expression: literals, earlier names of the same class body, int arithmetic"""
    try:
        return ast.literal_eval(node)
    except Exception:  # noqa
        pass
    if isinstance(node, ast.Name) and node.id in env:
        return env[node.id]
    if isinstance(node, ast.UnaryOp):
        v = _fold(node.operand, env)
        if isinstance(v, int):
            if isinstance(node.op, ast.USub):
                return -v
            if isinstance(node.op, ast.Invert):
                return ~v
            if isinstance(node.op, ast.UAdd):
                return v
    if isinstance(node, ast.BinOp):
        a, b = _fold(node.left, env), _fold(node.right, env)
        if isinstance(a, int) and isinstance(b, int):
            ops = {ast.BitOr: lambda: a | b, ast.BitAnd: lambda: a & b, ast.BitXor: lambda: a ^ b, ast.Add: lambda: a + b,
                   ast.Sub: lambda: a - b, ast.Mult: lambda: a * b, ast.LShift: lambda: a << b if 0 <= b < 64 else None,
                   ast.RShift: lambda: a >> b if 0 <= b < 64 else None}
            f = ops.get(type(node.op))
            if f is not None:
                r = f()
                if r is not None:
                    return r
    if isinstance(node, (ast.Tuple, ast.List)):
        vs = [_fold(e, env) for e in node.elts]
        if not any(isinstance(v, _Unknown) for v in vs):
            return tuple(vs)
    return _Unknown(ast.unparse(node))


class _Unknown:
    def __init__(self, src):
        self.src = src


def _jsonable(v):
    if isinstance(v, _Unknown):
        return "expr:" + v.src
    if isinstance(v, bool) or v is None or isinstance(v, (int, float, str)):
        return v
    if isinstance(v, bytes):
        return {"bytes": v.hex()}
    if isinstance(v, (tuple, list)):
        return [_jsonable(x) for x in v]
    if isinstance(v, (set, frozenset)):
        return sorted((_jsonable(x) for x in v), key=repr)
    if isinstance(v, dict):
        return {"dict": [[_jsonable(k), _jsonable(x)] for k, x in v.items()]}
    return "expr:" + repr(v)


def _is_enum_class(node, known):
    for b in node.bases:
        s = ast.unparse(b)
        last = s.split(".")[-1]
        if last in _ENUM_BASES or last in known:
            return True
    return False


def _missing_of(node):
    """None: no `_missing_`; a member name: `_missing_` is `return Cls.Member` (unknown values fold onto it);
    "other": anything else (a guard that raises, computed members …)"""
    for st in node.body:
        if isinstance(st, (ast.FunctionDef, ast.AsyncFunctionDef)) and st.name == "_missing_":
            body = [s for s in st.body if not (isinstance(s, ast.Expr) and isinstance(getattr(s, "value", None), ast.Constant) and isinstance(s.value.value, str))]
            if len(body) == 1 and isinstance(body[0], ast.Return) and isinstance(body[0].value, ast.Attribute) \
                    and isinstance(body[0].value.value, ast.Name) and body[0].value.value.id in (node.name, "cls"):
                return body[0].value.attr
            return "other"
    return None


def _class_assignments(node):
    """(name, value node) of the simple assignments in a class body, in order"""
    for st in node.body:
        if isinstance(st, ast.Assign) and st.value is not None:
            for t in st.targets:
                if isinstance(t, ast.Name):
                    yield t.id, st.value
        elif isinstance(st, ast.AnnAssign) and st.value is not None and isinstance(st.target, ast.Name):
            yield st.target.id, st.value


def harvest_source(src: str, known_enums=()):
    tree = ast.parse(src)
    out = {"enums": {}, "dicts": {}, "consts": {}}

    def visit(node, prefix):
        for ch in ast.iter_child_nodes(node):
            if isinstance(ch, ast.ClassDef):
                q = prefix + ch.name
                if _is_enum_class(ch, known_enums):
                    env, members = {}, {}
                    for name, vn in _class_assignments(ch):
                        if name.startswith("_") or isinstance(vn, ast.Lambda):
                            continue
                        v = _fold(vn, env)
                        if not isinstance(v, _Unknown):
                            env[name] = v
                        members[name] = _jsonable(v)
                    out["enums"][q] = {"bases": [ast.unparse(b) for b in ch.bases], "members": members, "missing": _missing_of(ch)}
                else:
                    env = {}
                    for name, vn in _class_assignments(ch):
                        v = _fold(vn, env)
                        if not isinstance(v, _Unknown):
                            env[name] = v
                            out["consts"][q + "." + name] = _jsonable(v)
                visit(ch, q + ".")
            elif isinstance(ch, (ast.FunctionDef, ast.AsyncFunctionDef)):
                visit(ch, prefix + ch.name + ".")
            elif isinstance(ch, (ast.If, ast.Try, ast.With, ast.For, ast.While, ast.ExceptHandler)):
                visit(ch, prefix)  # compound statement: its parts one by one (classes / functions nested in it included)
            else:
                if prefix == "" and isinstance(ch, (ast.Assign, ast.AnnAssign)) and ch.value is not None:
                    # module-level constants
                    tg = ch.targets if isinstance(ch, ast.Assign) else [ch.target]
                    v = _fold(ch.value, {})
                    if not isinstance(v, _Unknown):
                        for t in tg:
                            if isinstance(t, ast.Name):
                                out["consts"][t.id] = _jsonable(v)
                # dict literals anywhere in this statement / expression, numbered per enclosing scope
                for d in ast.walk(ch):
                    if isinstance(d, ast.Dict) and d.keys:
                        out["dicts"][f"{prefix}<dict {len([x for x in out['dicts'] if x.startswith(prefix + '<dict ')])}>"] = [
                            "**" if kk is None else ast.unparse(kk) for kk in d.keys]

    visit(tree, "")
    return out


def _imports(src: str):
    """okdmr.* modules a source imports (anywhere, function-level imports included): candidate relative paths"""
    out = []
    try:
        tree = ast.parse(src)
    except SyntaxError:
        return out
    for n in ast.walk(tree):
        if isinstance(n, ast.ImportFrom) and n.level == 0 and n.module and n.module.split(".")[0] == "okdmr":
            base = n.module.replace(".", "/")
            out += [base + ".py", base + "/__init__.py"] + [f"{base}/{a.name}.py" for a in n.names]
        elif isinstance(n, ast.Import):
            for a in n.names:
                if a.name.split(".")[0] == "okdmr":
                    base = a.name.replace(".", "/")
                    out += [base + ".py", base + "/__init__.py"]
    return out


def harvest(roots, root=None):
    """{"modules": {relative path: {"enums", "dicts", "consts"}}} of the roots and their okdmr import closure"""
    root = root or repo_root()
    todo, seen, srcs = list(roots), set(), {}
    while todo:
        rel = todo.pop(0)
        if rel in seen:
            continue
        seen.add(rel)
        path = os.path.join(root, rel)
        if not os.path.isfile(path):
            continue
        try:
            src = open(path, encoding="utf-8").read()
        except OSError:
            continue
        srcs[rel] = src
        todo += [r for r in _imports(src) if r not in seen]
    # two passes: a class deriving from an enum class defined in another harvested module is an enum too
    known = set()
    mods = {}
    for _ in range(2):
        mods = {}
        for rel, src in sorted(srcs.items()):
            try:
                mods[rel] = harvest_source(src, known)
            except SyntaxError as e:
                mods[rel] = {"enums": {}, "dicts": {}, "consts": {}, "unparsable": str(e)}
        known = {q.split(".")[-1] for m in mods.values() for q in m["enums"]}
    return {"modules": {rel: m for rel, m in mods.items() if m["enums"] or m["dicts"] or m["consts"] or m.get("unparsable")}}


def live_tables(cat_t):
    """the Enum classes of the catalogue's modules as the INTERPRETER holds them (members added by a decorator, a loop, the functional
    API or an import-time patch are invisible to `ast`): same shape as a harvest, enums only.  Modules that do not import are skipped."""
    import enum as _enum
    import importlib

    mods = {}
    for rel, m in sorted(cat_t.get("modules", {}).items()):
        if not m.get("enums"):
            continue
        try:
            mod = importlib.import_module(rel[:-3].replace("/", "."))
        except BaseException:  # noqa
            continue
        enums = {}
        for name, obj in vars(mod).items():
            if isinstance(obj, type) and issubclass(obj, _enum.Enum) and getattr(obj, "__module__", None) == mod.__name__:
                enums[name] = {"bases": [], "members": {n: _jsonable(mm.value) for n, mm in obj.__members__.items()}, "missing": m["enums"].get(name, {}).get("missing")}
        for q, e in m["enums"].items():
            if "." in q and q not in enums:
                enums[q] = e  # nested classes are not looked up in the interpreter: no difference from there
        mods[rel] = {"enums": enums, "dicts": dict(m.get("dicts", {})), "consts": dict(m.get("consts", {}))}
    for rel, m in cat_t.get("modules", {}).items():
        if rel not in mods:
            mods[rel] = m
    return {"modules": mods}


def snapshot_path(prop: str) -> str:
    return os.path.join(HERE, f"{prop.lower()}.enums.json")


def load_snapshot(prop: str):
    with open(snapshot_path(prop), encoding="utf-8") as f:
        return json.load(f)


def rebaseline(prop: str, roots) -> str:
    """the maintainer switch: write the tables of the current source as the new catalogue"""
    t = harvest(roots)
    t["__doc__"] = (
        f"Constant tables (Enum members, dict-literal keys, class-level constants) of the modules {prop}'s entry points reach, read with ast "
        f"from the source tree. Catalogue of documented wire values; directs the table sweeps of harness/props/{prop.lower()}.py, never a verdict by itself. "
        f"Regenerate after an intended change of a table: /venv/bin/python harness/props/{prop.lower()}.py --rebaseline"
    )
    p = snapshot_path(prop)
    with open(p, "w", encoding="utf-8") as f:
        json.dump(t, f, indent=1)  # member order = definition order
        f.write("\n")
    return p


# ------------------------------------------------------------------------------------------------
# catalogue queries and differences


class Tables:
    """one harvest (snapshot or current) with the queries the sweeps need"""

    def __init__(self, t):
        self.mods = t.get("modules", {})

    def enum(self, cls: str):
        """the enum class of this name (module-level classes of the harvested modules; the first in path order)"""
        for rel in sorted(self.mods):
            e = self.mods[rel]["enums"].get(cls)
            if e is not None:
                return e
        return None

    def members(self, cls: str):
        """[(name, int value)] in definition order"""
        e = self.enum(cls)
        if e is None:
            return []
        return [(n, v) for n, v in e["members"].items() if isinstance(v, int) and not isinstance(v, bool)]

    def values(self, cls: str):
        return {v for _n, v in self.members(cls)}

    def value_of(self, cls: str, name: str):
        for n, v in self.members(cls):
            if n == name:
                return v
        return None

    def folds(self, cls: str) -> bool:
        """unknown values fold onto a member (`_missing_` returns one)"""
        e = self.enum(cls)
        return bool(e) and e.get("missing") not in (None, "other") and e["missing"] in e["members"]

    def all_enums(self):
        for rel in sorted(self.mods):
            for q, e in self.mods[rel]["enums"].items():
                yield rel, q, e


def _ints_of(v):
    """integers a table value denotes (a bytes constant of 1..2 octets in both byte orders)"""
    if isinstance(v, bool):
        return []
    if isinstance(v, int):
        return [v]
    if isinstance(v, dict) and "bytes" in v:
        b = bytes.fromhex(v["bytes"])
        if 1 <= len(b) <= 2:
            return sorted({int.from_bytes(b, "big"), int.from_bytes(b, "little")})
    if isinstance(v, list):
        return [i for x in v for i in _ints_of(x)]
    return []


def diff_tables(old, new):
    """differences between two harvests: [{"module", "table", "what": added|removed|changed, "name", "old", "new"}]"""
    out = []
    om, nm = old.get("modules", {}), new.get("modules", {})
    for rel in sorted(set(om) | set(nm)):
        o, n = om.get(rel, {"enums": {}, "dicts": {}, "consts": {}}), nm.get(rel, {"enums": {}, "dicts": {}, "consts": {}})
        if n.get("unparsable") or o.get("unparsable"):
            out.append({"module": rel, "table": "<module>", "what": "unparsable", "name": "", "old": o.get("unparsable"), "new": n.get("unparsable")})
        for q in sorted(set(o["enums"]) | set(n["enums"])):
            a, b = o["enums"].get(q, {"members": {}, "missing": None}), n["enums"].get(q, {"members": {}, "missing": None})
            for name in list(a["members"]) + [x for x in b["members"] if x not in a["members"]]:
                if name not in b["members"]:
                    out.append({"module": rel, "table": q, "what": "removed", "name": name, "old": a["members"][name], "new": None})
                elif name not in a["members"]:
                    out.append({"module": rel, "table": q, "what": "added", "name": name, "old": None, "new": b["members"][name]})
                elif a["members"][name] != b["members"][name]:
                    out.append({"module": rel, "table": q, "what": "changed", "name": name, "old": a["members"][name], "new": b["members"][name]})
            if a.get("missing") != b.get("missing"):
                out.append({"module": rel, "table": q, "what": "changed", "name": "_missing_", "old": a.get("missing"), "new": b.get("missing")})
        for q in sorted(set(o["dicts"]) | set(n["dicts"])):
            a, b = o["dicts"].get(q, []), n["dicts"].get(q, [])
            for k in a:
                if k not in b:
                    out.append({"module": rel, "table": q, "what": "removed", "name": k, "old": k, "new": None})
            for k in b:
                if k not in a:
                    out.append({"module": rel, "table": q, "what": "added", "name": k, "old": None, "new": k})
        for q in sorted(set(o["consts"]) | set(n["consts"])):
            a, b = o["consts"].get(q), n["consts"].get(q)
            if a != b:
                out.append({"module": rel, "table": q, "what": "changed" if q in o["consts"] and q in n["consts"] else ("added" if q in n["consts"] else "removed"),
                            "name": q.split(".")[-1], "old": a, "new": b})
    return out


def _resolve_key(expr: str, tabs):
    """int value of a dict key expression: a literal or `Class.Member` of a harvested enum (in any of the harvests)"""
    try:
        v = ast.literal_eval(expr)
        return _ints_of(_jsonable(v))
    except Exception:  # noqa
        pass
    parts = expr.split(".")
    out = []
    if len(parts) >= 2:
        for t in tabs:
            v = t.value_of(parts[-2], parts[-1])
            if v is not None:
                out.append(v)
    return out


def candidates(diff, old: "Tables", new: "Tables"):
    """{value: [reason, …]}: every value that is new, gone or changed (old AND new), and its neighbours ±1"""
    out = {}

    def add(v, why):
        for d, tag in ((0, ""), (-1, "-1"), (1, "+1")):
            x = v + d
            if 0 <= x <= 0xFFFF:
                out.setdefault(x, [])
                w = why + tag
                if w not in out[x]:
                    out[x].append(w)

    for d in diff:
        why = f"{d['table']}.{d['name']}:{d['what']}"
        for side in ("old", "new"):
            v = d[side]
            if v is None:
                continue
            vals = _ints_of(v)
            if not vals and isinstance(v, str):
                vals = _resolve_key(v, (old, new))
            for x in vals:
                add(x, f"{why}:{side}")
    return out


class Reading:
    """everything a run knows about the tables: the catalogue, the current source (ast), the interpreter's classes, the differences"""

    def __init__(self, prop, roots):
        self.cat_t = load_snapshot(prop)
        self.cur_t = harvest(roots)
        self.live_t = live_tables(self.cat_t)
        self.cat, self.cur, self.live = Tables(self.cat_t), Tables(self.cur_t), Tables(self.live_t)
        self.diff = diff_tables(self.cat_t, self.cur_t)
        seen = {(d["module"], d["table"], d["name"], repr(d["old"]), repr(d["new"])) for d in self.diff}
        for d in diff_tables(self.cat_t, self.live_t):
            if (d["module"], d["table"], d["name"], repr(d["old"]), repr(d["new"])) not in seen:
                self.diff.append(dict(d, source="interpreter"))
        self.cand = candidates(self.diff, self.cat, self.cur)
        self.changed = {d["table"].split(".")[-1] for d in self.diff}  # class names whose table differs

    def now_values(self, cls):
        return self.cur.values(cls) | self.live.values(cls)

    def now_members(self, cls):
        ms = list(self.cur.members(cls))
        have = {v for _n, v in ms}
        return ms + [(n, v) for n, v in self.live.members(cls) if v not in have]

    def now_folds(self, cls):
        return self.cur.folds(cls) or self.live.folds(cls)

    def describe(self, n=12):
        return "; ".join(f"{d['table']}.{d['name']} {d['what']} {d['old']!r} -> {d['new']!r}" + (" (interpreter only)" if d.get("source") else "") for d in self.diff[:n])


# ------------------------------------------------------------------------------------------------
# wire layout of the implemented message kinds, written out by hand


def hdap_checksum(checked: bytes) -> int:
    return ((255 - (sum(checked) % 256)) + 0x33) % 256


def hdap_frame(first: int, opcode2: bytes, payload: bytes, little: bool) -> bytes:
    checked = opcode2 + len(payload).to_bytes(2, "little" if little else "big") + payload
    return bytes([first]) + checked + bytes([hdap_checksum(checked), 0x03])


def refresh_checksum(frame: bytes) -> bytes:
    return frame[:-2] + bytes([hdap_checksum(frame[1:-2]), 0x03])


def hrnp_checksum(octets: bytes) -> int:
    b = octets + (b"\x00" if len(octets) % 2 else b"")
    s = sum((b[i] << 8) | b[i + 1] for i in range(0, len(b), 2))
    while s > 0xFFFF:
        s = (s & 0xFFFF) + (s >> 16)
    return s ^ 0xFFFF


def hrnp_packet(opcode: int, inner: bytes = b"", source=0x20, destination=0x10, block=0, number=1, version=4) -> bytes:
    head = bytes([0x7E, version, block, opcode, source, destination]) + number.to_bytes(2, "big") + (12 + len(inner)).to_bytes(2, "big")
    return head + hrnp_checksum(head + inner).to_bytes(2, "big") + inner


def hstrp_packet(type_byte: int, sn: int, opts: bytes = b"", payload: bytes = b"", version=0) -> bytes:
    return b"2B" + bytes([version, type_byte]) + sn.to_bytes(2, "big") + opts + payload


def tlv(options) -> bytes:
    out = b""
    for i, (c, d) in enumerate(options):
        out += bytes([c | (0x80 if i < len(options) - 1 else 0), len(d)]) + d
    return out


SERVICE_ENUM = "HyteraServiceType"
SVC = {"RRS": ("RRS", False), "LP": ("LP", False), "TMP": ("TMP", False), "RCP": ("RCP", True)}  # member of HyteraServiceType, little endian
OPCODE_ENUM = {"RRS": "RRSTypes", "LP": "LocationProtocolSpecificService", "TMP": "TMPService", "RCP": "RCPOpcode"}


class E:
    """an enum-typed field inside a payload: class, width in octets, byte order, which documented member the base frame carries"""

    def __init__(self, cls, width=1, order="big", pick=0, label=None):
        self.cls, self.width, self.order, self.pick, self.label = cls, width, order, pick, label or cls


RAW = "<raw>"


class R(E):
    """a raw integer field (no enum behind it: every value of its width is documented) — where difference-directed values go as well"""

    def __init__(self, base: bytes, order="big", label="raw"):
        E.__init__(self, RAW, len(base), order, 0, label)
        self.base = base


class Site:
    """a place of a frame where an enum (or a raw opcode) is parsed: octets [offset, offset + width) of the HDAP frame"""

    def __init__(self, kind, label, cls, offset, width, order, opcode=False, bits=8):
        self.kind, self.label, self.cls, self.offset, self.width, self.order, self.opcode, self.bits = kind, label, cls, offset, width, order, opcode, bits

    @property
    def space(self) -> int:
        return 1 << (self.bits if self.width == 1 else 16)

    def put(self, frame: bytes, v: int) -> bytes:
        """the frame with value v in this field (other bits of a shared octet kept), checksum refreshed"""
        f = bytearray(frame)
        if self.width == 1:
            mask = (1 << self.bits) - 1
            f[self.offset] = (f[self.offset] & ~mask & 0xFF) | (v & mask)
        else:
            f[self.offset : self.offset + 2] = v.to_bytes(2, self.order)
        return refresh_checksum(bytes(f))

    def name(self) -> str:
        return f"{self.kind.name}@{self.offset}:{self.label}"


IP_A, IP_B = bytes([10, 0, 0, 100]), bytes([10, 0x23, 0x38, 0x3B])
GPS40 = b"A" + b"123456" + b"010224" + b"N" + b"4718.8051" + b"E" + b"01854.4387" + b"5.5" + b"123"
assert len(GPS40) == 40
ID_A, ID_B = (2301).to_bytes(4, "little"), (2300154).to_bytes(4, "little")
RID = (0x01020304).to_bytes(4, "big")


class Kind:
    """one implemented message kind: name "SVC.OpcodeMember", payload segments (octets or E placeholders)"""

    def __init__(self, svc, op_name, segments, flags=0, variant=""):
        self.svc, self.op_name, self.segments, self.flags, self.variant = svc, op_name, segments, flags, variant
        self.name = f"{svc}.{op_name}{('/' + variant) if variant else ''}"
        self.little = SVC[svc][1]
        self.op_enum = OPCODE_ENUM[svc]

    def opcode_octets(self, v: int) -> bytes:
        if self.svc == "RRS":
            return bytes([0x00, v & 0xFF])
        if self.svc == "TMP":
            return bytes([self.flags, v & 0xFF])
        return v.to_bytes(2, "little" if self.little else "big")

    def sites(self):
        """every enum-typed field of this kind, the opcode field and the service field first"""
        out = [Site(self, "service", SERVICE_ENUM, 0, 1, "big", bits=7)]
        if self.svc in ("RRS", "TMP"):
            out.append(Site(self, "opcode", self.op_enum, 2, 1, "big", opcode=True))
        else:
            out.append(Site(self, "opcode", self.op_enum, 1, 2, "little" if self.little else "big", opcode=True))
        off = 5
        for s in self.segments:
            if isinstance(s, E):
                out.append(Site(self, s.label, s.cls, off, s.width, s.order))
                off += s.width
            else:
                off += len(s)
        return out

    def frame(self, cat: "Tables", opcode=None, reliable=False):
        """the documented frame of this kind (catalogue values in every enum-typed field); None when the catalogue lacks one"""
        svc_v = cat.value_of(SERVICE_ENUM, SVC[self.svc][0])
        op_v = opcode if opcode is not None else cat.value_of(self.op_enum, self.op_name)
        if svc_v is None or op_v is None:
            return None
        payload = b""
        for s in self.segments:
            if isinstance(s, R):
                payload += s.base
            elif isinstance(s, E):
                ms = cat.members(s.cls)
                if not ms:
                    return None
                payload += ms[s.pick % len(ms)][1].to_bytes(s.width, s.order)
            else:
                payload += s
        return hdap_frame(svc_v | (0x80 if reliable else 0), self.opcode_octets(op_v), payload, self.little)


def _tmp(op, body, opt=None):
    """TMP payload: [option length] request id, addresses / body, [option data]"""
    rid = [RID[:2], R(RID[2:], "big", "request-id-low")] if op == "SendPrivateMessage" else [RID]
    segs = ([len(opt).to_bytes(2, "big")] if opt is not None else []) + rid + body + ([opt] if opt is not None else [])
    return Kind("TMP", op, segs, flags=0x40 if opt is not None else 0x00, variant="option" if opt is not None else "")


def _kinds():
    L2 = "little"
    res = lambda: E("RCPResult")  # noqa
    ct = lambda w=1: E("RCPCallType", w, L2)  # noqa
    ks = [
        Kind("RRS", "RadioRegistrationRequest", [IP_A]),
        Kind("RRS", "RadioGoingOffline", [IP_A]),
        Kind("RRS", "RegistrationStatusCheckRequest", [IP_A]),
        Kind("RRS", "RadioRegistrationAnswer", [IP_A, E("RRSResult"), (300).to_bytes(4, "big")]),
        Kind("RRS", "RegistrationStatusCheckAnswer", [IP_A, E("RRSRadioState")]),
        Kind("LP", "StandardRequest", [RID[:2], R(RID[2:], "big", "request-id-low"), IP_A]),
        Kind("LP", "StandardReport", [RID, IP_B, E("LocationProtocolResultCodes", 2, "big"), GPS40]),
    ]
    text = "Hi é".encode("utf-16-le")
    for opt in (None, b"\x01\x02"):
        ks += [
            _tmp("SendPrivateMessage", [IP_A, IP_B, text], opt),
            _tmp("SendGroupMessage", [IP_A, IP_B, text], opt),
            _tmp("SendPrivateMessageAck", [IP_A, IP_B, E("TMPResultCodes")], opt),
            _tmp("SendGroupMessageAck", [IP_A, E("TMPResultCodes")], opt),
            _tmp("PrivateShortData", [IP_A, IP_B, b"\x05\x06\x07"], opt),
            _tmp("PrivateShortDataAck", [IP_A, IP_B, E("TMPResultCodes")], opt),
            _tmp("GroupShortData", [IP_A, IP_B, b"\x05\x06\x07"], opt),
            _tmp("GroupShortDataAck", [IP_A, E("TMPResultCodes")], opt),
        ]
    ks += [
        Kind("RCP", "CallRequest", [ct(), R(ID_A[:2], L2, "target-id-low"), ID_A[2:]]),
        Kind("RCP", "CallReply", [res()]),
        Kind("RCP", "RepeaterBroadcastTransmitStatus", [E("RepeaterMode", 2, L2), E("RepeaterStatus", 2, L2), E("RepeaterServiceType", 2, L2), ct(2), ID_A, R(ID_B[:2], L2, "sender-id-low"), ID_B[2:]]),
        Kind("RCP", "BroadcastMessageConfigurationRequest", [R(b"\x07", label="broadcast-type"), b"\x00\x00\x00\x00\x00\x00\x00"]),
        Kind("RCP", "BroadcastMessageConfigurationReply", [res()]),
        Kind("RCP", "RadioIDAndRadioIPQueryRequest", [E("RadioIpIdTarget")]),
        Kind("RCP", "RadioIDAndRadioIPQueryReply", [res(), E("RadioIpIdTarget"), IP_B]),
        Kind("RCP", "BroadcastStatusConfigurationRequest", [b"\x02\x00\x01\x01\x01"]),
        Kind("RCP", "BroadcastStatusConfigurationReply", [res()]),
        Kind("RCP", "SendTalkerAliasRequest", [ct(), ID_A, ID_B, E("TalkerAliasDataFormat", pick=1), b"\x04", b"abcd"]),  # alias octets every documented format decodes (repr of the PDU is part of handling a reject)
        Kind("RCP", "SendTalkerAliasReply", [res(), ct(), ID_A, ID_B]),
        Kind("RCP", "ZoneAndChannelOperationRequest", [b"\x01\x02\x00\x03\x00"]),
        Kind("RCP", "ZoneAndChannelOperationReply", [b"\x00\x00\x00\x00\x01\x00\x00\x00\x02\x00\x03\x00"]),
        Kind("RCP", "StatusChangeNotificationRequest", [b"\x00"], variant="empty"),
        Kind("RCP", "StatusChangeNotificationRequest", [b"\x01", E("StatusChangeNotificationTargets", pick=4), E("StatusChangeNotificationSetting", pick=1)]),
        Kind("RCP", "StatusChangeNotificationReply", [res()]),
        Kind("RCP", "RadioStatusReport", [E("StatusChangeNotificationTargets", pick=11), R((0x0400).to_bytes(2, L2), L2, "status-value")]),
    ]
    return ks


KINDS = _kinds()
IMPLEMENTED = {(k.svc, k.op_name) for k in KINDS}
PASS_PAYLOADS = [b"", b"\x01", b"\x01\x00\x00\x00", bytes(range(12))]
# enums the sweeps place values of, with the wire width in bits of the widest field they are parsed from
ENUM_WIDTH = {
    SERVICE_ENUM: 7, "RRSTypes": 8, "RRSResult": 8, "RRSRadioState": 8, "LocationProtocolSpecificService": 16, "LocationProtocolResultCodes": 16,
    "TMPService": 8, "TMPResultCodes": 8, "RCPOpcode": 16, "RCPCallType": 16, "RCPResult": 8, "RadioIpIdTarget": 8, "RepeaterMode": 16, "RepeaterStatus": 16,
    "RepeaterServiceType": 16, "StatusChangeNotificationTargets": 8, "StatusChangeNotificationSetting": 8, "TalkerAliasDataFormat": 8,
    "HRNPOpcodes": 8, "HSTRPOptionType": 7,
}
# natural data length of the documented HSTRP options (by member name; others: one octet)
OPTION_LEN = {"RTP": 0, "DeviceID": 4}


def pass_frame(cat: "Tables", v: int, payload: bytes, reliable=False):
    """RCP frame with raw opcode v (little endian on the wire) and an opaque payload"""
    svc_v = cat.value_of(SERVICE_ENUM, "RCP")
    if svc_v is None:
        return None
    return hdap_frame(svc_v | (0x80 if reliable else 0), v.to_bytes(2, "little"), payload, True)


# ------------------------------------------------------------------------------------------------
# shares of the 16-bit space


def nibble_class(v: int) -> int:
    """0..15: XOR of the four nibbles — every class meets every aligned block of 16 values exactly once"""
    return (v ^ (v >> 4) ^ (v >> 8) ^ (v >> 12)) & 15


def share16(seed: int, parts: int = 1):
    """the seed-rotated `parts`/16 of 0..65535 (parts >= 16: everything)"""
    if parts >= 16:
        return range(65536)
    want = {(seed + i) % 16 for i in range(max(1, parts))}
    return [v for v in range(65536) if nibble_class(v) in want]


def neighbourhood(values):
    """values around catalogue entries: the entry, ±1, request/reply bit flipped, octets swapped, each octet ±1"""
    out = set()
    for m in values:
        for x in (m, m - 1, m + 1, m ^ 0x8000, m ^ 0x1000, m ^ 0x0100, ((m & 0xFF) << 8) | (m >> 8), m + 0x100, m - 0x100, m & 0xFF, m >> 8):
            if 0 <= x <= 0xFFFF:
                out.add(x)
    return out
