"""C15 — LRRP/MBXML documents re-serialise to the bytes they were parsed from (DESIGN §5 C15).

Generators write canonical buffers with an encoder of their own (plain base-128, sign in bit 6, one-septet
fractions) from the *reference* token tables frozen in c15_ref.json (what the LRRP tokens are), so a change
of a table or of a codec in /repo shows up as a failing input.  Oracle on the real code:
as_bytes(from_bytes(x)[i]) concatenated == x, every document's own segment, token ids / values / explicit
attribute values / constant tables as generated; documents assembled through get_token parse back to the
same ids and values; every input terminates (per-case alarm) and a successful parse consumed exactly the
announced lengths.  Correspondence: from_bytes + as_bytes and get_token + as_bytes against the Lean model.
"""
import json
import logging
import math
import os
import re
import signal

from common import impl_error

PROP = "C15"
MODULES = ["C15"]
GEN = ["Mbxml", "Lrrp"]

HERE = os.path.dirname(os.path.abspath(__file__))
REF = json.load(open(os.path.join(HERE, "c15_ref.json")))
IMPLEMENTED = {"OPAQUE_I", "INFO_TIME", "UINT8", "NO_VALUE", "UFLOATVAR", "SFLOATVAR", "UINTVAR", "CIRCLE_2D", "POINT_2D", "POINT_3D"}
LRRP_DOCS = sorted(int(k) for k, v in REF["docs"].items() if v["impl"] == "lrrp")
DEFAULT_CDT = bytes.fromhex(REF["constants_built"])
ATTR_BY_ID = {a[0]: a for a in REF["attributes"]}
U_MAX = 2**32 - 1
S_MAX = 2**31 - 1


class Hang(BaseException):
    pass


class Abort(Exception):
    """enough non-terminating inputs were found: stop generating (each one costs a full alarm)"""


HANGS = [0]


def note_hang(ctx):
    HANGS[0] += 1
    if HANGS[0] >= 3:
        raise Abort()


def _alarm(signum, frame):
    raise Hang()


def timed(fn, *a, seconds=2.0):
    """run fn under an alarm; returns value | 'ERR <Class>' | 'HANG'"""
    old = signal.signal(signal.SIGALRM, _alarm)
    signal.setitimer(signal.ITIMER_REAL, seconds)
    try:
        return fn(*a)
    except Hang:
        return "HANG"
    except BaseException as e:  # noqa
        return impl_error(e)
    finally:
        signal.setitimer(signal.ITIMER_REAL, 0)
        signal.signal(signal.SIGALRM, old)


def mods():
    from okdmr.dmrlib.motorola import mbxml
    from okdmr.dmrlib.motorola.lrrp import LRRP

    return mbxml, LRRP


def hx(b: bytes) -> str:
    return b.hex() if len(b) else "-"


# ------------------------------------------------------------- canonical text of what the code returns
def dy_str(x: float) -> str:
    n, d = abs(x).as_integer_ratio()
    return f"{'-' if math.copysign(1.0, x) < 0 else ''}{n}/{d.bit_length() - 1}"


def val_str(part) -> str:
    v = part.value
    t = part.token_type.name
    if v is None:
        return "N"
    if isinstance(v, (bytes, bytearray)):
        return "B" + bytes(v).hex()
    if isinstance(v, bool):
        return f"?{v!r}"
    if isinstance(v, int):
        return f"I{v}"
    if isinstance(v, float):
        return "F" + dy_str(v)
    if isinstance(v, tuple):
        if t == "CIRCLE_2D" and len(v) == 3:
            return f"C{v[0].hex()}/{v[1].hex()}/{dy_str(v[2])}"
        if t == "POINT_3D" and len(v) == 3:
            return f"Q{v[0].hex()}/{v[1].hex()}/{dy_str(v[2])}"
        if len(v) == 2:
            return f"P{v[0].hex()}/{v[1].hex()}"
    return f"?{type(v).__name__}"


def attr_str(a) -> str:
    if isinstance(a, int):
        return f"i{a}"
    return f"a{a.name}={a.value}"


def part_str(p) -> str:
    ln = "n" if p.length is None else str(p.length)
    return f"{p.token_id}:{p.token_type.name}:{ln}:{'+'.join(attr_str(a) for a in p.attributes)}:{val_str(p)}"


def doc_str(mb, d) -> str:
    b = timed(mb.MBXML.as_bytes, d)
    return (
        f"D{d.id.value[0]};cdt={hx(d.constants_table)};def={1 if d.is_constant_table_default else 0}"
        f";inh={1 if d.is_constant_table_inherited else 0};parts={','.join(part_str(p) for p in d.parts)}"
        f";bytes={b if isinstance(b, str) else hx(b)}"
    )


def parse_str(mb, x: bytes):
    """(canonical line, documents | None)"""
    ds = timed(mb.MBXML.from_bytes, x)
    if isinstance(ds, str):
        return ds, None
    return " | ".join(doc_str(mb, d) for d in ds), ds


# ------------------------------------------------------------- the generator's own canonical encoder
def enc_u(v: int) -> bytes:
    out = [v & 0x7F]
    v >>= 7
    while v:
        out.append((v & 0x7F) | 0x80)
        v >>= 7
    return bytes(reversed(out))


def enc_s(mag: int, neg: bool) -> bytes:
    s = [mag & 0x7F]
    mag >>= 7
    while mag:
        s.append(mag & 0x7F)
        mag >>= 7
    s.reverse()
    if s[0] >= 64:
        s.insert(0, 0)
    if neg:
        s[0] |= 0x40
    return bytes([x | 0x80 for x in s[:-1]] + [s[-1]])


def walk_lengths(x: bytes):
    """independent walk over the announced lengths: number of documents if the walk ends exactly at len(x)"""
    i, n = 0, 0
    while i < len(x):
        for _ in range(2):  # id, length
            v = 0
            while True:
                if i >= len(x):
                    return None
                b = x[i]
                i += 1
                v = v * 128 + (b & 0x7F)
                if not b & 0x80:
                    break
        i += v
        n += 1
    return n if i == len(x) else None


UINT_EDGE = [0, 1, 5, 60, 127, 128, 129, 255, 256, 16383, 16384, 16385, 2**21 - 1, 2**21, 2**28 - 1, 2**28, U_MAX - 1, U_MAX]
SINT_EDGE = [0, 1, 63, 64, 65, 127, 128, 440, 8191, 8192, 8193, 2**20 - 1, 2**20, 2**27, S_MAX - 1, S_MAX]
LEN_EDGE = [0, 1, 2, 4, 4, 4, 16, 127, 128, 129]


def rbytes(ctx, n):
    return bytes(ctx.rng.randrange(256) for _ in range(n))


def pick(ctx, seq):
    return seq[ctx.rng.randrange(len(seq))]


def gen_uint(ctx):
    if ctx.rng.randrange(3):
        return pick(ctx, UINT_EDGE)
    bl = ctx.rng.randrange(1, 33)
    return ctx.rng.randrange(2 ** (bl - 1), 2**bl)


def gen_ufloat(ctx):
    i = gen_uint(ctx)
    f = pick(ctx, (0, 1, 6, 10, 63, 64, 99, 127)) if ctx.rng.randrange(2) else ctx.rng.randrange(128)
    return i, f


def gen_sfloat(ctx):
    i = pick(ctx, SINT_EDGE) if ctx.rng.randrange(3) else ctx.rng.randrange(0, S_MAX + 1)
    f = pick(ctx, (0, 1, 10, 21, 64, 127)) if ctx.rng.randrange(2) else ctx.rng.randrange(128)
    neg = bool(ctx.rng.randrange(2)) and (i, f) != (0, 0)
    if ctx.rng.randrange(6) == 0:  # altitude / speed with zero integer part and negative fraction
        i, neg, f = 0, True, max(f, 1)
    return neg, i, f


def fl(neg, i, f):
    return (-1.0 if neg else 1.0) * (i + f / 128)


def gen_token(ctx, tok):
    """canonical octets of one token + what the parser must report: (octets, (id, value text, [attr text]))"""
    tid, _name, ty, length, attrs = tok
    head = bytes([tid])
    ats = []
    if ty == "OPAQUE_I":
        if length:
            v = rbytes(ctx, length)
            return head + v, (tid, "B" + v.hex(), ats)
        if length == 0:
            return head, (tid, "B", ats)
        body = b""
        for a in attrs:
            rc = gen_uint(ctx)
            body += enc_u(rc)
            ats.append(f"a{ATTR_BY_ID[a][1]}={rc}")
        n = pick(ctx, LEN_EDGE) if ctx.rng.randrange(40) else pick(ctx, (300, 16383, 16384))
        v = rbytes(ctx, n)
        ctx.count(f"opaque-len:{'0' if n == 0 else '1..127' if n < 128 else '>=128'}")
        return head + body + enc_u(n) + v, (tid, "B" + v.hex(), ats)
    if ty == "INFO_TIME":
        v = rbytes(ctx, 5)
        return head + v, (tid, "B" + v.hex(), ats)
    if ty == "UINT8":
        n = pick(ctx, (0, 1, 127, 128, 162, 255)) if ctx.rng.randrange(2) else ctx.rng.randrange(256)
        return head + bytes([n]), (tid, f"I{n}", ats)
    if ty == "NO_VALUE":
        return head, (tid, "N", ats)
    if ty == "UINTVAR":
        n = gen_uint(ctx)
        ctx.count(f"uintvar-septets:{len(enc_u(n))}")
        return head + enc_u(n), (tid, f"I{n}", ats)
    if ty == "UFLOATVAR":
        i, f = gen_ufloat(ctx)
        return head + enc_u(i) + bytes([f]), (tid, "F" + dy_str(fl(False, i, f)), ats)
    if ty == "SFLOATVAR":
        neg, i, f = gen_sfloat(ctx)
        if neg and i == 0:
            ctx.count("negative-fraction-zero-integer")
        return head + enc_s(i, neg) + bytes([f]), (tid, "F" + dy_str(fl(neg, i, f)), ats)
    if ty == "CIRCLE_2D":
        la, lo = rbytes(ctx, 4), rbytes(ctx, 4)
        i, f = gen_ufloat(ctx)
        return head + la + lo + enc_u(i) + bytes([f]), (tid, f"C{la.hex()}/{lo.hex()}/{dy_str(fl(False, i, f))}", ats)
    if ty == "POINT_2D":
        la, lo = rbytes(ctx, 4), rbytes(ctx, 4)
        return head + la + lo, (tid, f"P{la.hex()}/{lo.hex()}", ats)
    if ty == "POINT_3D":
        la, lo = rbytes(ctx, 4), rbytes(ctx, 4)
        neg, i, f = gen_sfloat(ctx)
        if neg and i == 0:
            ctx.count("negative-fraction-zero-integer")
        return head + la + lo + enc_s(i, neg) + bytes([f]), (tid, f"Q{la.hex()}/{lo.hex()}/{dy_str(fl(neg, i, f))}", ats)
    raise AssertionError(ty)


def gen_buffer(ctx, ndocs=None, ntok=None):
    """(octets, [expected document]) with expected = dict(id, cdt, segment, parts)"""
    ndocs = ndocs or pick(ctx, (1, 1, 2, 3))
    buf = b""
    exp = []
    prev_cdt = None
    for _ in range(ndocs):
        did = pick(ctx, LRRP_DOCS)
        d = REF["docs"][str(did)]
        toks = [t for t in REF["tables"][d["table"]] if t[2] in IMPLEMENTED]
        if d["ncdt"]:
            cdt_oct, cdt, mode = b"", DEFAULT_CDT, "default"
        elif ctx.rng.randrange(2) == 0:
            cdt_oct, mode = b"\x01", "inherited"
            cdt = prev_cdt if prev_cdt is not None else b""
        else:
            n = pick(ctx, (0, 2, 3, 5, 5, 9, 127, 128, 200))
            cdt = rbytes(ctx, n)
            cdt_oct, mode = enc_u(n) + cdt, "inline"
        ctx.count(f"cdt:{mode}")
        body = cdt_oct
        parts = []
        k = ntok if ntok is not None else ctx.rng.randrange(0, 13)
        for _ in range(k):
            o, e = gen_token(ctx, pick(ctx, toks))
            body += o
            parts.append(e)
            ctx.count(f"token-type:{[t for t in toks if t[0] == e[0]][0][2]}")
        seg = enc_u(did) + enc_u(len(body)) + body
        buf += seg
        exp.append({"id": did, "cdt": cdt, "segment": seg, "parts": parts, "mode": mode})
        prev_cdt = cdt
    ctx.count(f"documents-per-buffer:{ndocs}")
    return buf, exp


def check_canonical(ctx, mb, x: bytes, exp, origin):
    """the property on one canonical buffer; returns the correspondence pair"""
    line, ds = parse_str(mb, x)
    inp = {"op": "parse", "buffer": x.hex(), "origin": origin}
    if ds is None:
        ctx.fail("parse-raises" if line != "HANG" else "parse-hangs", inp, f"from_bytes raised {line} on a canonical buffer", expected="documents", actual=line)
        if line == "HANG":
            note_hang(ctx)
        return (f"lrrp.parse {hx(x)}", line)
    if exp is not None and len(ds) != len(exp):
        ctx.fail("document-count", inp, f"{len(ds)} documents parsed, {len(exp)} written", expected=len(exp), actual=len(ds))
        return (f"lrrp.parse {hx(x)}", line)
    segs = []
    for d in ds:
        b = timed(mb.MBXML.as_bytes, d)
        segs.append(b)
    if any(isinstance(b, str) for b in segs):
        ctx.fail("serialise-raises", inp, f"as_bytes raised {[b for b in segs if isinstance(b, str)][0]} on a parsed document", actual=str(segs))
    elif b"".join(segs) != x:
        ctx.fail("reserialise", inp, "as_bytes of the parsed documents differs from the buffer they were parsed from",
                 expected=x.hex(), actual=b"".join(segs).hex())
    if walk_lengths(x) != len(ds):
        ctx.fail("consumed", inp, "the parser did not consume exactly the announced document lengths", expected=walk_lengths(x), actual=len(ds))
    if exp is not None:
        for i, (d, e) in enumerate(zip(ds, exp)):
            got = [(p.token_id, val_str(p), [attr_str(a) for a in p.attributes if not isinstance(a, int)]) for p in d.parts]
            want = [(t, v, a) for (t, v, a) in e["parts"]]
            if d.id.value[0] != e["id"] or got != want:
                ctx.fail("token-values", dict(inp, document=i), "token ids / values of the parsed document differ from what was written",
                         expected=str(want), actual=str(got))
            if bytes(d.constants_table) != e["cdt"]:
                ctx.fail("constant-table", dict(inp, document=i), f"constant table of the parsed document ({e['mode']}) is wrong",
                         expected=e["cdt"].hex(), actual=bytes(d.constants_table).hex())
            if not isinstance(segs[i], str) and segs[i] != e["segment"]:
                ctx.fail("reserialise", dict(inp, document=i), "as_bytes of one parsed document differs from its own octets",
                         expected=e["segment"].hex(), actual=segs[i].hex())
    return (f"lrrp.parse {hx(x)}", line)


# ------------------------------------------------------------- corpus
def captured_messages():
    """every hex string literal of the LRRP / MBXML / ARRP tests that is a whole MBXML buffer"""
    import okdmr.tests.dmrlib.motorola as pkg

    out = []
    root = os.path.dirname(pkg.__file__)
    for fn in ("test_lrrp.py", "test_mbxml.py", "test_arrp.py"):
        src = open(os.path.join(root, fn), encoding="utf-8").read()
        for m in re.finditer(r"\"([0-9A-Fa-f]{8,})\"", src):
            h = m.group(1)
            if len(h) % 2 == 0 and h.lower() not in out:
                out.append(h.lower())
    return out


def _doc(did, body):
    return enc_u(did) + enc_u(len(body)) + body


HISTORIC = [
    "05022200",  # request-id of 0 octets (length octet was dropped: fixed cc6e0a2)
    "0703390500",  # result with code 5 and empty data
    "040e05054150434f22042468ace0536204070122042468ace0",  # inherited constant table (fixed 843b280)
    "04080122042468ace062",  # inherited without a previous document
    "050822042468ace05162050822042468ace05162",  # two documents per buffer (fixed ab84c82)
    _doc(5, bytes([0x31]) + enc_u(128)).hex(),  # interval = 128: multiple of 128 (C14 fix 4ffeeb5)
    _doc(5, bytes([0x31]) + enc_u(16384) + bytes([0x4A]) + enc_u(2**28)).hex(),
    _doc(13, bytes([0x69]) + bytes(8) + enc_s(0, True) + bytes([10])).hex(),  # altitude -10/128: negative fraction, zero integer part
    _doc(13, bytes([0x69]) + bytes(8) + enc_s(64, False) + bytes([0])).hex(),  # altitude +64: sign septet (C14 fix 636b721)
    _doc(13, bytes([0x70]) + enc_s(8192, True) + bytes([127])).hex(),
    _doc(7, bytes([0x39]) + enc_u(128) + enc_u(128) + bytes(128)).hex(),  # result code 128, 128 octets of data
    "0403005362", "0500", "0700",
]


# ------------------------------------------------------------- token lookup API
def api_value(ctx, ty, length):
    """(python value, spec text) of the right shape for the token type, exactly representable"""
    if ty == "OPAQUE_I":
        n = length if length else (0 if length == 0 else pick(ctx, LEN_EDGE))
        v = rbytes(ctx, n)
        return v, "B" + v.hex()
    if ty == "INFO_TIME":
        v = rbytes(ctx, 5)
        return v, "B" + v.hex()
    if ty == "UINT8":
        n = pick(ctx, (0, 1, 127, 128, 255))
        return n, f"I{n}"
    if ty == "NO_VALUE":
        return None, "N"
    if ty == "UINTVAR":
        n = gen_uint(ctx)
        return n, f"I{n}"

    def dy(x):
        n, d = abs(x).as_integer_ratio()
        return f"{1 if math.copysign(1.0, x) < 0 else 0}:{n}:{d.bit_length() - 1}"

    if ty == "UFLOATVAR":
        x = fl(False, *gen_ufloat(ctx))
        return x, "F" + dy(x)
    if ty == "SFLOATVAR":
        x = fl(*gen_sfloat(ctx))
        return x, "F" + dy(x)
    la, lo = rbytes(ctx, 4), rbytes(ctx, 4)
    if ty == "CIRCLE_2D":
        x = fl(False, *gen_ufloat(ctx))
        return (la, lo, x), f"C{la.hex()}/{lo.hex()}/{dy(x)}"
    if ty == "POINT_2D":
        return (la, lo), f"P{la.hex()}/{lo.hex()}"
    if ty == "POINT_3D":
        x = fl(*gen_sfloat(ctx))
        return (la, lo, x), f"Q{la.hex()}/{lo.hex()}/{dy(x)}"
    raise AssertionError(ty)


def api_attrs(ctx, tok, mode):
    """attribute dict for get_token: mode 'good' supplies every wire attribute (and nothing a length-0 token
    cannot carry); 'any' also produces the two situations recorded as known findings"""
    tid, _name, ty, length, attrs = tok
    d = {}
    for a in attrs:
        adef = ATTR_BY_ID[a]
        preset = adef[3]
        wire = ty == "OPAQUE_I" and length is None
        if wire:
            if mode == "any" and ctx.rng.randrange(5) == 0:
                continue  # omitted wire attribute (known finding api-wire-attribute-omitted)
            key = adef[1] if ctx.rng.randrange(2) else a
            d[key] = gen_uint(ctx)
        elif preset is not None:
            if ctx.rng.randrange(2):
                d[a if ctx.rng.randrange(2) else adef[1]] = preset
        elif length == 0:
            if mode == "any" and ctx.rng.randrange(3) == 0:
                d[adef[1] if ctx.rng.randrange(2) else a] = gen_uint(ctx)  # known finding api-length0-explicit-attribute
    return d


def attrs_spec(d):
    if not d:
        return "-"
    return "+".join(f"{('#' + str(k)) if isinstance(k, int) else k}={'N' if v is None else v}" for k, v in d.items())


def diagnose(parts):
    """the two recorded shortcomings of the lookup API, read off the assembled parts"""
    len0, omitted = [], []
    for p in parts:
        if p.token_type.name == "OPAQUE_I" and p.length == 0 and any(not isinstance(a, int) for a in p.attributes):
            len0.append(p.token_id)
        if p.token_type.name == "OPAQUE_I" and p.length is None and any(isinstance(a, int) for a in p.attributes):
            omitted.append(p.token_id)
    return len0, omitted


def api_case(ctx, mb, LRRP, mode):
    is_req = bool(ctx.rng.randrange(2))
    kinds = {True: "t0", False: "t1"}
    docs = [d for d in LRRP_DOCS if REF["docs"][str(d)]["table"] == kinds[is_req]]
    did = pick(ctx, docs)
    ncdt = REF["docs"][str(did)]["ncdt"]
    table = {t[0]: t for t in REF["tables"][kinds[is_req]] if t[2] in IMPLEMENTED}
    known = [t for s in REF["known"]["request" if is_req else "answer"] for t in s if t[0] in table]
    specs, calls = [], []
    for _ in range(ctx.rng.randrange(0, 9)):
        tid, name = pick(ctx, known)
        tok = table[tid]
        # a name is only used when the lookup is bound to find this very definition first
        by_name = ctx.rng.randrange(3) == 0 and [t for t in known if t[1] == name][0][0] == tid
        value, vtxt = api_value(ctx, tok[2], tok[3])
        ad = api_attrs(ctx, tok, mode)
        calls.append((name if by_name else tid, value, ad, tid))
        specs.append(f"{name if by_name else '#' + str(tid)}~{vtxt}~{attrs_spec(ad)}")
    cdt = None if ncdt else rbytes(ctx, pick(ctx, (0, 2, 5, 128)))
    line = f"lrrp.api {did} {1 if is_req else 0} {'-' if cdt is None else 'T' + cdt.hex()} {';'.join(specs) if specs else '-'}"

    def build():
        doc = LRRP(document_id=[m for m in mb.MBXMLDocumentIdentifier if m.value[0] == did][0])
        for key, value, ad, _ in calls:
            doc.parts.append(doc.get_token(name=key, value=value, attributes=dict(ad), is_request=is_req))
        if cdt is not None:
            doc.constants_table = cdt
            doc.is_constant_table_default = False
        return doc

    doc = timed(build)
    inp = {"op": "api", "line": line}
    if isinstance(doc, str):
        return line, doc, None
    out = doc_str(mb, doc)
    b = timed(mb.MBXML.as_bytes, doc)
    len0, omitted = diagnose(doc.parts)
    inp["length0_token_with_explicit_attribute"] = len0
    inp["wire_attribute_omitted"] = omitted
    if isinstance(b, str):
        ctx.fail("api-serialise-raises", inp, f"as_bytes raised {b} on a document assembled through get_token", actual=b)
        return line, out, doc
    back = timed(mb.MBXML.from_bytes, b)
    want = [(p.token_id, val_str(p), sorted(attr_str(a) for a in p.attributes if not isinstance(a, int))) for p in doc.parts]
    if isinstance(back, str) or len(back) != 1:
        got = back if isinstance(back, str) else f"{len(back)} documents"
    else:
        got = [(p.token_id, val_str(p), sorted(attr_str(a) for a in p.attributes if not isinstance(a, int))) for p in back[0].parts]
    if got != want:
        ctx.fail("api-roundtrip", dict(inp, octets=b.hex()), "a document assembled through get_token does not parse back into the same token ids and values",
                 expected=str(want), actual=str(got))
    ctx.count("api:known-finding-shape" if (len0 or omitted) else "api:well-formed")
    if len0 or omitted:
        # the recorded shortcomings excuse only the tokens they are about: the rest of the document must still round-trip
        rest = [p for p in doc.parts if p.token_id not in len0 and p.token_id not in omitted]
        doc.parts = rest
        b2 = timed(mb.MBXML.as_bytes, doc)
        back2 = b2 if isinstance(b2, str) else timed(mb.MBXML.from_bytes, b2)
        want2 = [(p.token_id, val_str(p), sorted(attr_str(a) for a in p.attributes if not isinstance(a, int))) for p in rest]
        got2 = back2 if isinstance(back2, str) else (f"{len(back2)} documents" if len(back2) != 1 else [
            (p.token_id, val_str(p), sorted(attr_str(a) for a in p.attributes if not isinstance(a, int))) for p in back2[0].parts])
        if got2 != want2:
            ctx.fail("api-roundtrip", {"op": "api", "line": line, "without_tokens": len0 + omitted},
                     "the rest of a document assembled through get_token (known-finding tokens removed) does not parse back",
                     expected=str(want2), actual=str(got2))
    return line, out, doc


def m_len0(f):
    return f["kind"] == "api-roundtrip" and bool(f["input"].get("length0_token_with_explicit_attribute")) \
        and not f["input"].get("wire_attribute_omitted")


def m_omitted(f):
    return f["kind"] == "api-roundtrip" and bool(f["input"].get("wire_attribute_omitted"))


MATCHERS = {"api_length0_explicit_attribute": m_len0, "api_wire_attribute_omitted": m_omitted}


# ------------------------------------------------------------- malformed stream
def mutate(ctx, x: bytes) -> bytes:
    b = bytearray(x)
    for _ in range(ctx.rng.randrange(1, 4)):
        r = ctx.rng.randrange(6)
        if r == 0 and b:
            b[ctx.rng.randrange(len(b))] = ctx.rng.randrange(256)
        elif r == 1 and b:
            b[ctx.rng.randrange(len(b))] ^= 1 << ctx.rng.randrange(8)
        elif r == 2:
            b.insert(ctx.rng.randrange(len(b) + 1), ctx.rng.randrange(256))
        elif r == 3 and b:
            del b[ctx.rng.randrange(len(b))]
        elif r == 4 and len(b) > 1:
            b[1] = ctx.rng.randrange(256)  # announced length
        elif b:
            b[ctx.rng.randrange(len(b))] = pick(ctx, (0x00, 0x01, 0x7F, 0x80, 0xFF, 0x22, 0x39, 0x37))
    return bytes(b)


def check_malformed(ctx, mb, x: bytes, origin):
    line, ds = parse_str(mb, x)
    ctx.case(("mal", x), nontrivial=len(x) > 0)
    ctx.count(f"malformed:{origin}:{'ok' if ds is not None else line}")
    inp = {"op": "parse", "buffer": x.hex(), "origin": origin}
    if line == "HANG" or "HANG" in line:
        ctx.fail("parse-hangs", inp, "from_bytes / as_bytes did not terminate within the per-case alarm", actual=line)
        note_hang(ctx)
    elif ds is not None and walk_lengths(x) != len(ds):
        ctx.fail("consumed", inp, "a successful parse did not consume exactly the announced document lengths",
                 expected=walk_lengths(x), actual=len(ds))
    return (f"lrrp.parse {hx(x)}", line)


def correspond(ctx, component, pairs):
    """like ctx.correspond, but a document the model marks INEXACT (a float that is not a double) is skipped"""
    outs = ctx.drive([l for l, _ in pairs])
    bad = 0
    for (line, impl), model in zip(pairs, outs):
        if model == "INEXACT":
            ctx.count("corr-skipped:inexact-float")
            continue
        if impl != model:
            bad += 1
            if len(ctx.disagreements) < 50:
                ctx.disagreements.append({"component": component, "line": line[:4000], "impl": impl[:4000], "model": model[:4000]})
    ctx.count(f"corr:{component}", len(pairs))
    if bad:
        ctx.count(f"corr-diff:{component}", bad)


def run(ctx):
    HANGS[0] = 0
    try:
        _run(ctx)
    except Abort:
        ctx.notes.append("three inputs did not terminate within the alarm: generation stopped early")


def _run(ctx):
    logging.disable(logging.CRITICAL)
    mb, LRRP = mods()
    mb.MBXML.DEBUG = False
    ctx.rule = (
        "canonical buffers: 1-3 LRRP documents (all 18 LRRP document ids), 0-12 tokens drawn from the document's reference "
        "table (implemented value forms only), values at septet boundaries (request ids of 0/1/127/128/129 octets, result "
        "codes and intervals 0,127,128,16383,16384,2^28,2^32-1, altitudes/speeds with zero integer part and negative "
        "fraction, sign-septet boundaries), constant table default / inline (0,2..200 octets) / inherited; written by "
        "the generator's own encoder.  Corpus first: every buffer of the LRRP/MBXML tests and the historically failing "
        "buffers.  Token API: 0-8 get_token calls by name or id with typed boundary values and attribute dicts.  "
        "Malformed: every truncation of corpus/generated buffers, byte mutations, random octets, each under a 2 s alarm.  "
        "A case is non-trivial unless the buffer is empty; distinct = distinct buffers / API call sequences."
    )
    ctx.trusted_base += [
        "Lean 4.33 kernel",
        "tools/extract_lrrp.py + tools/extract_mbxml.py (tables read from the live classes on this run)",
        "hand-written model of from_bytes / read_document / write_part / as_bytes / get_token / get_attribute (Model/Lrrp.lean, on "
        "top of Model/Mbxml.lean), tied to the code by this run's correspondence",
        "the reference token tables frozen in harness/props/c15_ref.json and Lemmas/LrrpRef.lean define what the LRRP tokens are",
        "floats are exact dyadic rationals in the model; documents holding a float that is not a double are not compared (INEXACT)",
    ]
    ctx.assumptions += [
        "canonical form = shortest uintvar / sintvar, one-septet fraction, negative zero excluded, inline constant table length != 1",
        "token API: the document id's NCDT flag agrees with the constant-table setting of the assembled document",
    ]
    pairs = []
    # ---- corpus
    for h in captured_messages():
        x = bytes.fromhex(h)
        line, ds = parse_str(mb, x)
        if ds is None:
            pairs.append((f"lrrp.parse {hx(x)}", line))  # a string literal that is not a buffer: correspondence only
            ctx.case(("lit", h))
            continue
        ctx.case(("corpus", h), sample={"op": "from_bytes/as_bytes", "buffer": h} if len(ctx.samples) < 2 else None)
        ctx.count("corpus:captured-message")
        pairs.append(check_canonical(ctx, mb, x, None, "captured"))
    for h in HISTORIC:
        x = bytes.fromhex(h)
        ctx.case(("historic", h))
        ctx.count("corpus:historic")
        pairs.append(check_canonical(ctx, mb, x, None, "historic"))
    # several captured messages in one buffer
    caps = [bytes.fromhex(h) for h in captured_messages() if parse_str(mb, bytes.fromhex(h))[1] is not None]
    for _ in range(ctx.budget(40, 1000)):
        x = b"".join(pick(ctx, caps) for _ in range(ctx.rng.randrange(2, 4)))
        ctx.case(("multi", x))
        ctx.count("corpus:concatenated")
        pairs.append(check_canonical(ctx, mb, x, None, "captured-concatenated"))
    # ---- grammar-based canonical buffers
    gen = []
    for n in range(ctx.budget(2000, 100000)):
        x, exp = gen_buffer(ctx)
        gen.append(x)
        ctx.case(("gen", x), sample={"op": "from_bytes/as_bytes", "buffer": x.hex(), "documents": len(exp)} if n < 2 else None)
        pairs.append(check_canonical(ctx, mb, x, exp, "generated"))
    # every token of every reference table at least once, alone in a document
    for did in LRRP_DOCS:
        d = REF["docs"][str(did)]
        for tok in REF["tables"][d["table"]]:
            if tok[2] not in IMPLEMENTED:
                continue
            for _ in range(3):
                o, e = gen_token(ctx, tok)
                cdt_oct = b"" if d["ncdt"] else b"\x00"
                body = cdt_oct + o
                x = enc_u(did) + enc_u(len(body)) + body
                ctx.case(("single", x))
                ctx.count("generated:single-token-documents")
                pairs.append(check_canonical(ctx, mb, x, [{"id": did, "cdt": DEFAULT_CDT if d["ncdt"] else b"", "segment": x, "parts": [e], "mode": "x"}], "single-token"))
    if not ctx.search_only and ctx.driver_ok:
        correspond(ctx, "from_bytes+as_bytes(canonical)", pairs)
    # ---- token lookup API
    apairs = []
    for n in range(ctx.budget(1500, 60000)):
        mode = "good" if n % 4 else "any"
        line, out, doc = api_case(ctx, mb, LRRP, mode)
        ctx.case(("api", line), sample={"op": "get_token/as_bytes/from_bytes", "line": line[:300]} if n < 2 else None)
        apairs.append((line, out))
    for k, v in (("result-code", 5), ("result-code", 0), ("result-code", None), ("#34", 7), ("#35", 0), ("#35", 1), ("ret-info-accuracy", 73),
                 ("ret-info-accuracy", None), ("ret-info-time", 73), ("ret-info-time", 1), ("#85", 73), ("nonexistant", None), ("#99", 1)):
        key = int(k[1:]) if k.startswith("#") else k
        r = timed(LRRP.get_attribute, key, v)
        apairs.append((f"lrrp.attr {k} {'N' if v is None else v}", r if isinstance(r, str) else f"{r[0].token_id} {1 if r[1] else 0}"))
        ctx.case(("attr", k, v))
    for spec, req in (("nonexistant~N~-", 1), ("result~B~result-code=0", 0), ("result~B~#35=0", 0), ("result~B~#35=1", 0), ("#57~B6162~result-code=1+#34=2", 0),
                      ("ret-info~N~ret-info-accuracy=73", 1), ("ret-info~N~ret-info-time=73", 1), ("ret-info~N~ret-info-accuracy=73+ret-info-time=73", 1),
                      ("ret-info~N~ret-info-no-req-id=73", 1), ("ret-info~N~-", 1), ("request-id~B01~nonexistant=1", 1), ("#36~B~-", 1), ("info-time~B0102030405~-", 0),
                      ("info-time~B0102030405~-", 1)):
        k, v, a = spec.split("~")
        key = int(k[1:]) if k.startswith("#") else k
        val = None if v == "N" else bytes.fromhex(v[1:])
        ad = {} if a == "-" else {(int(p.split("=")[0][1:]) if p.startswith("#") else p.split("=")[0]): int(p.split("=")[1]) for p in a.split("+")}
        r = timed(LRRP.get_token, key, val, ad, bool(req))
        apairs.append((f"lrrp.token {req} {spec}", r if isinstance(r, str) else part_str(r)))
        ctx.case(("token", spec, req))
    if not ctx.search_only and ctx.driver_ok:
        correspond(ctx, "get_token+as_bytes", apairs)
    # ---- malformed stream
    mpairs = []
    seeds = [bytes.fromhex(h) for h in HISTORIC] + caps[:6] + gen[: ctx.budget(6, 60)]
    for x in seeds:
        ks = range(len(x)) if len(x) <= 256 else sorted(set(range(64)) | set(range(len(x) - 64, len(x)))
                                                        | {ctx.rng.randrange(len(x)) for _ in range(128)})
        for k in ks:
            mpairs.append(check_malformed(ctx, mb, x[:k], "truncation"))
    for _ in range(ctx.budget(1500, 60000)):
        mpairs.append(check_malformed(ctx, mb, mutate(ctx, pick(ctx, caps + gen[:200])), "mutation"))
    for _ in range(ctx.budget(1500, 60000)):
        n = ctx.rng.randrange(0, 24)
        x = rbytes(ctx, n)
        if n >= 2 and ctx.rng.randrange(4):
            x = bytes([pick(ctx, LRRP_DOCS + [0, 0x16, 0x27, 0x28, 0x80]), ctx.rng.randrange(0, n + 2)]) + x[2:]
        mpairs.append(check_malformed(ctx, mb, x, "random"))
    if not ctx.search_only and ctx.driver_ok:
        correspond(ctx, "from_bytes+as_bytes(malformed)", mpairs)
    ctx.exhaustive = False


def replay(obj):
    import subprocess

    from common import BIN

    logging.disable(logging.CRITICAL)
    mb, LRRP = mods()
    f = obj.get("failure") or {}
    inp = f.get("input", {})
    print(json.dumps(obj.get("type")), f.get("what"))
    for d in (obj.get("correspondence_differences") or [])[:5]:
        print("correspondence difference:", d)
    still = 1
    lines = []
    if inp.get("op") == "parse":
        x = bytes.fromhex(inp["buffer"])
        line, ds = parse_str(mb, x)
        print(f"implementation from_bytes({inp['buffer']}) -> {line}")
        lines.append(f"lrrp.parse {hx(x)}")
        if ds is not None:
            segs = [timed(mb.MBXML.as_bytes, d) for d in ds]
            ok = all(not isinstance(s, str) for s in segs) and b"".join(segs) == x and walk_lengths(x) == len(ds)
            print("re-serialised:", "".join(s if isinstance(s, str) else s.hex() for s in segs))
            if f.get("kind") in ("token-values", "constant-table"):
                print("expected:", f.get("expected"))
                ok = ok and str(f.get("actual")) != str(
                    [(p.token_id, val_str(p), [attr_str(a) for a in p.attributes if not isinstance(a, int)]) for p in ds[inp.get("document", 0)].parts])
            still = 0 if ok and f.get("kind") not in ("parse-hangs",) else 1
            if f.get("kind") in ("consumed", "parse-hangs") and line != "HANG":
                still = 0 if walk_lengths(x) == len(ds) else 1
        else:
            still = 1 if f.get("kind") not in ("consumed",) else 0
            if f.get("kind") == "parse-hangs":
                still = 1 if line == "HANG" else 0
    elif inp.get("op") == "api":
        lines.append(inp["line"])
        _, did, req, cdt, specs = inp["line"].split(" ")

        def pyval(s):
            t, b = s[0], s[1:]
            dyv = lambda q: (-1.0 if q.split(":")[0] == "1" else 1.0) * int(q.split(":")[1]) / 2 ** int(q.split(":")[2])
            if t == "N":
                return None
            if t == "B":
                return bytes.fromhex(b)
            if t == "I":
                return int(b)
            if t == "F":
                return dyv(b)
            ps = b.split("/")
            if t == "P":
                return (bytes.fromhex(ps[0]), bytes.fromhex(ps[1]))
            return (bytes.fromhex(ps[0]), bytes.fromhex(ps[1]), dyv(ps[2]))

        def build():
            doc = LRRP(document_id=[m for m in mb.MBXMLDocumentIdentifier if m.value[0] == int(did)][0])
            for sp in ([] if specs == "-" else specs.split(";")):
                k, v, a = sp.split("~")
                key = int(k[1:]) if k.startswith("#") else k
                ad = {} if a == "-" else {(int(p.split("=")[0][1:]) if p.startswith("#") else p.split("=")[0]): (None if p.split("=")[1] == "N" else int(p.split("=")[1])) for p in a.split("+")}
                doc.parts.append(doc.get_token(name=key, value=pyval(v), attributes=ad, is_request=req == "1"))
            if cdt != "-":
                doc.constants_table = bytes.fromhex(cdt[1:])
                doc.is_constant_table_default = False
            return doc

        doc = timed(build)
        if isinstance(doc, str):
            print("implementation get_token raised", doc)
        else:
            b = timed(mb.MBXML.as_bytes, doc)
            print("implementation assembled", doc_str(mb, doc))
            if not isinstance(b, str):
                line, ds = parse_str(mb, b)
                print("implementation parses its own octets as", line)
                if ds is not None and len(ds) == 1:
                    want = [(p.token_id, val_str(p)) for p in doc.parts]
                    got = [(p.token_id, val_str(p)) for p in ds[0].parts]
                    still = 0 if want == got else 1
    exe = os.path.join(BIN, "drv_c15")
    if lines and os.path.exists(exe):
        out = subprocess.run([exe], input="\n".join(lines) + "\n", capture_output=True, text=True).stdout.split("\n")
        for l, o in zip(lines, out):
            print(f"model          {l[:200]} -> {o}")
    print("expected:", f.get("expected"), "actual:", f.get("actual"))
    return still
