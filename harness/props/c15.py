"""C15 — LRRP/MBXML documents re-serialise to the bytes they were parsed from (DESIGN §5 C15).

Generators write canonical buffers with an encoder of their own (plain base-128, sign in bit 6, one-septet
fractions) from the *reference* token tables frozen in c15_ref.json (what the LRRP tokens are), so a change
of a table or of a codec in /repo shows up as a failing input.  Oracle on the real code:
as_bytes(from_bytes(x)[i]) concatenated == x, every document's own segment, token ids / values / explicit
attribute values / constant tables as generated; documents assembled through get_token parse back to the
same ids and values; every input terminates (per-case alarm) and a successful parse consumed exactly the
announced lengths.  Correspondence: from_bytes + as_bytes and get_token + as_bytes against the Lean model.

Hardening (round 2): values the format lets a sender spell out although the library knows them as a default
(inline constant table = the built default table and its near misses, inline table = the table that would
be inherited, attribute given with its preset value / None, tokens that have a shorter synonym, zero
fractions, zero result codes), sessions in ONE process that alternate request and report documents with
by-number / by-name lookups and assemblies in between (every token id shared by both tables, by number,
after a parse of the opposite kind), parsed documents and looked-up tokens held across later calls and
re-verified, mutation of a returned object followed by a fresh call.
"""
import json
import logging
import math
import os
import re
import signal

from common import impl_error

PROP = "C15"
MODULES = ["C15"]
GEN = ["Mbxml", "Lrrp"]

HERE = os.path.dirname(os.path.abspath(__file__))
REF = json.load(open(os.path.join(HERE, "c15_ref.json")))
IMPLEMENTED = {"OPAQUE_I", "INFO_TIME", "UINT8", "NO_VALUE", "UFLOATVAR", "SFLOATVAR", "UINTVAR", "CIRCLE_2D", "POINT_2D", "POINT_3D"}
LRRP_DOCS = sorted(int(k) for k, v in REF["docs"].items() if v["impl"] == "lrrp")
DEFAULT_CDT = bytes.fromhex(REF["constants_built"])
ATTR_BY_ID = {a[0]: a for a in REF["attributes"]}
U_MAX = 2**32 - 1
S_MAX = 2**31 - 1


class Hang(BaseException):
    pass


class Abort(Exception):
    """enough non-terminating inputs were found: stop generating (each one costs a full alarm)"""


HANGS = [0]


def note_hang(ctx):
    HANGS[0] += 1
    if HANGS[0] >= 3:
        raise Abort()


def _alarm(signum, frame):
    raise Hang()


def timed(fn, *a, seconds=2.0):
    """run fn under an alarm; returns value | 'ERR <Class>' | 'HANG'"""
    old = signal.signal(signal.SIGALRM, _alarm)
    signal.setitimer(signal.ITIMER_REAL, seconds)
    try:
        return fn(*a)
    except Hang:
        return "HANG"
    except BaseException as e:  # noqa
        return impl_error(e)
    finally:
        signal.setitimer(signal.ITIMER_REAL, 0)
        signal.signal(signal.SIGALRM, old)


def mods():
    from okdmr.dmrlib.motorola import mbxml
    from okdmr.dmrlib.motorola.lrrp import LRRP

    return mbxml, LRRP


def hx(b: bytes) -> str:
    return b.hex() if len(b) else "-"


# ------------------------------------------------------------- canonical text of what the code returns
def dy_str(x: float) -> str:
    n, d = abs(x).as_integer_ratio()
    return f"{'-' if math.copysign(1.0, x) < 0 else ''}{n}/{d.bit_length() - 1}"


def val_str(part) -> str:
    v = part.value
    t = part.token_type.name
    if v is None:
        return "N"
    if isinstance(v, (bytes, bytearray)):
        return "B" + bytes(v).hex()
    if isinstance(v, bool):
        return f"?{v!r}"
    if isinstance(v, int):
        return f"I{v}"
    if isinstance(v, float):
        return "F" + dy_str(v)
    if isinstance(v, tuple):
        if t == "CIRCLE_2D" and len(v) == 3:
            return f"C{v[0].hex()}/{v[1].hex()}/{dy_str(v[2])}"
        if t == "POINT_3D" and len(v) == 3:
            return f"Q{v[0].hex()}/{v[1].hex()}/{dy_str(v[2])}"
        if len(v) == 2:
            return f"P{v[0].hex()}/{v[1].hex()}"
    return f"?{type(v).__name__}"


def attr_str(a) -> str:
    if isinstance(a, int):
        return f"i{a}"
    return f"a{a.name}={a.value}"


def part_str(p) -> str:
    ln = "n" if p.length is None else str(p.length)
    return f"{p.token_id}:{p.token_type.name}:{ln}:{'+'.join(attr_str(a) for a in p.attributes)}:{val_str(p)}"


def doc_str(mb, d) -> str:
    b = timed(mb.MBXML.as_bytes, d)
    return (
        f"D{d.id.value[0]};cdt={hx(d.constants_table)};def={1 if d.is_constant_table_default else 0}"
        f";inh={1 if d.is_constant_table_inherited else 0};parts={','.join(part_str(p) for p in d.parts)}"
        f";bytes={b if isinstance(b, str) else hx(b)}"
    )


def parse_str(mb, x: bytes):
    """(canonical line, documents | None)"""
    ds = timed(mb.MBXML.from_bytes, x)
    if isinstance(ds, str):
        return ds, None
    return " | ".join(doc_str(mb, d) for d in ds), ds


# ------------------------------------------------------------- the generator's own canonical encoder
def enc_u(v: int) -> bytes:
    out = [v & 0x7F]
    v >>= 7
    while v:
        out.append((v & 0x7F) | 0x80)
        v >>= 7
    return bytes(reversed(out))


def enc_s(mag: int, neg: bool) -> bytes:
    s = [mag & 0x7F]
    mag >>= 7
    while mag:
        s.append(mag & 0x7F)
        mag >>= 7
    s.reverse()
    if s[0] >= 64:
        s.insert(0, 0)
    if neg:
        s[0] |= 0x40
    return bytes([x | 0x80 for x in s[:-1]] + [s[-1]])


def walk_lengths(x: bytes):
    """independent walk over the announced lengths: number of documents if the walk ends exactly at len(x)"""
    i, n = 0, 0
    while i < len(x):
        for _ in range(2):  # id, length
            v = 0
            while True:
                if i >= len(x):
                    return None
                b = x[i]
                i += 1
                v = v * 128 + (b & 0x7F)
                if not b & 0x80:
                    break
        i += v
        n += 1
    return n if i == len(x) else None


UINT_EDGE = [0, 1, 5, 60, 127, 128, 129, 255, 256, 16383, 16384, 16385, 2**21 - 1, 2**21, 2**28 - 1, 2**28, U_MAX - 1, U_MAX]
SINT_EDGE = [0, 1, 63, 64, 65, 127, 128, 440, 8191, 8192, 8193, 2**20 - 1, 2**20, 2**27, S_MAX - 1, S_MAX]
LEN_EDGE = [0, 1, 2, 4, 4, 4, 16, 127, 128, 129]


def rbytes(ctx, n):
    return bytes(ctx.rng.randrange(256) for _ in range(n))


def pick(ctx, seq):
    return seq[ctx.rng.randrange(len(seq))]


def gen_uint(ctx):
    if ctx.rng.randrange(3):
        return pick(ctx, UINT_EDGE)
    bl = ctx.rng.randrange(1, 33)
    return ctx.rng.randrange(2 ** (bl - 1), 2**bl)


def gen_ufloat(ctx):
    i = gen_uint(ctx)
    f = pick(ctx, (0, 1, 6, 10, 63, 64, 99, 127)) if ctx.rng.randrange(2) else ctx.rng.randrange(128)
    return i, f


def gen_sfloat(ctx):
    i = pick(ctx, SINT_EDGE) if ctx.rng.randrange(3) else ctx.rng.randrange(0, S_MAX + 1)
    f = pick(ctx, (0, 1, 10, 21, 64, 127)) if ctx.rng.randrange(2) else ctx.rng.randrange(128)
    neg = bool(ctx.rng.randrange(2)) and (i, f) != (0, 0)
    if ctx.rng.randrange(6) == 0:  # altitude / speed with zero integer part and negative fraction
        i, neg, f = 0, True, max(f, 1)
    return neg, i, f


def fl(neg, i, f):
    return (-1.0 if neg else 1.0) * (i + f / 128)


def gen_value(ctx, tok):
    """a value of the right shape for the token (generator's own representation, see enc_token)"""
    tid, _name, ty, length, attrs = tok
    if ty == "OPAQUE_I":
        if length:
            return ([], rbytes(ctx, length))
        if length == 0:
            return ([], b"")
        codes = [gen_uint(ctx) for _ in attrs]
        n = pick(ctx, LEN_EDGE) if ctx.rng.randrange(40) else pick(ctx, (300, 16383, 16384))
        ctx.count(f"opaque-len:{'0' if n == 0 else '1..127' if n < 128 else '>=128'}")
        return (codes, rbytes(ctx, n))
    if ty == "INFO_TIME":
        return rbytes(ctx, 5)
    if ty == "UINT8":
        return pick(ctx, (0, 1, 127, 128, 162, 255)) if ctx.rng.randrange(2) else ctx.rng.randrange(256)
    if ty == "NO_VALUE":
        return None
    if ty == "UINTVAR":
        n = gen_uint(ctx)
        ctx.count(f"uintvar-septets:{len(enc_u(n))}")
        return n
    if ty == "UFLOATVAR":
        return gen_ufloat(ctx)
    if ty == "SFLOATVAR":
        v = gen_sfloat(ctx)
        if v[0] and v[1] == 0:
            ctx.count("negative-fraction-zero-integer")
        return v
    if ty == "CIRCLE_2D":
        return (rbytes(ctx, 4), rbytes(ctx, 4), gen_ufloat(ctx))
    if ty == "POINT_2D":
        return (rbytes(ctx, 4), rbytes(ctx, 4))
    if ty == "POINT_3D":
        v = gen_sfloat(ctx)
        if v[0] and v[1] == 0:
            ctx.count("negative-fraction-zero-integer")
        return (rbytes(ctx, 4), rbytes(ctx, 4), v)
    raise AssertionError(ty)


def enc_token(tok, v):
    """canonical octets of one token + what the parser must report: (octets, (id, value text, [attr text]))"""
    tid, _name, ty, length, attrs = tok
    head = bytes([tid])
    ats = []
    if ty == "OPAQUE_I":
        codes, data = v
        if length:
            assert len(data) == length
            return head + data, (tid, "B" + data.hex(), ats)
        if length == 0:
            return head, (tid, "B", ats)
        body = b""
        for a, rc in zip(attrs, codes):
            body += enc_u(rc)
            ats.append(f"a{ATTR_BY_ID[a][1]}={rc}")
        return head + body + enc_u(len(data)) + data, (tid, "B" + data.hex(), ats)
    if ty == "INFO_TIME":
        return head + v, (tid, "B" + v.hex(), ats)
    if ty == "UINT8":
        return head + bytes([v]), (tid, f"I{v}", ats)
    if ty == "NO_VALUE":
        return head, (tid, "N", ats)
    if ty == "UINTVAR":
        return head + enc_u(v), (tid, f"I{v}", ats)
    if ty == "UFLOATVAR":
        i, f = v
        return head + enc_u(i) + bytes([f]), (tid, "F" + dy_str(fl(False, i, f)), ats)
    if ty == "SFLOATVAR":
        neg, i, f = v
        return head + enc_s(i, neg) + bytes([f]), (tid, "F" + dy_str(fl(neg, i, f)), ats)
    if ty == "CIRCLE_2D":
        la, lo, (i, f) = v
        return head + la + lo + enc_u(i) + bytes([f]), (tid, f"C{la.hex()}/{lo.hex()}/{dy_str(fl(False, i, f))}", ats)
    if ty == "POINT_2D":
        la, lo = v
        return head + la + lo, (tid, f"P{la.hex()}/{lo.hex()}", ats)
    if ty == "POINT_3D":
        la, lo, (neg, i, f) = v
        return head + la + lo + enc_s(i, neg) + bytes([f]), (tid, f"Q{la.hex()}/{lo.hex()}/{dy_str(fl(neg, i, f))}", ats)
    raise AssertionError(ty)


def gen_token(ctx, tok):
    return enc_token(tok, gen_value(ctx, tok))


def cdt_items(t: bytes):
    """the length-value items of a constant table"""
    out, i = [], 0
    while i < len(t):
        out.append(t[i : i + 1 + t[i]])
        i += 1 + t[i]
    return out


DEFAULT_ITEMS = cdt_items(DEFAULT_CDT)
TABLE_IDS = [d for d in LRRP_DOCS if not REF["docs"][str(d)]["ncdt"]]
NCDT_IDS = [d for d in LRRP_DOCS if REF["docs"][str(d)]["ncdt"]]
SPECIAL_TABLES = ("default", "default-1oct", "default-1bit", "default-first-oct", "default-last-oct", "default-trunc", "default-ext",
                  "default-behead", "default-prefix", "default-minus-item", "default-reordered", "default-twice", "default-lower",
                  "same-as-previous", "previous-1oct", "previous-ext")


def special_table(ctx, label, prev_cdt):
    """an inline constant table the library could mistake for one it already knows: the built default table
    of the document type, its near misses, tables built like it from other constants, the previous
    document's table spelled out instead of CDT_LEN(1)"""
    d = bytearray(DEFAULT_CDT)
    if label == "default":
        t = bytes(d)
    elif label == "default-1oct":
        d[ctx.rng.randrange(len(d))] ^= ctx.rng.randrange(1, 256)
        t = bytes(d)
    elif label == "default-1bit":
        d[ctx.rng.randrange(len(d))] ^= 1 << ctx.rng.randrange(8)
        t = bytes(d)
    elif label == "default-first-oct":
        d[0] ^= ctx.rng.randrange(1, 256)
        t = bytes(d)
    elif label == "default-last-oct":
        d[-1] ^= ctx.rng.randrange(1, 256)
        t = bytes(d)
    elif label == "default-trunc":
        t = bytes(d[:-1])
    elif label == "default-ext":
        t = bytes(d) + rbytes(ctx, 1)
    elif label == "default-behead":
        t = bytes(d[1:])
    elif label == "default-prefix":  # the table another document type with fewer constants would have
        t = b"".join(DEFAULT_ITEMS[: ctx.rng.randrange(1, len(DEFAULT_ITEMS))])
    elif label == "default-minus-item":
        k = ctx.rng.randrange(len(DEFAULT_ITEMS))
        t = b"".join(DEFAULT_ITEMS[:k] + DEFAULT_ITEMS[k + 1 :])
    elif label == "default-reordered":
        it = list(DEFAULT_ITEMS)
        i, j = ctx.rng.randrange(len(it)), ctx.rng.randrange(len(it) - 1)
        j += j >= i
        it[i], it[j] = it[j], it[i]
        t = b"".join(it)
    elif label == "default-twice":
        t = bytes(d) * 2
    elif label == "default-lower":
        t = bytes(d).lower()
    elif label == "same-as-previous":
        t = prev_cdt if prev_cdt is not None else b""
    elif label == "previous-1oct":
        t = bytearray(prev_cdt if prev_cdt else b"\x00\x00")
        t[ctx.rng.randrange(len(t))] ^= ctx.rng.randrange(1, 256)
        t = bytes(t)
    elif label == "previous-ext":
        t = (prev_cdt if prev_cdt is not None else b"") + rbytes(ctx, 1)
    else:
        raise AssertionError(label)
    if len(t) == 1:  # CDT_LEN(1) is the inheritance marker, not a table of one octet
        t = t + b"\x00"
    return t


def gen_doc(ctx, did, prev_cdt, cdt_mode=None, ntok=None, toks=None):
    """one canonical document: (segment octets, expected)
    cdt_mode: None = random | 'inherited' | 'inline' (random octets) | a SPECIAL_TABLES label | bytes (that very table inline)"""
    d = REF["docs"][str(did)]
    if toks is None:
        toks = [t for t in REF["tables"][d["table"]] if t[2] in IMPLEMENTED]
    if d["ncdt"]:
        cdt_oct, cdt, mode = b"", DEFAULT_CDT, "default"
    else:
        if cdt_mode is None:
            r = ctx.rng.randrange(20)
            cdt_mode = "inherited" if r < 9 else "inline" if r < 15 else pick(ctx, SPECIAL_TABLES)
        if cdt_mode == "inherited":
            cdt_oct, mode = b"\x01", "inherited"
            cdt = prev_cdt if prev_cdt is not None else b""
        elif cdt_mode == "inline":
            n = pick(ctx, (0, 2, 3, 5, 5, 9, len(DEFAULT_CDT), 127, 128, 200))
            cdt = rbytes(ctx, n)
            cdt_oct, mode = enc_u(n) + cdt, "inline"
        else:
            if isinstance(cdt_mode, bytes):
                cdt, mode = cdt_mode, "inline:given"
            else:
                cdt, mode = special_table(ctx, cdt_mode, prev_cdt), "inline:" + cdt_mode
            cdt_oct = enc_u(len(cdt)) + cdt
    ctx.count(f"cdt:{mode}")
    body = cdt_oct
    parts = []
    k = ntok if ntok is not None else ctx.rng.randrange(0, 13)
    for _ in range(k):
        tok = pick(ctx, toks)
        o, e = gen_token(ctx, tok)
        body += o
        parts.append(e)
        ctx.count(f"token-type:{tok[2]}")
    seg = enc_u(did) + enc_u(len(body)) + body
    return seg, {"id": did, "cdt": cdt, "segment": seg, "parts": parts, "mode": mode}


def gen_buffer(ctx, ndocs=None, ntok=None, kinds=None, cdt_modes=None, dids=None):
    """(octets, [expected document]) with expected = dict(id, cdt, segment, parts)
    kinds: restrict the document ids to these reference tables ('t0' request, 't1' answer/report, 't2' common only)"""
    ndocs = ndocs or (pick(ctx, (1, 1, 2, 3)) if ctx.rng.randrange(25) else pick(ctx, (4, 5)))
    ids = LRRP_DOCS if kinds is None else [d for d in LRRP_DOCS if REF["docs"][str(d)]["table"] in kinds]
    buf = b""
    exp = []
    prev_cdt = None
    for n in range(ndocs):
        did = dids[n] if dids else pick(ctx, ids)
        seg, e = gen_doc(ctx, did, prev_cdt, cdt_mode=cdt_modes[n] if cdt_modes else None, ntok=ntok)
        buf += seg
        exp.append(e)
        prev_cdt = e["cdt"]
    ctx.count(f"documents-per-buffer:{ndocs}")
    return buf, exp


def canonical_problems(mb, x: bytes, exp):
    """the property on one canonical buffer: (canonical line, documents | None, [(kind, what, expected, actual, document index | None)])"""
    line, ds = parse_str(mb, x)
    pr = []
    if ds is None:
        pr.append(("parse-raises" if line != "HANG" else "parse-hangs", f"from_bytes raised {line} on a canonical buffer", "documents", line, None))
        return line, None, pr
    if exp is not None and len(ds) != len(exp):
        pr.append(("document-count", f"{len(ds)} documents parsed, {len(exp)} written", len(exp), len(ds), None))
        return line, ds, pr
    segs = [timed(mb.MBXML.as_bytes, d) for d in ds]
    if any(isinstance(b, str) for b in segs):
        pr.append(("serialise-raises", f"as_bytes raised {[b for b in segs if isinstance(b, str)][0]} on a parsed document", None, str(segs), None))
    elif b"".join(segs) != x:
        pr.append(("reserialise", "as_bytes of the parsed documents differs from the buffer they were parsed from", x.hex(), b"".join(segs).hex(), None))
    if walk_lengths(x) != len(ds):
        pr.append(("consumed", "the parser did not consume exactly the announced document lengths", walk_lengths(x), len(ds), None))
    if exp is not None:
        for i, (d, e) in enumerate(zip(ds, exp)):
            got = [(p.token_id, val_str(p), [attr_str(a) for a in p.attributes if not isinstance(a, int)]) for p in d.parts]
            want = [(t, v, list(a)) for (t, v, a) in e["parts"]]
            if d.id.value[0] != e["id"] or got != want:
                pr.append(("token-values", "token ids / values of the parsed document differ from what was written", str(want), str(got), i))
            if bytes(d.constants_table) != e["cdt"]:
                pr.append(("constant-table", f"constant table of the parsed document ({e['mode']}) is wrong", e["cdt"].hex(), bytes(d.constants_table).hex(), i))
            if not isinstance(segs[i], str) and segs[i] != e["segment"]:
                pr.append(("reserialise", "as_bytes of one parsed document differs from its own octets", e["segment"].hex(), segs[i].hex(), i))
    return line, ds, pr


# parsed documents kept alive while the run goes on: [document, canonical text at parse time, buffer, index in it, number of the parse]
HELD = []
PARSED = []  # every canonical buffer parsed so far, in order (for the search of the call that changed a held document)
HELD_MAX = 6000


def hold(ctx, x, ds, line):
    snaps = line.split(" | ")
    if len(snaps) != len(ds):
        return
    for i, d in enumerate(ds):
        item = [d, snaps[i], x, i, len(PARSED) - 1]
        if len(HELD) < HELD_MAX:
            HELD.append(item)
        else:
            HELD[ctx.rng.randrange(HELD_MAX)] = item


def check_canonical(ctx, mb, x: bytes, exp, origin, keep=True):
    """the property on one canonical buffer; returns the correspondence pair"""
    line, ds, pr = canonical_problems(mb, x, exp)
    inp = {"op": "parse", "buffer": x.hex(), "origin": origin}
    for kind, what, expected, actual, i in pr:
        ctx.fail(kind, inp if i is None else dict(inp, document=i), what, expected=expected, actual=actual)
        if kind == "parse-hangs":
            note_hang(ctx)
    PARSED.append(x)
    if keep and ds is not None and not pr:
        hold(ctx, x, ds, line)
    return (f"lrrp.parse {hx(x)}", line)


def verify_held(ctx, mb, every=1):
    """every document parsed earlier and still referenced must be what it was when it was parsed"""
    bad = 0
    for n, (d, snap, x, i, at) in enumerate(HELD):
        if n % every:
            continue
        ctx.count("held:document-reverified")
        now = doc_str(mb, d)
        if now == snap:
            continue
        bad += 1
        if bad > 3:
            continue
        # which later parse changed it?  replay the pair (first, later) for each later buffer
        then = None
        for y in PARSED[at + 1 : at + 1 + 400]:
            ds0 = timed(mb.MBXML.from_bytes, x)
            if isinstance(ds0, str) or len(ds0) <= i:
                break
            s0 = doc_str(mb, ds0[i])
            timed(mb.MBXML.from_bytes, y)
            if doc_str(mb, ds0[i]) != s0:
                then = [y.hex()]
                break
        if then is None:
            then = [y.hex() for y in PARSED[at + 1 :][-40:]]
        ctx.fail("held-document-changed", {"op": "hold", "first": x.hex(), "document": i, "then": then},
                 "a document returned by from_bytes changed while later buffers were parsed", expected=snap, actual=now)
    return bad


# ------------------------------------------------------------- defaults spelled out
def default_table_sweep(ctx):
    """every table-carrying document id x every default-like inline table x its surroundings in the buffer"""
    out = []
    for did in TABLE_IDS:
        others = [d for d in TABLE_IDS if d != did]
        for label in SPECIAL_TABLES:
            if label.startswith(("same-as", "previous")):
                continue
            out.append(gen_buffer(ctx, ndocs=1, ntok=0, dids=[did], cdt_modes=[label]) + (f"inline:{label}",))
            out.append(gen_buffer(ctx, ndocs=1, ntok=ctx.rng.randrange(1, 5), dids=[did], cdt_modes=[label]) + (f"inline:{label}+tokens",))
            out.append(gen_buffer(ctx, ndocs=3, ntok=ctx.rng.randrange(0, 3), dids=[did, pick(ctx, others), pick(ctx, TABLE_IDS)],
                                  cdt_modes=[label, "inherited", "inherited"]) + (f"inline:{label},inherited,inherited",))
            out.append(gen_buffer(ctx, ndocs=2, ntok=ctx.rng.randrange(0, 3), dids=[pick(ctx, NCDT_IDS), did],
                                  cdt_modes=[None, label]) + (f"ncdt,inline:{label}",))
        # the table that CDT_LEN(1) would inherit, spelled out instead: after an NCDT document (= the default table),
        # after an inline table, after an inherited one, after nothing
        for prev_mode in (None, "default", "inline", "default-1oct", "inherited"):
            for label in ("same-as-previous", "previous-1oct", "previous-ext"):
                first = pick(ctx, NCDT_IDS) if prev_mode is None else pick(ctx, TABLE_IDS)
                out.append(gen_buffer(ctx, ndocs=3, ntok=ctx.rng.randrange(0, 3), dids=[first, did, pick(ctx, others)],
                                      cdt_modes=[prev_mode, label, pick(ctx, ("inherited", "same-as-previous"))]) + (f"{prev_mode},inline:{label}",))
    return out


def synonym_sweep(ctx):
    """tokens written in a form that has a shorter synonym or an implied value: a length-prefixed value of the fixed
    length of its sibling token, a zero result code / empty data (the length-0 result tokens), a float with a zero
    fraction (the uintvar sibling), zero / empty / all-zero values"""
    out = []
    z4 = bytes(4)
    for did in LRRP_DOCS:
        d = REF["docs"][str(did)]
        cases = []
        for tok in REF["tables"][d["table"]]:
            tid, _name, ty, length, attrs = tok
            if ty not in IMPLEMENTED:
                continue
            if ty == "OPAQUE_I" and length is None:
                codes = [[0] * len(attrs), [5] * len(attrs), [127] * len(attrs)]
                for c in codes[: 3 if attrs else 1]:
                    for data in (b"", b"\x00", rbytes(ctx, 1), rbytes(ctx, 5), bytes(4)):
                        cases.append((tok, (c, data)))
            elif ty == "OPAQUE_I":
                cases.append((tok, ([], bytes(length))))
            elif ty == "INFO_TIME":
                cases.append((tok, bytes(5)))
            elif ty in ("UINT8", "UINTVAR"):
                cases.append((tok, 0))
            elif ty == "UFLOATVAR":
                cases += [(tok, (i, 0)) for i in (0, 1, 127, 128, U_MAX)]
            elif ty == "SFLOATVAR":
                cases += [(tok, (False, 0, 0)), (tok, (False, 64, 0)), (tok, (True, 1, 0)), (tok, (True, S_MAX, 0))]
            elif ty == "CIRCLE_2D":
                cases += [(tok, (z4, z4, (0, 0))), (tok, (rbytes(ctx, 4), rbytes(ctx, 4), (128, 0)))]
            elif ty == "POINT_2D":
                cases.append((tok, (z4, z4)))
            elif ty == "POINT_3D":
                cases += [(tok, (z4, z4, (False, 0, 0))), (tok, (rbytes(ctx, 4), rbytes(ctx, 4), (True, 64, 0)))]
        for tok, v in cases:
            o, e = enc_token(tok, v)
            # alone, and followed by another token (a dropped octet must not hide behind the end of the document)
            for tail in (b"", None):
                body = (b"" if d["ncdt"] else b"\x00") + o
                parts = [e]
                if tail is None:
                    toks = [t for t in REF["tables"][d["table"]] if t[2] in IMPLEMENTED]
                    o2, e2 = gen_token(ctx, pick(ctx, toks))
                    body += o2
                    parts.append(e2)
                x = enc_u(did) + enc_u(len(body)) + body
                out.append((x, [{"id": did, "cdt": DEFAULT_CDT if d["ncdt"] else b"", "segment": x, "parts": parts, "mode": "x"}], "synonym"))
    return out


# ------------------------------------------------------------- corpus
def captured_messages():
    """every hex string literal of the LRRP / MBXML / ARRP tests that is a whole MBXML buffer"""
    import okdmr.tests.dmrlib.motorola as pkg

    out = []
    root = os.path.dirname(pkg.__file__)
    for fn in ("test_lrrp.py", "test_mbxml.py", "test_arrp.py"):
        src = open(os.path.join(root, fn), encoding="utf-8").read()
        for m in re.finditer(r"\"([0-9A-Fa-f]{8,})\"", src):
            h = m.group(1)
            if len(h) % 2 == 0 and h.lower() not in out:
                out.append(h.lower())
    return out


def _doc(did, body):
    return enc_u(did) + enc_u(len(body)) + body


HISTORIC = [
    "05022200",  # request-id of 0 octets (length octet was dropped: fixed cc6e0a2)
    "0703390500",  # result with code 5 and empty data
    "040e05054150434f22042468ace0536204070122042468ace0",  # inherited constant table (fixed 843b280)
    "04080122042468ace062",  # inherited without a previous document
    "050822042468ace05162050822042468ace05162",  # two documents per buffer (fixed ab84c82)
    _doc(5, bytes([0x31]) + enc_u(128)).hex(),  # interval = 128: multiple of 128 (C14 fix 4ffeeb5)
    _doc(5, bytes([0x31]) + enc_u(16384) + bytes([0x4A]) + enc_u(2**28)).hex(),
    _doc(13, bytes([0x69]) + bytes(8) + enc_s(0, True) + bytes([10])).hex(),  # altitude -10/128: negative fraction, zero integer part
    _doc(13, bytes([0x69]) + bytes(8) + enc_s(64, False) + bytes([0])).hex(),  # altitude +64: sign septet (C14 fix 636b721)
    _doc(13, bytes([0x70]) + enc_s(8192, True) + bytes([127])).hex(),
    _doc(7, bytes([0x39]) + enc_u(128) + enc_u(128) + bytes(128)).hex(),  # result code 128, 128 octets of data
    "0403005362", "0500", "0700",
    # the built default table spelled out inline (a table-carrying id), alone / with a token / inherited by the next document
    _doc(4, enc_u(len(DEFAULT_CDT)) + DEFAULT_CDT).hex(),
    _doc(6, enc_u(len(DEFAULT_CDT)) + DEFAULT_CDT + bytes([0x22, 0x01, 0x07])).hex(),
    (_doc(8, enc_u(len(DEFAULT_CDT)) + DEFAULT_CDT + bytes([0x34, 0x31, 0x3C])) + _doc(12, bytes([0x01, 0x22, 0x00])) + _doc(13, bytes([0x22, 0x00]))).hex(),
    (_doc(5, bytes([0x22, 0x00])) + _doc(4, enc_u(len(DEFAULT_CDT)) + DEFAULT_CDT + bytes([0x53]))).hex(),  # after an NCDT document: equal to what 01 would inherit
    (_doc(4, bytes([0x05]) + b"APCO\x00"[:5]) + _doc(6, bytes([0x05]) + b"APCO\x00"[:5] + bytes([0x38]))).hex(),  # the previous table again, inline
]


# ------------------------------------------------------------- token lookup API
def api_value(ctx, ty, length):
    """(python value, spec text) of the right shape for the token type, exactly representable"""
    if ty == "OPAQUE_I":
        n = length if length else (0 if length == 0 else pick(ctx, LEN_EDGE))
        v = rbytes(ctx, n)
        return v, "B" + v.hex()
    if ty == "INFO_TIME":
        v = rbytes(ctx, 5)
        return v, "B" + v.hex()
    if ty == "UINT8":
        n = pick(ctx, (0, 1, 127, 128, 255))
        return n, f"I{n}"
    if ty == "NO_VALUE":
        return None, "N"
    if ty == "UINTVAR":
        n = gen_uint(ctx)
        return n, f"I{n}"

    def dy(x):
        n, d = abs(x).as_integer_ratio()
        return f"{1 if math.copysign(1.0, x) < 0 else 0}:{n}:{d.bit_length() - 1}"

    if ty == "UFLOATVAR":
        x = fl(False, *gen_ufloat(ctx))
        return x, "F" + dy(x)
    if ty == "SFLOATVAR":
        x = fl(*gen_sfloat(ctx))
        return x, "F" + dy(x)
    la, lo = rbytes(ctx, 4), rbytes(ctx, 4)
    if ty == "CIRCLE_2D":
        x = fl(False, *gen_ufloat(ctx))
        return (la, lo, x), f"C{la.hex()}/{lo.hex()}/{dy(x)}"
    if ty == "POINT_2D":
        return (la, lo), f"P{la.hex()}/{lo.hex()}"
    if ty == "POINT_3D":
        x = fl(*gen_sfloat(ctx))
        return (la, lo, x), f"Q{la.hex()}/{lo.hex()}/{dy(x)}"
    raise AssertionError(ty)


def api_attrs(ctx, tok, mode):
    """attribute dict for get_token: mode 'good' supplies every wire attribute (and nothing a length-0 token
    cannot carry); 'any' also produces the two situations recorded as known findings"""
    tid, _name, ty, length, attrs = tok
    d = {}
    for a in attrs:
        adef = ATTR_BY_ID[a]
        preset = adef[3]
        wire = ty == "OPAQUE_I" and length is None
        if wire:
            if mode == "any" and ctx.rng.randrange(5) == 0:
                continue  # omitted wire attribute (known finding api-wire-attribute-omitted)
            key = adef[1] if ctx.rng.randrange(2) else a
            d[key] = gen_uint(ctx)
            if mode == "any" and ctx.rng.randrange(12) == 0:
                d[key] = None  # spelled out as None: the same as omitted (same known finding)
                ctx.count("api-attr:wire-attribute-given-as-None")
        elif preset is not None:
            if ctx.rng.randrange(2):
                d[a if ctx.rng.randrange(2) else adef[1]] = preset
                ctx.count("api-attr:preset-value-spelled-out")
                if mode == "any" and ctx.rng.randrange(6) == 0:
                    # next to the preset value / None: the lookup finds no such attribute (correspondence only)
                    d[list(d)[-1]] = pick(ctx, (preset + 1, abs(preset - 1), 0, None))
                    ctx.count("api-attr:near-preset-value")
        elif length == 0:
            if mode == "any" and ctx.rng.randrange(3) == 0:
                d[adef[1] if ctx.rng.randrange(2) else a] = gen_uint(ctx)  # known finding api-length0-explicit-attribute
    return d


def attrs_spec(d):
    if not d:
        return "-"
    return "+".join(f"{('#' + str(k)) if isinstance(k, int) else k}={'N' if v is None else v}" for k, v in d.items())


def diagnose(parts, calls, is_req):
    """the two recorded shortcomings of the lookup API.  They are about what the CALLER did, judged by the reference
    tables (a value given to an attribute of a fixed-length-0 token; a wire attribute not given, or given as None),
    and show on the assembled parts; a part that has the shape although the caller supplied the attribute properly
    (say, an explicit result code 0 that was dropped) is not excused."""
    ref = ref_table(is_req)
    len0, omitted = [], []
    for p, (_key, _value, ad) in zip(parts, calls):
        tok = ref.get(p.token_id)
        if tok is None or tok[2] != "OPAQUE_I" or p.token_type.name != "OPAQUE_I":
            continue
        given = {k for k, v in ad.items() if v is not None}
        if tok[3] == 0 and p.length == 0 and given and any(not isinstance(a, int) for a in p.attributes):
            len0.append(p.token_id)
        if tok[3] is None and p.length is None and tok[4] and any(isinstance(a, int) for a in p.attributes):
            if not all(any(k == a or k == ATTR_BY_ID[a][1] for k in given) for a in tok[4]):
                omitted.append(p.token_id)
    return len0, omitted


def pyval(s):
    """python value of a value text of the line protocol (N, B<hex>, I<n>, F<dy>, C/P/Q<lat>/<lon>[/<dy>])"""
    t, b = s[0], s[1:]

    def dyv(q):
        sg, n, e = q.split(":")
        return (-1.0 if sg == "1" else 1.0) * int(n) / 2 ** int(e)

    if t == "N":
        return None
    if t == "B":
        return bytes.fromhex(b)
    if t == "I":
        return int(b)
    if t == "F":
        return dyv(b)
    ps = b.split("/")
    if t == "P":
        return (bytes.fromhex(ps[0]), bytes.fromhex(ps[1]))
    return (bytes.fromhex(ps[0]), bytes.fromhex(ps[1]), dyv(ps[2]))


def parse_spec(sp):
    """'<name|#id>~<value text>~<attrs>' -> (key, python value, attribute dict)"""
    k, v, a = sp.split("~")
    key = int(k[1:]) if k.startswith("#") else k
    ad = {} if a == "-" else {(int(q.split("=")[0][1:]) if q.startswith("#") else q.split("=")[0]): (None if q.split("=")[1] == "N" else int(q.split("=")[1]))
                              for q in a.split("+")}
    return key, pyval(v), ad


def parse_api_line(line):
    _, did, req, cdt, specs = line.split(" ")
    calls = [parse_spec(sp) for sp in ([] if specs == "-" else specs.split(";"))]
    return int(did), req == "1", (None if cdt == "-" else bytes.fromhex(cdt[1:])), calls


def sig(parts):
    return [(p.token_id, val_str(p), sorted(attr_str(a) for a in p.attributes if not isinstance(a, int))) for p in parts]


def api_eval(mb, LRRP, line):
    """assemble the document of an `lrrp.api` line through get_token, serialise, parse back:
    (canonical text | 'ERR …', document | None, [(kind, what, expected, actual, extra input)], diagnosis)"""
    did, is_req, cdt, calls = parse_api_line(line)

    def build():
        doc = LRRP(document_id=[m for m in mb.MBXMLDocumentIdentifier if m.value[0] == did][0])
        for key, value, ad in calls:
            doc.parts.append(doc.get_token(name=key, value=value, attributes=dict(ad), is_request=is_req))
        if cdt is not None:
            doc.constants_table = cdt
            doc.is_constant_table_default = False
        return doc

    doc = timed(build)
    if isinstance(doc, str):
        return doc, None, [], {}
    out = doc_str(mb, doc)
    b = timed(mb.MBXML.as_bytes, doc)
    len0, omitted = diagnose(doc.parts, calls, is_req)
    diag = {"length0_token_with_explicit_attribute": len0, "wire_attribute_omitted": omitted}
    pr = []
    if isinstance(b, str):
        pr.append(("api-serialise-raises", f"as_bytes raised {b} on a document assembled through get_token", None, b, {}))
        return out, doc, pr, diag
    back = timed(mb.MBXML.from_bytes, b)
    want = sig(doc.parts)
    if isinstance(back, str) or len(back) != 1:
        got = back if isinstance(back, str) else f"{len(back)} documents"
    else:
        got = sig(back[0].parts)
    if got != want:
        pr.append(("api-roundtrip", "a document assembled through get_token does not parse back into the same token ids and values",
                   str(want), str(got), {"octets": b.hex()}))
    elif cdt is not None and bytes(back[0].constants_table) != cdt:
        pr.append(("api-constant-table", "the constant table set on a document assembled through get_token does not parse back",
                   cdt.hex(), bytes(back[0].constants_table).hex(), {"octets": b.hex()}))
    if len0 or omitted:
        # the recorded shortcomings excuse only the tokens they are about: the rest of the document must still round-trip
        rest = [p for p in doc.parts if p.token_id not in len0 and p.token_id not in omitted]
        doc.parts = rest
        b2 = timed(mb.MBXML.as_bytes, doc)
        back2 = b2 if isinstance(b2, str) else timed(mb.MBXML.from_bytes, b2)
        want2 = sig(rest)
        got2 = back2 if isinstance(back2, str) else (f"{len(back2)} documents" if len(back2) != 1 else sig(back2[0].parts))
        if got2 != want2:
            pr.append(("api-roundtrip-rest", "the rest of a document assembled through get_token (known-finding tokens removed) does not parse back",
                       str(want2), str(got2), {"without_tokens": len0 + omitted}))
    return out, doc, pr, diag


API_TABLES = ("random", "random", "random", "default", "default-1oct", "default-trunc", "default-ext", "default-prefix", "empty")


def gen_api_line(ctx, mode, is_req=None, force=()):
    """an `lrrp.api` line: document id, kind, constant table, 0-8 get_token calls (force: token ids looked up by number first)"""
    if is_req is None:
        is_req = bool(ctx.rng.randrange(2))
    kinds = {True: "t0", False: "t1"}
    docs = [d for d in LRRP_DOCS if REF["docs"][str(d)]["table"] == kinds[is_req]]
    did = pick(ctx, docs)
    ncdt = REF["docs"][str(did)]["ncdt"]
    table = {t[0]: t for t in REF["tables"][kinds[is_req]] if t[2] in IMPLEMENTED}
    known = [t for s in REF["known"]["request" if is_req else "answer"] for t in s if t[0] in table]
    specs = []
    todo = [(tid, table[tid][1], False) for tid in force if tid in table]
    for _ in range(ctx.rng.randrange(0, 9)):
        tid, name = pick(ctx, known)
        # a name is only used when the lookup is bound to find this very definition first
        by_name = ctx.rng.randrange(3) == 0 and [t for t in known if t[1] == name][0][0] == tid
        todo.append((tid, name, by_name))
    if force:
        ctx.rng.shuffle(todo)
    for tid, name, by_name in todo:
        tok = table[tid]
        _value, vtxt = api_value(ctx, tok[2], tok[3])
        ad = api_attrs(ctx, tok, mode)
        specs.append(f"{name if by_name else '#' + str(tid)}~{vtxt}~{attrs_spec(ad)}")
    if ncdt:
        cdt = None
    else:
        how = pick(ctx, API_TABLES)
        ctx.count(f"api-cdt:{how}")
        cdt = rbytes(ctx, pick(ctx, (0, 2, 5, 128))) if how == "random" else b"" if how == "empty" else special_table(ctx, how, None)
    return f"lrrp.api {did} {1 if is_req else 0} {'-' if cdt is None else 'T' + cdt.hex()} {';'.join(specs) if specs else '-'}"


def api_case(ctx, mb, LRRP, mode):
    line = gen_api_line(ctx, mode)
    out, doc, pr, diag = api_eval(mb, LRRP, line)
    for kind, what, expected, actual, extra in pr:
        if kind == "api-roundtrip-rest":
            ctx.fail("api-roundtrip", dict({"op": "api", "line": line}, **extra), what, expected=expected, actual=actual)
        else:
            ctx.fail(kind, dict({"op": "api", "line": line}, **diag, **extra), what, expected=expected, actual=actual)
    if doc is not None and not any(k == "api-serialise-raises" for k, *_ in pr):
        ctx.count("api:known-finding-shape" if (diag["length0_token_with_explicit_attribute"] or diag["wire_attribute_omitted"]) else "api:well-formed")
    return line, out, doc


def m_len0(f):
    return f["kind"] == "api-roundtrip" and bool(f["input"].get("length0_token_with_explicit_attribute")) \
        and not f["input"].get("wire_attribute_omitted")


def m_omitted(f):
    return f["kind"] == "api-roundtrip" and bool(f["input"].get("wire_attribute_omitted"))


MATCHERS = {"api_length0_explicit_attribute": m_len0, "api_wire_attribute_omitted": m_omitted}


# ------------------------------------------------------------- sessions: one process, many calls
def ref_table(is_req):
    return {t[0]: t for t in REF["tables"]["t0" if is_req else "t1"]}


# token ids that the request and the answer / report tables both define (the three common ones included)
SHARED_IDS = sorted(set(ref_table(True)) & set(ref_table(False)))
NAMES = {True: sorted({t[1] for t in REF["tables"]["t0"]}), False: sorted({t[1] for t in REF["tables"]["t1"]})}


def token_step(ctx, key_tid, is_req, by_name=False, name=None):
    """a get_token step for token id `key_tid` (by number) or `name`, with a value of the shape the requested kind expects"""
    if by_name:
        defs = [t for t in REF["tables"]["t0" if is_req else "t1"] if t[1] == name]
        tok = defs[0] if defs else pick(ctx, REF["tables"]["t1" if is_req else "t0"])  # a name of the other kind: value of any shape
        key = name
    else:
        tok = ref_table(is_req)[key_tid]
        key = "#" + str(key_tid)
    vtxt = api_value(ctx, tok[2], tok[3])[1] if tok[2] in IMPLEMENTED else "N"
    ad = api_attrs(ctx, tok, "good") if tok[2] in IMPLEMENTED else {}
    return {"s": "T", "req": 1 if is_req else 0, "spec": f"{key}~{vtxt}~{attrs_spec(ad)}"}


def exp_json(exp):
    return [{"id": e["id"], "cdt": e["cdt"].hex(), "segment": e["segment"].hex(), "mode": e["mode"],
             "parts": [[t, v, list(a)] for (t, v, a) in e["parts"]]} for e in exp]


def exp_unjson(j):
    return [{"id": e["id"], "cdt": bytes.fromhex(e["cdt"]), "segment": bytes.fromhex(e["segment"]), "mode": e["mode"],
             "parts": [(t, v, list(a)) for t, v, a in e["parts"]]} for e in j]


def parse_step(ctx, kinds=None, **kw):
    x, exp = gen_buffer(ctx, kinds=kinds, **kw)
    return {"s": "P", "x": x.hex(), "exp": exp_json(exp)}


DOC_MUTATIONS = ("parts-clear", "parts-reverse", "parts-dup", "parts-pop", "value-rebind", "id-rebind", "attrs-rebind", "type-rebind", "cdt-rebind", "flags-flip")
TOK_MUTATIONS = ("attrs-append", "attrs-clear", "attrs-reverse", "value-rebind", "id-rebind")


def gen_session(ctx):
    """parse a request, look tokens up for a report by number, assemble a report, parse a report, look tokens up for
    a request … in ONE process; verify what was returned earlier; mutate a returned object and call again"""
    steps = []
    k = bool(ctx.rng.randrange(2))  # kind of the document parsed next (True = request)
    for _ in range(ctx.rng.randrange(2, 5)):
        r = ctx.rng.randrange(10)
        kinds = None if r == 0 else ("t2",) if r == 1 else ("t0",) if k else ("t1",)
        steps.append(parse_step(ctx, kinds=kinds, ndocs=pick(ctx, (1, 1, 2)), ntok=ctx.rng.randrange(0, 6)))
        ids = list(SHARED_IDS)
        ctx.rng.shuffle(ids)
        for tid in ids[: ctx.rng.randrange(1, 4)]:
            steps.append(token_step(ctx, tid, (not k) if ctx.rng.randrange(4) else k))
        for _ in range(ctx.rng.randrange(0, 3)):
            flag = bool(ctx.rng.randrange(2))
            steps.append(token_step(ctx, None, flag, by_name=True, name=pick(ctx, NAMES[flag if ctx.rng.randrange(3) else not flag])))
        if ctx.rng.randrange(3):
            kind = (not k) if ctx.rng.randrange(4) else k
            shared = [t for t in SHARED_IDS if ref_table(kind)[t][2] in IMPLEMENTED]
            ctx.rng.shuffle(shared)
            steps.append({"s": "A", "line": gen_api_line(ctx, "good", is_req=kind, force=shared[: ctx.rng.randrange(1, 4)])})
        if ctx.rng.randrange(4) == 0:
            steps.append({"s": "V"})
        if ctx.rng.randrange(4) == 0:
            steps.append({"s": "MD", "r": ctx.rng.randrange(1 << 16), "how": pick(ctx, DOC_MUTATIONS)})
        if ctx.rng.randrange(5) == 0:
            steps.append({"s": "MT", "r": ctx.rng.randrange(1 << 16), "how": pick(ctx, TOK_MUTATIONS)})
        if ctx.rng.randrange(5):
            k = not k
    steps.append({"s": "V"})
    return steps


def alternation_session(ctx, first_is_request, with_table):
    """request, report, request, report (or the other way round): after every parse EVERY token id shared by both
    tables is looked up by number for the opposite kind (and for the own one) and a one-token document is assembled"""
    steps = []
    k = first_is_request
    for _ in range(4):
        ids = [d for d in (TABLE_IDS if with_table else NCDT_IDS) if REF["docs"][str(d)]["table"] == ("t0" if k else "t1")]
        steps.append(parse_step(ctx, dids=[pick(ctx, ids)], ndocs=1, ntok=ctx.rng.randrange(1, 4)))
        for tid in SHARED_IDS:
            for kind in (not k, k):
                steps.append(token_step(ctx, tid, kind))
                if ref_table(kind)[tid][2] in IMPLEMENTED:
                    steps.append({"s": "A", "line": gen_api_line(ctx, "good", is_req=kind, force=(tid,))})
        name_kind = bool(ctx.rng.randrange(2))
        for nm in NAMES[name_kind][:: max(1, len(NAMES[name_kind]) // 4)]:
            steps.append(token_step(ctx, None, not name_kind, by_name=True, name=nm))  # a name of the other kind must stay unknown
            steps.append(token_step(ctx, None, name_kind, by_name=True, name=nm))
        steps.append({"s": "V"})
        k = not k
    return steps


class SessionState:
    def __init__(self):
        self.docs = []  # [document, text when returned, buffer, index]
        self.toks = []  # [token, text when returned, is_request, spec]
        self.lines = {}  # buffer -> canonical line of its first parse


def mutate_doc(d, how):
    ps = d.parts
    if how == "parts-clear":
        ps.clear()
    elif how == "parts-reverse":
        ps.reverse()
    elif how == "parts-dup":
        if ps:
            ps.append(ps[0])
    elif how == "parts-pop":
        if ps:
            ps.pop()
    elif how == "value-rebind":
        for p in ps:
            p.value = b"\xee" if not isinstance(p.value, bytes) else 7
    elif how == "id-rebind":
        for p in ps:
            p.token_id = 0x7F
    elif how == "attrs-rebind":
        for p in ps:
            p.attributes = [0x22]
    elif how == "type-rebind":
        for p in ps:
            p.token_type = [m for m in type(p.token_type) if m.name == "NO_VALUE"][0]
            p.length = 3
    elif how == "cdt-rebind":
        d.constants_table = b"\x00" + bytes(d.constants_table)
    elif how == "flags-flip":
        d.is_constant_table_default = not d.is_constant_table_default
        d.is_constant_table_inherited = not d.is_constant_table_inherited
    else:
        raise AssertionError(how)


def mutate_tok(t, how):
    if how == "attrs-append":
        t.attributes.append(0x63)
    elif how == "attrs-clear":
        t.attributes.clear()
    elif how == "attrs-reverse":
        t.attributes.reverse()
        t.attributes.insert(0, 0x22)
    elif how == "value-rebind":
        t.value = b"\xee" if not isinstance(t.value, bytes) else 7
    elif how == "id-rebind":
        t.token_id = 0x7F
    else:
        raise AssertionError(how)


def tok_text(t):
    try:
        return part_str(t)
    except BaseException as e:  # noqa
        return impl_error(e)


def session_step(mb, LRRP, st, step):
    """run one step on the real code: ([(kind, what, expected, actual)], [(line, implementation output)])"""
    pr, pairs = [], []
    s = step["s"]
    if s == "P":
        x = bytes.fromhex(step["x"])
        line, ds, cp = canonical_problems(mb, x, exp_unjson(step["exp"]) if step.get("exp") is not None else None)
        pr += [(kind, what + ("" if i is None else f" (document {i})"), e, a) for kind, what, e, a, i in cp]
        pairs.append((f"lrrp.parse {hx(x)}", line))
        if ds is not None:
            if x in st.lines and st.lines[x] != line:
                pr.append(("parse-depends-on-history", "the same buffer parsed differently earlier in this process", st.lines[x], line))
            st.lines.setdefault(x, line)
            snaps = line.split(" | ")
            if len(snaps) == len(ds):
                for i, d in enumerate(ds):
                    st.docs.append([d, snaps[i], x, i])
    elif s == "T":
        key, value, ad = parse_spec(step["spec"])
        r = timed(LRRP.get_token, key, value, ad, bool(step["req"]))
        txt = r if isinstance(r, str) else part_str(r)
        pairs.append((f"lrrp.token {step['req']} {step['spec']}", txt))
        if not isinstance(r, str):
            st.toks.append([r, txt, step["req"], step["spec"]])
    elif s == "A":
        out, _doc, ap, _diag = api_eval(mb, LRRP, step["line"])
        pr += [(kind, what, e, a) for kind, what, e, a, _x in ap]
        pairs.append((step["line"], out))
    elif s == "V":
        for d, snap, x, i in st.docs:
            now = doc_str(mb, d)
            if now != snap:
                pr.append(("held-document-changed", f"document {i} returned by from_bytes({x.hex()}) changed during later calls", snap, now))
        for t, snap, req, spec in st.toks:
            now = tok_text(t)
            if now != snap:
                pr.append(("held-token-changed", f"the token returned by get_token({spec}, is_request={req}) changed during later calls", snap, now))
    elif s == "MD":
        if st.docs:
            d, snap, x, i = st.docs.pop(step["r"] % len(st.docs))
            mutate_doc(d, step["how"])
            line, ds = parse_str(mb, x)
            if line != st.lines.get(x):
                pr.append(("reparse-after-mutation", f"after {step['how']} on document {i} parsed from {x.hex()} the same buffer parses differently",
                           st.lines.get(x), line))
    elif s == "MT":
        if st.toks:
            t, snap, req, spec = st.toks.pop(step["r"] % len(st.toks))
            mutate_tok(t, step["how"])
            key, value, ad = parse_spec(spec)
            r = timed(LRRP.get_token, key, value, ad, bool(req))
            now = r if isinstance(r, str) else tok_text(r)
            if now != snap:
                pr.append(("lookup-after-mutation", f"after {step['how']} on the token returned by get_token({spec}, is_request={req}) the same lookup returns something else",
                           snap, now))
    else:
        raise AssertionError(s)
    return pr, pairs


def run_session(ctx, mb, LRRP, steps, origin):
    st = SessionState()
    pairs = []
    reported = 0
    for n, step in enumerate(steps):
        pr, pp = session_step(mb, LRRP, st, step)
        pairs += pp
        ctx.count(f"session-step:{step['s']}")
        for kind, what, expected, actual in pr:
            if "hangs" in kind:
                note_hang(ctx)
            if reported < 2:  # one session, one story: the first failing steps are enough
                reported += 1
                ctx.fail(kind, {"op": "session", "origin": origin, "failed_step": n, "steps": steps[: n + 1]}, what, expected=expected, actual=actual)
    ctx.case(("session", json.dumps(steps, sort_keys=True)))
    return pairs


# ------------------------------------------------------------- malformed stream
def mutate(ctx, x: bytes) -> bytes:
    b = bytearray(x)
    for _ in range(ctx.rng.randrange(1, 4)):
        r = ctx.rng.randrange(6)
        if r == 0 and b:
            b[ctx.rng.randrange(len(b))] = ctx.rng.randrange(256)
        elif r == 1 and b:
            b[ctx.rng.randrange(len(b))] ^= 1 << ctx.rng.randrange(8)
        elif r == 2:
            b.insert(ctx.rng.randrange(len(b) + 1), ctx.rng.randrange(256))
        elif r == 3 and b:
            del b[ctx.rng.randrange(len(b))]
        elif r == 4 and len(b) > 1:
            b[1] = ctx.rng.randrange(256)  # announced length
        elif b:
            b[ctx.rng.randrange(len(b))] = pick(ctx, (0x00, 0x01, 0x7F, 0x80, 0xFF, 0x22, 0x39, 0x37))
    return bytes(b)


def check_malformed(ctx, mb, x: bytes, origin):
    line, ds = parse_str(mb, x)
    ctx.case(("mal", x), nontrivial=len(x) > 0)
    ctx.count(f"malformed:{origin}:{'ok' if ds is not None else line}")
    inp = {"op": "parse", "buffer": x.hex(), "origin": origin}
    if line == "HANG" or "HANG" in line:
        ctx.fail("parse-hangs", inp, "from_bytes / as_bytes did not terminate within the per-case alarm", actual=line)
        note_hang(ctx)
    elif ds is not None and walk_lengths(x) != len(ds):
        ctx.fail("consumed", inp, "a successful parse did not consume exactly the announced document lengths",
                 expected=walk_lengths(x), actual=len(ds))
    return (f"lrrp.parse {hx(x)}", line)


def correspond(ctx, component, pairs):
    """like ctx.correspond, but a document the model marks INEXACT (a float that is not a double) is skipped"""
    outs = ctx.drive([l for l, _ in pairs])
    bad = 0
    for (line, impl), model in zip(pairs, outs):
        if model == "INEXACT":
            ctx.count("corr-skipped:inexact-float")
            continue
        if impl != model:
            bad += 1
            if len(ctx.disagreements) < 50:
                ctx.disagreements.append({"component": component, "line": line[:4000], "impl": impl[:4000], "model": model[:4000]})
    ctx.count(f"corr:{component}", len(pairs))
    if bad:
        ctx.count(f"corr-diff:{component}", bad)


def run(ctx):
    HANGS[0] = 0
    del HELD[:], PARSED[:]
    try:
        _run(ctx)
    except Abort:
        ctx.notes.append("three inputs did not terminate within the alarm: generation stopped early")


def _run(ctx):
    logging.disable(logging.CRITICAL)
    mb, LRRP = mods()
    mb.MBXML.DEBUG = False
    ctx.rule = (
        "canonical buffers: 1-3 (sometimes 4-5) LRRP documents (all 18 LRRP document ids), 0-12 tokens drawn from the document's "
        "reference table (implemented value forms only), values at septet boundaries (request ids of 0/1/127/128/129 octets, result "
        "codes and intervals 0,127,128,16383,16384,2^28,2^32-1, altitudes/speeds with zero integer part and negative "
        "fraction, sign-septet boundaries), constant table default / inherited / inline: random octets (0,2..200) or a table the "
        "library could take for one it knows (the built default table of the document type, one octet / one bit / first / last octet "
        "changed, one octet shorter / longer, beheaded, prefix of the constants, one constant missing, two constants swapped, twice, "
        "lower case; the previous document's table spelled out instead of CDT_LEN(1), and its near misses); written by "
        "the generator's own encoder.  Sweeps: every table-carrying id x every default-like table x (alone, with tokens, followed by two "
        "inheriting documents, after an NCDT document); the would-be-inherited table after NCDT / inline / inherited documents; every "
        "implemented token in a form that has a shorter synonym or an implied value (1-octet length-prefixed value, zero result code, "
        "empty data, zero fraction, zero / all-zero values), alone and followed by another token.  Corpus first: every buffer of the "
        "LRRP/MBXML tests and the historically failing buffers.  Token API: 0-8 get_token calls by name or id with typed boundary "
        "values and attribute dicts (preset value spelled out, None, near-preset), constant table random / default / near-default.  "
        "Sessions in one process: request and report documents parsed in alternation, after each parse get_token by number for the "
        "ids both tables define (all ten of them in the alternation sessions, for the opposite and the own kind) and by name (names of "
        "either kind with either flag), documents assembled from those tokens and parsed back, every returned document / token held "
        "and re-verified, a returned document / token mutated (list operations, attribute rebinding) and the same call repeated.  "
        "Every canonical document parsed in the run is held and re-verified during and at the end of the run.  "
        "Malformed: every truncation of corpus/generated buffers, byte mutations, random octets, each under a 2 s alarm.  "
        "A case is non-trivial unless the buffer is empty; distinct = distinct buffers / API call sequences / sessions."
    )
    ctx.trusted_base += [
        "Lean 4.33 kernel",
        "tools/extract_lrrp.py + tools/extract_mbxml.py (tables read from the live classes on this run)",
        "hand-written model of from_bytes / read_document / write_part / as_bytes / get_token / get_attribute (Model/Lrrp.lean, on "
        "top of Model/Mbxml.lean), tied to the code by this run's correspondence",
        "the reference token tables frozen in harness/props/c15_ref.json and Lemmas/LrrpRef.lean define what the LRRP tokens are",
        "floats are exact dyadic rationals in the model; documents holding a float that is not a double are not compared (INEXACT)",
    ]
    ctx.assumptions += [
        "canonical form = shortest uintvar / sintvar, one-septet fraction, negative zero excluded, inline constant table length != 1",
        "token API: the document id's NCDT flag agrees with the constant-table setting of the assembled document",
    ]
    pairs = []
    # ---- corpus
    for h in captured_messages():
        x = bytes.fromhex(h)
        line, ds = parse_str(mb, x)
        if ds is None:
            pairs.append((f"lrrp.parse {hx(x)}", line))  # a string literal that is not a buffer: correspondence only
            ctx.case(("lit", h))
            continue
        ctx.case(("corpus", h), sample={"op": "from_bytes/as_bytes", "buffer": h} if len(ctx.samples) < 2 else None)
        ctx.count("corpus:captured-message")
        pairs.append(check_canonical(ctx, mb, x, None, "captured"))
    for h in HISTORIC:
        x = bytes.fromhex(h)
        ctx.case(("historic", h))
        ctx.count("corpus:historic")
        pairs.append(check_canonical(ctx, mb, x, None, "historic"))
    # several captured messages in one buffer
    caps = [bytes.fromhex(h) for h in captured_messages() if parse_str(mb, bytes.fromhex(h))[1] is not None]
    for _ in range(ctx.budget(40, 1000)):
        x = b"".join(pick(ctx, caps) for _ in range(ctx.rng.randrange(2, 4)))
        ctx.case(("multi", x))
        ctx.count("corpus:concatenated")
        pairs.append(check_canonical(ctx, mb, x, None, "captured-concatenated"))
    # ---- values the sender spells out although the library knows them as a default
    for x, exp, origin in default_table_sweep(ctx):
        ctx.case(("default-table", x))
        ctx.count("generated:default-like-inline-table")
        pairs.append(check_canonical(ctx, mb, x, exp, origin))
    for x, exp, origin in synonym_sweep(ctx):
        ctx.case(("synonym", x))
        ctx.count("generated:explicit-form-with-shorter-synonym")
        pairs.append(check_canonical(ctx, mb, x, exp, origin))
    # ---- grammar-based canonical buffers
    gen = []
    for n in range(ctx.budget(2000, 100000)):
        x, exp = gen_buffer(ctx)
        gen.append(x)
        ctx.case(("gen", x), sample={"op": "from_bytes/as_bytes", "buffer": x.hex(), "documents": len(exp)} if n < 2 else None)
        pairs.append(check_canonical(ctx, mb, x, exp, "generated"))
        if n % 500 == 499:
            verify_held(ctx, mb, every=7)
    # every token of every reference table at least once, alone in a document
    for did in LRRP_DOCS:
        d = REF["docs"][str(did)]
        for tok in REF["tables"][d["table"]]:
            if tok[2] not in IMPLEMENTED:
                continue
            for _ in range(3):
                o, e = gen_token(ctx, tok)
                cdt_oct = b"" if d["ncdt"] else b"\x00"
                body = cdt_oct + o
                x = enc_u(did) + enc_u(len(body)) + body
                ctx.case(("single", x))
                ctx.count("generated:single-token-documents")
                pairs.append(check_canonical(ctx, mb, x, [{"id": did, "cdt": DEFAULT_CDT if d["ncdt"] else b"", "segment": x, "parts": [e], "mode": "x"}], "single-token"))
    # ---- every document parsed so far is still what it was
    verify_held(ctx, mb)
    if not ctx.search_only and ctx.driver_ok:
        correspond(ctx, "from_bytes+as_bytes(canonical)", pairs)
    # ---- sessions
    spairs = []
    for first in (True, False):
        for with_table in (False, True):
            spairs += run_session(ctx, mb, LRRP, alternation_session(ctx, first, with_table), "alternation")
            ctx.count("session:alternation-every-shared-id")
    for n in range(ctx.budget(250, 8000)):
        spairs += run_session(ctx, mb, LRRP, gen_session(ctx), "random")
        ctx.count("session:random")
    verify_held(ctx, mb)
    if not ctx.search_only and ctx.driver_ok:
        correspond(ctx, "session(from_bytes, get_token, as_bytes interleaved)", spairs)
    # ---- token lookup API
    apairs = []
    for n in range(ctx.budget(1500, 60000)):
        mode = "good" if n % 4 else "any"
        line, out, doc = api_case(ctx, mb, LRRP, mode)
        ctx.case(("api", line), sample={"op": "get_token/as_bytes/from_bytes", "line": line[:300]} if n < 2 else None)
        apairs.append((line, out))
    for k, v in (("result-code", 5), ("result-code", 0), ("result-code", None), ("#34", 7), ("#35", 0), ("#35", 1), ("ret-info-accuracy", 73),
                 ("ret-info-accuracy", None), ("ret-info-time", 73), ("ret-info-time", 1), ("#85", 73), ("nonexistant", None), ("#99", 1)):
        key = int(k[1:]) if k.startswith("#") else k
        r = timed(LRRP.get_attribute, key, v)
        apairs.append((f"lrrp.attr {k} {'N' if v is None else v}", r if isinstance(r, str) else f"{r[0].token_id} {1 if r[1] else 0}"))
        ctx.case(("attr", k, v))
    for spec, req in (("nonexistant~N~-", 1), ("result~B~result-code=0", 0), ("result~B~#35=0", 0), ("result~B~#35=1", 0), ("#57~B6162~result-code=1+#34=2", 0),
                      ("ret-info~N~ret-info-accuracy=73", 1), ("ret-info~N~ret-info-time=73", 1), ("ret-info~N~ret-info-accuracy=73+ret-info-time=73", 1),
                      ("ret-info~N~ret-info-no-req-id=73", 1), ("ret-info~N~-", 1), ("request-id~B01~nonexistant=1", 1), ("#36~B~-", 1), ("info-time~B0102030405~-", 0),
                      ("info-time~B0102030405~-", 1)):
        k, v, a = spec.split("~")
        key = int(k[1:]) if k.startswith("#") else k
        val = None if v == "N" else bytes.fromhex(v[1:])
        ad = {} if a == "-" else {(int(p.split("=")[0][1:]) if p.startswith("#") else p.split("=")[0]): int(p.split("=")[1]) for p in a.split("+")}
        r = timed(LRRP.get_token, key, val, ad, bool(req))
        apairs.append((f"lrrp.token {req} {spec}", r if isinstance(r, str) else part_str(r)))
        ctx.case(("token", spec, req))
    if not ctx.search_only and ctx.driver_ok:
        correspond(ctx, "get_token+as_bytes", apairs)
    # ---- malformed stream
    mpairs = []
    seeds = [bytes.fromhex(h) for h in HISTORIC] + caps[:6] + gen[: ctx.budget(6, 60)]
    for x in seeds:
        ks = range(len(x)) if len(x) <= 256 else sorted(set(range(64)) | set(range(len(x) - 64, len(x)))
                                                        | {ctx.rng.randrange(len(x)) for _ in range(128)})
        for k in ks:
            mpairs.append(check_malformed(ctx, mb, x[:k], "truncation"))
    for _ in range(ctx.budget(1500, 60000)):
        mpairs.append(check_malformed(ctx, mb, mutate(ctx, pick(ctx, caps + gen[:200])), "mutation"))
    for _ in range(ctx.budget(1500, 60000)):
        n = ctx.rng.randrange(0, 24)
        x = rbytes(ctx, n)
        if n >= 2 and ctx.rng.randrange(4):
            x = bytes([pick(ctx, LRRP_DOCS + [0, 0x16, 0x27, 0x28, 0x80]), ctx.rng.randrange(0, n + 2)]) + x[2:]
        mpairs.append(check_malformed(ctx, mb, x, "random"))
    if not ctx.search_only and ctx.driver_ok:
        correspond(ctx, "from_bytes+as_bytes(malformed)", mpairs)
    # the documents parsed at the beginning, after everything else the run did in this process
    verify_held(ctx, mb)
    ctx.exhaustive = False


def replay(obj):
    import subprocess

    from common import BIN

    logging.disable(logging.CRITICAL)
    mb, LRRP = mods()
    f = obj.get("failure") or {}
    inp = f.get("input", {})
    print(json.dumps(obj.get("type")), f.get("what"))
    for d in (obj.get("correspondence_differences") or [])[:5]:
        print("correspondence difference:", d)
    still = 1
    lines = []
    if inp.get("op") == "parse":
        x = bytes.fromhex(inp["buffer"])
        line, ds = parse_str(mb, x)
        print(f"implementation from_bytes({inp['buffer']}) -> {line}")
        lines.append(f"lrrp.parse {hx(x)}")
        if ds is not None:
            segs = [timed(mb.MBXML.as_bytes, d) for d in ds]
            ok = all(not isinstance(s, str) for s in segs) and b"".join(segs) == x and walk_lengths(x) == len(ds)
            print("re-serialised:", "".join(s if isinstance(s, str) else s.hex() for s in segs))
            if f.get("kind") == "token-values" and len(ds) > inp.get("document", 0):
                print("expected:", f.get("expected"))
                ok = ok and str(f.get("expected")) == str(
                    [(p.token_id, val_str(p), [attr_str(a) for a in p.attributes if not isinstance(a, int)]) for p in ds[inp.get("document", 0)].parts])
            if f.get("kind") == "constant-table" and len(ds) > inp.get("document", 0):
                print("expected constant table:", f.get("expected"))
                ok = ok and f.get("expected") == bytes(ds[inp.get("document", 0)].constants_table).hex()
            still = 0 if ok and f.get("kind") not in ("parse-hangs",) else 1
            if f.get("kind") in ("consumed", "parse-hangs") and line != "HANG":
                still = 0 if walk_lengths(x) == len(ds) else 1
        else:
            still = 1 if f.get("kind") not in ("consumed",) else 0
            if f.get("kind") == "parse-hangs":
                still = 1 if line == "HANG" else 0
    elif inp.get("op") == "api":
        lines.append(inp["line"])
        out, doc, pr, diag = api_eval(mb, LRRP, inp["line"])
        print("implementation assembled", out)
        for kind, what, expected, actual, extra in pr:
            print(f"  {kind}: {what}\n    expected {expected}\n    actual   {actual} {extra}")
        if "without_tokens" in inp:
            still = 1 if any(k == "api-roundtrip-rest" for k, *_ in pr) else 0
        else:
            still = 1 if any(k != "api-roundtrip-rest" for k, *_ in pr) else 0
    elif inp.get("op") == "session":
        st = SessionState()
        still = 0
        for n, step in enumerate(inp["steps"]):
            pr, pp = session_step(mb, LRRP, st, step)
            lines += [l for l, _ in pp]
            for l, o in pp:
                print(f"step {n} implementation {l[:160]} -> {o[:300]}")
            for kind, what, expected, actual in pr:
                still = 1
                print(f"step {n} {step['s']}: {kind}: {what}\n    expected {expected}\n    actual   {actual}")
    elif inp.get("op") == "hold":
        x = bytes.fromhex(inp["first"])
        line, ds = parse_str(mb, x)
        still = 0
        if ds is not None and len(ds) > inp.get("document", 0):
            d = ds[inp.get("document", 0)]
            snap = doc_str(mb, d)
            for h in inp.get("then", []):
                timed(mb.MBXML.from_bytes, bytes.fromhex(h))
                now = doc_str(mb, d)
                if now != snap:
                    print(f"after from_bytes({h}) the document held from from_bytes({inp['first']}) reads\n    {now}\n  instead of\n    {snap}")
                    still = 1
                    break
    exe = os.path.join(BIN, "drv_c15")
    if lines and os.path.exists(exe):
        out = subprocess.run([exe], input="\n".join(lines) + "\n", capture_output=True, text=True).stdout.split("\n")
        for l, o in zip(lines, out):
            print(f"model          {l[:200]} -> {o}")
    print("expected:", f.get("expected"), "actual:", f.get("actual"))
    return still
