"""C15 — LRRP/MBXML documents re-serialise to the bytes they were parsed from (DESIGN §5 C15).

Generators write canonical buffers with an encoder of their own (plain base-128, sign in bit 6, one-septet
fractions) from the *reference* token tables frozen in c15_ref.json (what the LRRP tokens are), so a change
of a table or of a codec in /repo shows up as a failing input.  Oracle on the real code:
as_bytes(from_bytes(x)[i]) concatenated == x, every document's own segment, token ids / values / explicit
attribute values / constant tables as generated; documents assembled through get_token parse back to the
same ids and values; every input terminates (per-case alarm) and a successful parse consumed exactly the
announced lengths.  Correspondence: from_bytes + as_bytes and get_token + as_bytes against the Lean model.

Hardening (round 2): values the format lets a sender spell out although the library knows them as a default
(inline constant table = the built default table and its near misses, inline table = the table that would
be inherited, attribute given with its preset value / None, tokens that have a shorter synonym, zero
fractions, zero result codes), sessions in ONE process that alternate request and report documents with
by-number / by-name lookups and assemblies in between (every token id shared by both tables, by number,
after a parse of the opposite kind), parsed documents and looked-up tokens held across later calls and
re-verified, mutation of a returned object followed by a fresh call.

Hardening (round 3).  History class "read-only use": between from_bytes and as_bytes the SAME documents and tokens are
used through every accessor that looks read-only (as_xml of the document and of single parts, get_attributes, get_value,
repr / str / format, len / iteration / comparison / hash, an attribute scan that runs every property, copy / deepcopy /
pickle of documents and parts (the copies are serialised too), write_part / as_bytes themselves, get_configuration /
build_constants_table, lookups in the document's own tables, get_token by id / by name / with the part's attributes /
for the other kind, get_attribute), any number of times and in any order; afterwards as_bytes must give the octets that
were parsed, the documents must read like a fresh parse (also sent through the model, which has no state), copies must
serialise like the original and a fresh parse of the same buffer must be unchanged.  Sweep: every implemented token x
every accessor on a never-serialised document; captured / historic buffers rendered with as_xml; random sequences on
random 1-3 document buffers; documents assembled through get_token (with and without the configuration tables); steps
R / RT inside the sessions; failing calls (malformed parse with and without debug output, as_bytes of a broken document,
failing lookups) as steps X between the others (error-path state).  Ambient class "interpreter / process state": a
fixed, seeded sample of the whole oracle (captured, historic, every implemented token alone, explicit forms, default-like
tables, random buffers, API assemblies, read-only histories) is evaluated again with the logging system switched on
(root and library loggers at DEBUG / NOTSET / INFO ..., a handler that formats every record), with sys.stdout / sys.stderr
broken (write raises, closed, None, ASCII-only), with warnings as errors, the global random generator reseeded before
every item, in a worker thread, with from_bytes(debug=True); and in ONE child interpreter per mode (python -O;
PYTHONOPTIMIZE=2 whose first calls are failing ones; each with another PYTHONHASHSEED) that gets the items and the
parent's results as JSON files and reports what differs.  Also: the same octets given as a bytearray that the caller
overwrites afterwards; one buffer of 1200 documents and one document of 2500 tokens.
"""
import atexit
import contextlib
import copy
import errno
import io
import json
import logging
import math
import os
import pickle
import random
import re
import signal
import subprocess
import sys
import tempfile
import threading
import time
import warnings
from xml.dom import minidom

from common import impl_error, Infra

PROP = "C15"
MODULES = ["C15"]
GEN = ["Mbxml", "Lrrp"]

HERE = os.path.dirname(os.path.abspath(__file__))
REF = json.load(open(os.path.join(HERE, "c15_ref.json")))
IMPLEMENTED = {"OPAQUE_I", "INFO_TIME", "UINT8", "NO_VALUE", "UFLOATVAR", "SFLOATVAR", "UINTVAR", "CIRCLE_2D", "POINT_2D", "POINT_3D"}
LRRP_DOCS = sorted(int(k) for k, v in REF["docs"].items() if v["impl"] == "lrrp")
DEFAULT_CDT = bytes.fromhex(REF["constants_built"])
ATTR_BY_ID = {a[0]: a for a in REF["attributes"]}
U_MAX = 2**32 - 1
S_MAX = 2**31 - 1


class Hang(BaseException):
    pass


class Abort(Exception):
    """enough non-terminating inputs were found: stop generating (each one costs a full alarm)"""


HANGS = [0]


def note_hang(ctx):
    HANGS[0] += 1
    if HANGS[0] >= 3:
        raise Abort()


def _alarm(signum, frame):
    raise Hang()


def timed(fn, *a, seconds=2.0):
    """run fn under an alarm; returns value | 'ERR <Class>' | 'HANG'"""
    if threading.current_thread() is not threading.main_thread():  # signals belong to the main thread: no alarm here
        try:
            return fn(*a)
        except BaseException as e:  # noqa
            return impl_error(e)
    old = signal.signal(signal.SIGALRM, _alarm)
    signal.setitimer(signal.ITIMER_REAL, seconds)
    try:
        return fn(*a)
    except Hang:
        return "HANG"
    except BaseException as e:  # noqa
        return impl_error(e)
    finally:
        signal.setitimer(signal.ITIMER_REAL, 0)
        signal.signal(signal.SIGALRM, old)


def mods():
    from okdmr.dmrlib.motorola import mbxml
    from okdmr.dmrlib.motorola.lrrp import LRRP

    return mbxml, LRRP


def hx(b: bytes) -> str:
    return b.hex() if len(b) else "-"


# ------------------------------------------------------------- canonical text of what the code returns
def dy_str(x: float) -> str:
    n, d = abs(x).as_integer_ratio()
    return f"{'-' if math.copysign(1.0, x) < 0 else ''}{n}/{d.bit_length() - 1}"


def val_str(part) -> str:
    v = part.value
    t = part.token_type.name
    if v is None:
        return "N"
    if isinstance(v, (bytes, bytearray)):
        return "B" + bytes(v).hex()
    if isinstance(v, bool):
        return f"?{v!r}"
    if isinstance(v, int):
        return f"I{v}"
    if isinstance(v, float):
        return "F" + dy_str(v)
    if isinstance(v, tuple):
        if t == "CIRCLE_2D" and len(v) == 3:
            return f"C{v[0].hex()}/{v[1].hex()}/{dy_str(v[2])}"
        if t == "POINT_3D" and len(v) == 3:
            return f"Q{v[0].hex()}/{v[1].hex()}/{dy_str(v[2])}"
        if len(v) == 2:
            return f"P{v[0].hex()}/{v[1].hex()}"
    return f"?{type(v).__name__}"


def attr_str(a) -> str:
    if isinstance(a, int):
        return f"i{a}"
    return f"a{a.name}={a.value}"


def part_str(p) -> str:
    ln = "n" if p.length is None else str(p.length)
    return f"{p.token_id}:{p.token_type.name}:{ln}:{'+'.join(attr_str(a) for a in p.attributes)}:{val_str(p)}"


def doc_str(mb, d) -> str:
    b = timed(mb.MBXML.as_bytes, d)
    return (
        f"D{d.id.value[0]};cdt={hx(d.constants_table)};def={1 if d.is_constant_table_default else 0}"
        f";inh={1 if d.is_constant_table_inherited else 0};parts={','.join(part_str(p) for p in d.parts)}"
        f";bytes={b if isinstance(b, str) else hx(b)}"
    )


PARSE_DEBUG = [False]  # True: every parse of the harness is from_bytes(x, debug=True) (what it prints goes to a sink)


def from_bytes(mb, x: bytes):
    if PARSE_DEBUG[0]:
        return mb.MBXML.from_bytes(x, debug=True)
    return mb.MBXML.from_bytes(x)


def parse_str(mb, x: bytes):
    """(canonical line, documents | None)"""
    ds = timed(from_bytes, mb, x)
    if isinstance(ds, str):
        return ds, None
    return " | ".join(doc_str(mb, d) for d in ds), ds


# ------------------------------------------------------------- the generator's own canonical encoder
def enc_u(v: int) -> bytes:
    out = [v & 0x7F]
    v >>= 7
    while v:
        out.append((v & 0x7F) | 0x80)
        v >>= 7
    return bytes(reversed(out))


def enc_s(mag: int, neg: bool) -> bytes:
    s = [mag & 0x7F]
    mag >>= 7
    while mag:
        s.append(mag & 0x7F)
        mag >>= 7
    s.reverse()
    if s[0] >= 64:
        s.insert(0, 0)
    if neg:
        s[0] |= 0x40
    return bytes([x | 0x80 for x in s[:-1]] + [s[-1]])


def walk_lengths(x: bytes):
    """independent walk over the announced lengths: number of documents if the walk ends exactly at len(x)"""
    i, n = 0, 0
    while i < len(x):
        for _ in range(2):  # id, length
            v = 0
            while True:
                if i >= len(x):
                    return None
                b = x[i]
                i += 1
                v = v * 128 + (b & 0x7F)
                if not b & 0x80:
                    break
        i += v
        n += 1
    return n if i == len(x) else None


UINT_EDGE = [0, 1, 5, 60, 127, 128, 129, 255, 256, 16383, 16384, 16385, 2**21 - 1, 2**21, 2**28 - 1, 2**28, U_MAX - 1, U_MAX]
SINT_EDGE = [0, 1, 63, 64, 65, 127, 128, 440, 8191, 8192, 8193, 2**20 - 1, 2**20, 2**27, S_MAX - 1, S_MAX]
LEN_EDGE = [0, 1, 2, 4, 4, 4, 16, 127, 128, 129]


def rbytes(ctx, n):
    return bytes(ctx.rng.randrange(256) for _ in range(n))


def pick(ctx, seq):
    return seq[ctx.rng.randrange(len(seq))]


def gen_uint(ctx):
    if ctx.rng.randrange(3):
        return pick(ctx, UINT_EDGE)
    bl = ctx.rng.randrange(1, 33)
    return ctx.rng.randrange(2 ** (bl - 1), 2**bl)


def gen_ufloat(ctx):
    i = gen_uint(ctx)
    f = pick(ctx, (0, 1, 6, 10, 63, 64, 99, 127)) if ctx.rng.randrange(2) else ctx.rng.randrange(128)
    return i, f


def gen_sfloat(ctx):
    i = pick(ctx, SINT_EDGE) if ctx.rng.randrange(3) else ctx.rng.randrange(0, S_MAX + 1)
    f = pick(ctx, (0, 1, 10, 21, 64, 127)) if ctx.rng.randrange(2) else ctx.rng.randrange(128)
    neg = bool(ctx.rng.randrange(2)) and (i, f) != (0, 0)
    if ctx.rng.randrange(6) == 0:  # altitude / speed with zero integer part and negative fraction
        i, neg, f = 0, True, max(f, 1)
    return neg, i, f


def fl(neg, i, f):
    return (-1.0 if neg else 1.0) * (i + f / 128)


def gen_value(ctx, tok):
    """a value of the right shape for the token (generator's own representation, see enc_token)"""
    tid, _name, ty, length, attrs = tok
    if ty == "OPAQUE_I":
        if length:
            return ([], rbytes(ctx, length))
        if length == 0:
            return ([], b"")
        codes = [gen_uint(ctx) for _ in attrs]
        n = pick(ctx, LEN_EDGE) if ctx.rng.randrange(40) else pick(ctx, (300, 16383, 16384))
        ctx.count(f"opaque-len:{'0' if n == 0 else '1..127' if n < 128 else '>=128'}")
        return (codes, rbytes(ctx, n))
    if ty == "INFO_TIME":
        return rbytes(ctx, 5)
    if ty == "UINT8":
        return pick(ctx, (0, 1, 127, 128, 162, 255)) if ctx.rng.randrange(2) else ctx.rng.randrange(256)
    if ty == "NO_VALUE":
        return None
    if ty == "UINTVAR":
        n = gen_uint(ctx)
        ctx.count(f"uintvar-septets:{len(enc_u(n))}")
        return n
    if ty == "UFLOATVAR":
        return gen_ufloat(ctx)
    if ty == "SFLOATVAR":
        v = gen_sfloat(ctx)
        if v[0] and v[1] == 0:
            ctx.count("negative-fraction-zero-integer")
        return v
    if ty == "CIRCLE_2D":
        return (rbytes(ctx, 4), rbytes(ctx, 4), gen_ufloat(ctx))
    if ty == "POINT_2D":
        return (rbytes(ctx, 4), rbytes(ctx, 4))
    if ty == "POINT_3D":
        v = gen_sfloat(ctx)
        if v[0] and v[1] == 0:
            ctx.count("negative-fraction-zero-integer")
        return (rbytes(ctx, 4), rbytes(ctx, 4), v)
    raise AssertionError(ty)


def enc_token(tok, v):
    """canonical octets of one token + what the parser must report: (octets, (id, value text, [attr text]))"""
    tid, _name, ty, length, attrs = tok
    head = bytes([tid])
    ats = []
    if ty == "OPAQUE_I":
        codes, data = v
        if length:
            assert len(data) == length
            return head + data, (tid, "B" + data.hex(), ats)
        if length == 0:
            return head, (tid, "B", ats)
        body = b""
        for a, rc in zip(attrs, codes):
            body += enc_u(rc)
            ats.append(f"a{ATTR_BY_ID[a][1]}={rc}")
        return head + body + enc_u(len(data)) + data, (tid, "B" + data.hex(), ats)
    if ty == "INFO_TIME":
        return head + v, (tid, "B" + v.hex(), ats)
    if ty == "UINT8":
        return head + bytes([v]), (tid, f"I{v}", ats)
    if ty == "NO_VALUE":
        return head, (tid, "N", ats)
    if ty == "UINTVAR":
        return head + enc_u(v), (tid, f"I{v}", ats)
    if ty == "UFLOATVAR":
        i, f = v
        return head + enc_u(i) + bytes([f]), (tid, "F" + dy_str(fl(False, i, f)), ats)
    if ty == "SFLOATVAR":
        neg, i, f = v
        return head + enc_s(i, neg) + bytes([f]), (tid, "F" + dy_str(fl(neg, i, f)), ats)
    if ty == "CIRCLE_2D":
        la, lo, (i, f) = v
        return head + la + lo + enc_u(i) + bytes([f]), (tid, f"C{la.hex()}/{lo.hex()}/{dy_str(fl(False, i, f))}", ats)
    if ty == "POINT_2D":
        la, lo = v
        return head + la + lo, (tid, f"P{la.hex()}/{lo.hex()}", ats)
    if ty == "POINT_3D":
        la, lo, (neg, i, f) = v
        return head + la + lo + enc_s(i, neg) + bytes([f]), (tid, f"Q{la.hex()}/{lo.hex()}/{dy_str(fl(neg, i, f))}", ats)
    raise AssertionError(ty)


def gen_token(ctx, tok):
    return enc_token(tok, gen_value(ctx, tok))


def cdt_items(t: bytes):
    """the length-value items of a constant table"""
    out, i = [], 0
    while i < len(t):
        out.append(t[i : i + 1 + t[i]])
        i += 1 + t[i]
    return out


DEFAULT_ITEMS = cdt_items(DEFAULT_CDT)
TABLE_IDS = [d for d in LRRP_DOCS if not REF["docs"][str(d)]["ncdt"]]
NCDT_IDS = [d for d in LRRP_DOCS if REF["docs"][str(d)]["ncdt"]]
SPECIAL_TABLES = ("default", "default-1oct", "default-1bit", "default-first-oct", "default-last-oct", "default-trunc", "default-ext",
                  "default-behead", "default-prefix", "default-minus-item", "default-reordered", "default-twice", "default-lower",
                  "same-as-previous", "previous-1oct", "previous-ext")


def special_table(ctx, label, prev_cdt):
    """an inline constant table the library could mistake for one it already knows: the built default table
    of the document type, its near misses, tables built like it from other constants, the previous
    document's table spelled out instead of CDT_LEN(1)"""
    d = bytearray(DEFAULT_CDT)
    if label == "default":
        t = bytes(d)
    elif label == "default-1oct":
        d[ctx.rng.randrange(len(d))] ^= ctx.rng.randrange(1, 256)
        t = bytes(d)
    elif label == "default-1bit":
        d[ctx.rng.randrange(len(d))] ^= 1 << ctx.rng.randrange(8)
        t = bytes(d)
    elif label == "default-first-oct":
        d[0] ^= ctx.rng.randrange(1, 256)
        t = bytes(d)
    elif label == "default-last-oct":
        d[-1] ^= ctx.rng.randrange(1, 256)
        t = bytes(d)
    elif label == "default-trunc":
        t = bytes(d[:-1])
    elif label == "default-ext":
        t = bytes(d) + rbytes(ctx, 1)
    elif label == "default-behead":
        t = bytes(d[1:])
    elif label == "default-prefix":  # the table another document type with fewer constants would have
        t = b"".join(DEFAULT_ITEMS[: ctx.rng.randrange(1, len(DEFAULT_ITEMS))])
    elif label == "default-minus-item":
        k = ctx.rng.randrange(len(DEFAULT_ITEMS))
        t = b"".join(DEFAULT_ITEMS[:k] + DEFAULT_ITEMS[k + 1 :])
    elif label == "default-reordered":
        it = list(DEFAULT_ITEMS)
        i, j = ctx.rng.randrange(len(it)), ctx.rng.randrange(len(it) - 1)
        j += j >= i
        it[i], it[j] = it[j], it[i]
        t = b"".join(it)
    elif label == "default-twice":
        t = bytes(d) * 2
    elif label == "default-lower":
        t = bytes(d).lower()
    elif label == "same-as-previous":
        t = prev_cdt if prev_cdt is not None else b""
    elif label == "previous-1oct":
        t = bytearray(prev_cdt if prev_cdt else b"\x00\x00")
        t[ctx.rng.randrange(len(t))] ^= ctx.rng.randrange(1, 256)
        t = bytes(t)
    elif label == "previous-ext":
        t = (prev_cdt if prev_cdt is not None else b"") + rbytes(ctx, 1)
    else:
        raise AssertionError(label)
    if len(t) == 1:  # CDT_LEN(1) is the inheritance marker, not a table of one octet
        t = t + b"\x00"
    return t


def gen_doc(ctx, did, prev_cdt, cdt_mode=None, ntok=None, toks=None):
    """one canonical document: (segment octets, expected)
    cdt_mode: None = random | 'inherited' | 'inline' (random octets) | a SPECIAL_TABLES label | bytes (that very table inline)"""
    d = REF["docs"][str(did)]
    if toks is None:
        toks = [t for t in REF["tables"][d["table"]] if t[2] in IMPLEMENTED]
    if d["ncdt"]:
        cdt_oct, cdt, mode = b"", DEFAULT_CDT, "default"
    else:
        if cdt_mode is None:
            r = ctx.rng.randrange(20)
            cdt_mode = "inherited" if r < 9 else "inline" if r < 15 else pick(ctx, SPECIAL_TABLES)
        if cdt_mode == "inherited":
            cdt_oct, mode = b"\x01", "inherited"
            cdt = prev_cdt if prev_cdt is not None else b""
        elif cdt_mode == "inline":
            n = pick(ctx, (0, 2, 3, 5, 5, 9, len(DEFAULT_CDT), 127, 128, 200))
            cdt = rbytes(ctx, n)
            cdt_oct, mode = enc_u(n) + cdt, "inline"
        else:
            if isinstance(cdt_mode, bytes):
                cdt, mode = cdt_mode, "inline:given"
            else:
                cdt, mode = special_table(ctx, cdt_mode, prev_cdt), "inline:" + cdt_mode
            cdt_oct = enc_u(len(cdt)) + cdt
    ctx.count(f"cdt:{mode}")
    body = cdt_oct
    parts = []
    k = ntok if ntok is not None else ctx.rng.randrange(0, 13)
    for _ in range(k):
        tok = pick(ctx, toks)
        o, e = gen_token(ctx, tok)
        body += o
        parts.append(e)
        ctx.count(f"token-type:{tok[2]}")
    seg = enc_u(did) + enc_u(len(body)) + body
    return seg, {"id": did, "cdt": cdt, "segment": seg, "parts": parts, "mode": mode}


def gen_buffer(ctx, ndocs=None, ntok=None, kinds=None, cdt_modes=None, dids=None):
    """(octets, [expected document]) with expected = dict(id, cdt, segment, parts)
    kinds: restrict the document ids to these reference tables ('t0' request, 't1' answer/report, 't2' common only)"""
    ndocs = ndocs or (pick(ctx, (1, 1, 2, 3)) if ctx.rng.randrange(25) else pick(ctx, (4, 5)))
    ids = LRRP_DOCS if kinds is None else [d for d in LRRP_DOCS if REF["docs"][str(d)]["table"] in kinds]
    buf = b""
    exp = []
    prev_cdt = None
    for n in range(ndocs):
        did = dids[n] if dids else pick(ctx, ids)
        seg, e = gen_doc(ctx, did, prev_cdt, cdt_mode=cdt_modes[n] if cdt_modes else None, ntok=ntok)
        buf += seg
        exp.append(e)
        prev_cdt = e["cdt"]
    ctx.count(f"documents-per-buffer:{ndocs}")
    return buf, exp


def canonical_problems(mb, x: bytes, exp):
    """the property on one canonical buffer: (canonical line, documents | None, [(kind, what, expected, actual, document index | None)])"""
    line, ds = parse_str(mb, x)
    pr = []
    if ds is None:
        pr.append(("parse-raises" if line != "HANG" else "parse-hangs", f"from_bytes raised {line} on a canonical buffer", "documents", line, None))
        return line, None, pr
    if exp is not None and len(ds) != len(exp):
        pr.append(("document-count", f"{len(ds)} documents parsed, {len(exp)} written", len(exp), len(ds), None))
        return line, ds, pr
    segs = [timed(mb.MBXML.as_bytes, d) for d in ds]
    if any(isinstance(b, str) for b in segs):
        pr.append(("serialise-raises", f"as_bytes raised {[b for b in segs if isinstance(b, str)][0]} on a parsed document", None, str(segs), None))
    elif b"".join(segs) != x:
        pr.append(("reserialise", "as_bytes of the parsed documents differs from the buffer they were parsed from", x.hex(), b"".join(segs).hex(), None))
    if walk_lengths(x) != len(ds):
        pr.append(("consumed", "the parser did not consume exactly the announced document lengths", walk_lengths(x), len(ds), None))
    if exp is not None:
        for i, (d, e) in enumerate(zip(ds, exp)):
            got = [(p.token_id, val_str(p), [attr_str(a) for a in p.attributes if not isinstance(a, int)]) for p in d.parts]
            want = [(t, v, list(a)) for (t, v, a) in e["parts"]]
            if d.id.value[0] != e["id"] or got != want:
                pr.append(("token-values", "token ids / values of the parsed document differ from what was written", str(want), str(got), i))
            if bytes(d.constants_table) != e["cdt"]:
                pr.append(("constant-table", f"constant table of the parsed document ({e['mode']}) is wrong", e["cdt"].hex(), bytes(d.constants_table).hex(), i))
            if not isinstance(segs[i], str) and segs[i] != e["segment"]:
                pr.append(("reserialise", "as_bytes of one parsed document differs from its own octets", e["segment"].hex(), segs[i].hex(), i))
    return line, ds, pr


# parsed documents kept alive while the run goes on: [document, canonical text at parse time, buffer, index in it, number of the parse]
HELD = []
PARSED = []  # every canonical buffer parsed so far, in order (for the search of the call that changed a held document)
HELD_MAX = 6000


def hold(ctx, x, ds, line):
    snaps = line.split(" | ")
    if len(snaps) != len(ds):
        return
    for i, d in enumerate(ds):
        item = [d, snaps[i], x, i, len(PARSED) - 1]
        if len(HELD) < HELD_MAX:
            HELD.append(item)
        else:
            HELD[ctx.rng.randrange(HELD_MAX)] = item


def check_canonical(ctx, mb, x: bytes, exp, origin, keep=True):
    """the property on one canonical buffer; returns the correspondence pair"""
    line, ds, pr = canonical_problems(mb, x, exp)
    inp = {"op": "parse", "buffer": x.hex(), "origin": origin}
    for kind, what, expected, actual, i in pr:
        ctx.fail(kind, inp if i is None else dict(inp, document=i), what, expected=expected, actual=actual)
        if kind == "parse-hangs":
            note_hang(ctx)
    PARSED.append(x)
    if keep and ds is not None and not pr:
        hold(ctx, x, ds, line)
    return (f"lrrp.parse {hx(x)}", line)


def verify_held(ctx, mb, every=1):
    """every document parsed earlier and still referenced must be what it was when it was parsed"""
    bad = 0
    for n, (d, snap, x, i, at) in enumerate(HELD):
        if n % every:
            continue
        ctx.count("held:document-reverified")
        now = doc_str(mb, d)
        if now == snap:
            continue
        bad += 1
        if bad > 3:
            continue
        # which later parse changed it?  replay the pair (first, later) for each later buffer
        then = None
        for y in PARSED[at + 1 : at + 1 + 400]:
            ds0 = timed(mb.MBXML.from_bytes, x)
            if isinstance(ds0, str) or len(ds0) <= i:
                break
            s0 = doc_str(mb, ds0[i])
            timed(mb.MBXML.from_bytes, y)
            if doc_str(mb, ds0[i]) != s0:
                then = [y.hex()]
                break
        if then is None:
            then = [y.hex() for y in PARSED[at + 1 :][-40:]]
        ctx.fail("held-document-changed", {"op": "hold", "first": x.hex(), "document": i, "then": then},
                 "a document returned by from_bytes changed while later buffers were parsed", expected=snap, actual=now)
    return bad


# ------------------------------------------------------------- defaults spelled out
def default_table_sweep(ctx):
    """every table-carrying document id x every default-like inline table x its surroundings in the buffer"""
    out = []
    for did in TABLE_IDS:
        others = [d for d in TABLE_IDS if d != did]
        for label in SPECIAL_TABLES:
            if label.startswith(("same-as", "previous")):
                continue
            out.append(gen_buffer(ctx, ndocs=1, ntok=0, dids=[did], cdt_modes=[label]) + (f"inline:{label}",))
            out.append(gen_buffer(ctx, ndocs=1, ntok=ctx.rng.randrange(1, 5), dids=[did], cdt_modes=[label]) + (f"inline:{label}+tokens",))
            out.append(gen_buffer(ctx, ndocs=3, ntok=ctx.rng.randrange(0, 3), dids=[did, pick(ctx, others), pick(ctx, TABLE_IDS)],
                                  cdt_modes=[label, "inherited", "inherited"]) + (f"inline:{label},inherited,inherited",))
            out.append(gen_buffer(ctx, ndocs=2, ntok=ctx.rng.randrange(0, 3), dids=[pick(ctx, NCDT_IDS), did],
                                  cdt_modes=[None, label]) + (f"ncdt,inline:{label}",))
        # the table that CDT_LEN(1) would inherit, spelled out instead: after an NCDT document (= the default table),
        # after an inline table, after an inherited one, after nothing
        for prev_mode in (None, "default", "inline", "default-1oct", "inherited"):
            for label in ("same-as-previous", "previous-1oct", "previous-ext"):
                first = pick(ctx, NCDT_IDS) if prev_mode is None else pick(ctx, TABLE_IDS)
                out.append(gen_buffer(ctx, ndocs=3, ntok=ctx.rng.randrange(0, 3), dids=[first, did, pick(ctx, others)],
                                      cdt_modes=[prev_mode, label, pick(ctx, ("inherited", "same-as-previous"))]) + (f"{prev_mode},inline:{label}",))
    return out


def synonym_sweep(ctx):
    """tokens written in a form that has a shorter synonym or an implied value: a length-prefixed value of the fixed
    length of its sibling token, a zero result code / empty data (the length-0 result tokens), a float with a zero
    fraction (the uintvar sibling), zero / empty / all-zero values"""
    out = []
    z4 = bytes(4)
    for did in LRRP_DOCS:
        d = REF["docs"][str(did)]
        cases = []
        for tok in REF["tables"][d["table"]]:
            tid, _name, ty, length, attrs = tok
            if ty not in IMPLEMENTED:
                continue
            if ty == "OPAQUE_I" and length is None:
                codes = [[0] * len(attrs), [5] * len(attrs), [127] * len(attrs)]
                for c in codes[: 3 if attrs else 1]:
                    for data in (b"", b"\x00", rbytes(ctx, 1), rbytes(ctx, 5), bytes(4)):
                        cases.append((tok, (c, data)))
            elif ty == "OPAQUE_I":
                cases.append((tok, ([], bytes(length))))
            elif ty == "INFO_TIME":
                cases.append((tok, bytes(5)))
            elif ty in ("UINT8", "UINTVAR"):
                cases.append((tok, 0))
            elif ty == "UFLOATVAR":
                cases += [(tok, (i, 0)) for i in (0, 1, 127, 128, U_MAX)]
            elif ty == "SFLOATVAR":
                cases += [(tok, (False, 0, 0)), (tok, (False, 64, 0)), (tok, (True, 1, 0)), (tok, (True, S_MAX, 0))]
            elif ty == "CIRCLE_2D":
                cases += [(tok, (z4, z4, (0, 0))), (tok, (rbytes(ctx, 4), rbytes(ctx, 4), (128, 0)))]
            elif ty == "POINT_2D":
                cases.append((tok, (z4, z4)))
            elif ty == "POINT_3D":
                cases += [(tok, (z4, z4, (False, 0, 0))), (tok, (rbytes(ctx, 4), rbytes(ctx, 4), (True, 64, 0)))]
        for tok, v in cases:
            o, e = enc_token(tok, v)
            # alone, and followed by another token (a dropped octet must not hide behind the end of the document)
            for tail in (b"", None):
                body = (b"" if d["ncdt"] else b"\x00") + o
                parts = [e]
                if tail is None:
                    toks = [t for t in REF["tables"][d["table"]] if t[2] in IMPLEMENTED]
                    o2, e2 = gen_token(ctx, pick(ctx, toks))
                    body += o2
                    parts.append(e2)
                x = enc_u(did) + enc_u(len(body)) + body
                out.append((x, [{"id": did, "cdt": DEFAULT_CDT if d["ncdt"] else b"", "segment": x, "parts": parts, "mode": "x"}], "synonym"))
    return out


# ------------------------------------------------------------- corpus
def captured_messages():
    """every hex string literal of the LRRP / MBXML / ARRP tests that is a whole MBXML buffer"""
    import okdmr.tests.dmrlib.motorola as pkg

    out = []
    root = os.path.dirname(pkg.__file__)
    for fn in ("test_lrrp.py", "test_mbxml.py", "test_arrp.py"):
        src = open(os.path.join(root, fn), encoding="utf-8").read()
        for m in re.finditer(r"\"([0-9A-Fa-f]{8,})\"", src):
            h = m.group(1)
            if len(h) % 2 == 0 and h.lower() not in out:
                out.append(h.lower())
    return out


def _doc(did, body):
    return enc_u(did) + enc_u(len(body)) + body


HISTORIC = [
    "05022200",  # request-id of 0 octets (length octet was dropped: fixed cc6e0a2)
    "0703390500",  # result with code 5 and empty data
    "040e05054150434f22042468ace0536204070122042468ace0",  # inherited constant table (fixed 843b280)
    "04080122042468ace062",  # inherited without a previous document
    "050822042468ace05162050822042468ace05162",  # two documents per buffer (fixed ab84c82)
    _doc(5, bytes([0x31]) + enc_u(128)).hex(),  # interval = 128: multiple of 128 (C14 fix 4ffeeb5)
    _doc(5, bytes([0x31]) + enc_u(16384) + bytes([0x4A]) + enc_u(2**28)).hex(),
    _doc(13, bytes([0x69]) + bytes(8) + enc_s(0, True) + bytes([10])).hex(),  # altitude -10/128: negative fraction, zero integer part
    _doc(13, bytes([0x69]) + bytes(8) + enc_s(64, False) + bytes([0])).hex(),  # altitude +64: sign septet (C14 fix 636b721)
    _doc(13, bytes([0x70]) + enc_s(8192, True) + bytes([127])).hex(),
    _doc(7, bytes([0x39]) + enc_u(128) + enc_u(128) + bytes(128)).hex(),  # result code 128, 128 octets of data
    "0403005362", "0500", "0700",
    # the built default table spelled out inline (a table-carrying id), alone / with a token / inherited by the next document
    _doc(4, enc_u(len(DEFAULT_CDT)) + DEFAULT_CDT).hex(),
    _doc(6, enc_u(len(DEFAULT_CDT)) + DEFAULT_CDT + bytes([0x22, 0x01, 0x07])).hex(),
    (_doc(8, enc_u(len(DEFAULT_CDT)) + DEFAULT_CDT + bytes([0x34, 0x31, 0x3C])) + _doc(12, bytes([0x01, 0x22, 0x00])) + _doc(13, bytes([0x22, 0x00]))).hex(),
    (_doc(5, bytes([0x22, 0x00])) + _doc(4, enc_u(len(DEFAULT_CDT)) + DEFAULT_CDT + bytes([0x53]))).hex(),  # after an NCDT document: equal to what 01 would inherit
    (_doc(4, bytes([0x05]) + b"APCO\x00"[:5]) + _doc(6, bytes([0x05]) + b"APCO\x00"[:5] + bytes([0x38]))).hex(),  # the previous table again, inline
]


# ------------------------------------------------------------- token lookup API
def api_value(ctx, ty, length):
    """(python value, spec text) of the right shape for the token type, exactly representable"""
    if ty == "OPAQUE_I":
        n = length if length else (0 if length == 0 else pick(ctx, LEN_EDGE))
        v = rbytes(ctx, n)
        return v, "B" + v.hex()
    if ty == "INFO_TIME":
        v = rbytes(ctx, 5)
        return v, "B" + v.hex()
    if ty == "UINT8":
        n = pick(ctx, (0, 1, 127, 128, 255))
        return n, f"I{n}"
    if ty == "NO_VALUE":
        return None, "N"
    if ty == "UINTVAR":
        n = gen_uint(ctx)
        return n, f"I{n}"

    def dy(x):
        n, d = abs(x).as_integer_ratio()
        return f"{1 if math.copysign(1.0, x) < 0 else 0}:{n}:{d.bit_length() - 1}"

    if ty == "UFLOATVAR":
        x = fl(False, *gen_ufloat(ctx))
        return x, "F" + dy(x)
    if ty == "SFLOATVAR":
        x = fl(*gen_sfloat(ctx))
        return x, "F" + dy(x)
    la, lo = rbytes(ctx, 4), rbytes(ctx, 4)
    if ty == "CIRCLE_2D":
        x = fl(False, *gen_ufloat(ctx))
        return (la, lo, x), f"C{la.hex()}/{lo.hex()}/{dy(x)}"
    if ty == "POINT_2D":
        return (la, lo), f"P{la.hex()}/{lo.hex()}"
    if ty == "POINT_3D":
        x = fl(*gen_sfloat(ctx))
        return (la, lo, x), f"Q{la.hex()}/{lo.hex()}/{dy(x)}"
    raise AssertionError(ty)


def api_attrs(ctx, tok, mode):
    """attribute dict for get_token: mode 'good' supplies every wire attribute (and nothing a length-0 token
    cannot carry); 'any' also produces the two situations recorded as known findings"""
    tid, _name, ty, length, attrs = tok
    d = {}
    for a in attrs:
        adef = ATTR_BY_ID[a]
        preset = adef[3]
        wire = ty == "OPAQUE_I" and length is None
        if wire:
            if mode == "any" and ctx.rng.randrange(5) == 0:
                continue  # omitted wire attribute (known finding api-wire-attribute-omitted)
            key = adef[1] if ctx.rng.randrange(2) else a
            d[key] = gen_uint(ctx)
            if mode == "any" and ctx.rng.randrange(12) == 0:
                d[key] = None  # spelled out as None: the same as omitted (same known finding)
                ctx.count("api-attr:wire-attribute-given-as-None")
        elif preset is not None:
            if ctx.rng.randrange(2):
                d[a if ctx.rng.randrange(2) else adef[1]] = preset
                ctx.count("api-attr:preset-value-spelled-out")
                if mode == "any" and ctx.rng.randrange(6) == 0:
                    # next to the preset value / None: the lookup finds no such attribute (correspondence only)
                    d[list(d)[-1]] = pick(ctx, (preset + 1, abs(preset - 1), 0, None))
                    ctx.count("api-attr:near-preset-value")
        elif length == 0:
            if mode == "any" and ctx.rng.randrange(3) == 0:
                d[adef[1] if ctx.rng.randrange(2) else a] = gen_uint(ctx)  # known finding api-length0-explicit-attribute
    return d


def attrs_spec(d):
    if not d:
        return "-"
    return "+".join(f"{('#' + str(k)) if isinstance(k, int) else k}={'N' if v is None else v}" for k, v in d.items())


def diagnose(parts, calls, is_req):
    """the two recorded shortcomings of the lookup API.  They are about what the CALLER did, judged by the reference
    tables (a value given to an attribute of a fixed-length-0 token; a wire attribute not given, or given as None),
    and show on the assembled parts; a part that has the shape although the caller supplied the attribute properly
    (say, an explicit result code 0 that was dropped) is not excused."""
    ref = ref_table(is_req)
    len0, omitted = [], []
    for p, (_key, _value, ad) in zip(parts, calls):
        tok = ref.get(p.token_id)
        if tok is None or tok[2] != "OPAQUE_I" or p.token_type.name != "OPAQUE_I":
            continue
        given = {k for k, v in ad.items() if v is not None}
        if tok[3] == 0 and p.length == 0 and given and any(not isinstance(a, int) for a in p.attributes):
            len0.append(p.token_id)
        if tok[3] is None and p.length is None and tok[4] and any(isinstance(a, int) for a in p.attributes):
            if not all(any(k == a or k == ATTR_BY_ID[a][1] for k in given) for a in tok[4]):
                omitted.append(p.token_id)
    return len0, omitted


def pyval(s):
    """python value of a value text of the line protocol (N, B<hex>, I<n>, F<dy>, C/P/Q<lat>/<lon>[/<dy>])"""
    t, b = s[0], s[1:]

    def dyv(q):
        sg, n, e = q.split(":")
        return (-1.0 if sg == "1" else 1.0) * int(n) / 2 ** int(e)

    if t == "N":
        return None
    if t == "B":
        return bytes.fromhex(b)
    if t == "I":
        return int(b)
    if t == "F":
        return dyv(b)
    ps = b.split("/")
    if t == "P":
        return (bytes.fromhex(ps[0]), bytes.fromhex(ps[1]))
    return (bytes.fromhex(ps[0]), bytes.fromhex(ps[1]), dyv(ps[2]))


def parse_spec(sp):
    """'<name|#id>~<value text>~<attrs>' -> (key, python value, attribute dict)"""
    k, v, a = sp.split("~")
    key = int(k[1:]) if k.startswith("#") else k
    ad = {} if a == "-" else {(int(q.split("=")[0][1:]) if q.startswith("#") else q.split("=")[0]): (None if q.split("=")[1] == "N" else int(q.split("=")[1]))
                              for q in a.split("+")}
    return key, pyval(v), ad


def parse_api_line(line):
    _, did, req, cdt, specs = line.split(" ")
    calls = [parse_spec(sp) for sp in ([] if specs == "-" else specs.split(";"))]
    return int(did), req == "1", (None if cdt == "-" else bytes.fromhex(cdt[1:])), calls


def sig(parts):
    return [(p.token_id, val_str(p), sorted(attr_str(a) for a in p.attributes if not isinstance(a, int))) for p in parts]


def api_eval(mb, LRRP, line):
    """assemble the document of an `lrrp.api` line through get_token, serialise, parse back:
    (canonical text | 'ERR …', document | None, [(kind, what, expected, actual, extra input)], diagnosis)"""
    did, is_req, cdt, calls = parse_api_line(line)

    def build():
        doc = LRRP(document_id=[m for m in mb.MBXMLDocumentIdentifier if m.value[0] == did][0])
        for key, value, ad in calls:
            doc.parts.append(doc.get_token(name=key, value=value, attributes=dict(ad), is_request=is_req))
        if cdt is not None:
            doc.constants_table = cdt
            doc.is_constant_table_default = False
        return doc

    doc = timed(build)
    if isinstance(doc, str):
        return doc, None, [], {}
    out = doc_str(mb, doc)
    b = timed(mb.MBXML.as_bytes, doc)
    len0, omitted = diagnose(doc.parts, calls, is_req)
    diag = {"length0_token_with_explicit_attribute": len0, "wire_attribute_omitted": omitted}
    pr = []
    if isinstance(b, str):
        pr.append(("api-serialise-raises", f"as_bytes raised {b} on a document assembled through get_token", None, b, {}))
        return out, doc, pr, diag
    back = timed(from_bytes, mb, b)
    want = sig(doc.parts)
    if isinstance(back, str) or len(back) != 1:
        got = back if isinstance(back, str) else f"{len(back)} documents"
    else:
        got = sig(back[0].parts)
    if got != want:
        pr.append(("api-roundtrip", "a document assembled through get_token does not parse back into the same token ids and values",
                   str(want), str(got), {"octets": b.hex()}))
    elif cdt is not None and bytes(back[0].constants_table) != cdt:
        pr.append(("api-constant-table", "the constant table set on a document assembled through get_token does not parse back",
                   cdt.hex(), bytes(back[0].constants_table).hex(), {"octets": b.hex()}))
    if len0 or omitted:
        # the recorded shortcomings excuse only the tokens they are about: the rest of the document must still round-trip
        rest = [p for p in doc.parts if p.token_id not in len0 and p.token_id not in omitted]
        doc.parts = rest
        b2 = timed(mb.MBXML.as_bytes, doc)
        back2 = b2 if isinstance(b2, str) else timed(mb.MBXML.from_bytes, b2)
        want2 = sig(rest)
        got2 = back2 if isinstance(back2, str) else (f"{len(back2)} documents" if len(back2) != 1 else sig(back2[0].parts))
        if got2 != want2:
            pr.append(("api-roundtrip-rest", "the rest of a document assembled through get_token (known-finding tokens removed) does not parse back",
                       str(want2), str(got2), {"without_tokens": len0 + omitted}))
    return out, doc, pr, diag


API_TABLES = ("random", "random", "random", "default", "default-1oct", "default-trunc", "default-ext", "default-prefix", "empty")


def gen_api_line(ctx, mode, is_req=None, force=()):
    """an `lrrp.api` line: document id, kind, constant table, 0-8 get_token calls (force: token ids looked up by number first)"""
    if is_req is None:
        is_req = bool(ctx.rng.randrange(2))
    kinds = {True: "t0", False: "t1"}
    docs = [d for d in LRRP_DOCS if REF["docs"][str(d)]["table"] == kinds[is_req]]
    did = pick(ctx, docs)
    ncdt = REF["docs"][str(did)]["ncdt"]
    table = {t[0]: t for t in REF["tables"][kinds[is_req]] if t[2] in IMPLEMENTED}
    known = [t for s in REF["known"]["request" if is_req else "answer"] for t in s if t[0] in table]
    specs = []
    todo = [(tid, table[tid][1], False) for tid in force if tid in table]
    for _ in range(ctx.rng.randrange(0, 9)):
        tid, name = pick(ctx, known)
        # a name is only used when the lookup is bound to find this very definition first
        by_name = ctx.rng.randrange(3) == 0 and [t for t in known if t[1] == name][0][0] == tid
        todo.append((tid, name, by_name))
    if force:
        ctx.rng.shuffle(todo)
    for tid, name, by_name in todo:
        tok = table[tid]
        _value, vtxt = api_value(ctx, tok[2], tok[3])
        ad = api_attrs(ctx, tok, mode)
        specs.append(f"{name if by_name else '#' + str(tid)}~{vtxt}~{attrs_spec(ad)}")
    if ncdt:
        cdt = None
    else:
        how = pick(ctx, API_TABLES)
        ctx.count(f"api-cdt:{how}")
        cdt = rbytes(ctx, pick(ctx, (0, 2, 5, 128))) if how == "random" else b"" if how == "empty" else special_table(ctx, how, None)
    return f"lrrp.api {did} {1 if is_req else 0} {'-' if cdt is None else 'T' + cdt.hex()} {';'.join(specs) if specs else '-'}"


def api_case(ctx, mb, LRRP, mode):
    line = gen_api_line(ctx, mode)
    out, doc, pr, diag = api_eval(mb, LRRP, line)
    for kind, what, expected, actual, extra in pr:
        if kind == "api-roundtrip-rest":
            ctx.fail("api-roundtrip", dict({"op": "api", "line": line}, **extra), what, expected=expected, actual=actual)
        else:
            ctx.fail(kind, dict({"op": "api", "line": line}, **diag, **extra), what, expected=expected, actual=actual)
    if doc is not None and not any(k == "api-serialise-raises" for k, *_ in pr):
        ctx.count("api:known-finding-shape" if (diag["length0_token_with_explicit_attribute"] or diag["wire_attribute_omitted"]) else "api:well-formed")
    return line, out, doc


def m_len0(f):
    return f["kind"] == "api-roundtrip" and bool(f["input"].get("length0_token_with_explicit_attribute")) \
        and not f["input"].get("wire_attribute_omitted")


def m_omitted(f):
    return f["kind"] == "api-roundtrip" and bool(f["input"].get("wire_attribute_omitted"))


MATCHERS = {"api_length0_explicit_attribute": m_len0, "api_wire_attribute_omitted": m_omitted}


# ------------------------------------------------------------- sessions: one process, many calls
def ref_table(is_req):
    return {t[0]: t for t in REF["tables"]["t0" if is_req else "t1"]}


# token ids that the request and the answer / report tables both define (the three common ones included)
SHARED_IDS = sorted(set(ref_table(True)) & set(ref_table(False)))
NAMES = {True: sorted({t[1] for t in REF["tables"]["t0"]}), False: sorted({t[1] for t in REF["tables"]["t1"]})}


def token_step(ctx, key_tid, is_req, by_name=False, name=None):
    """a get_token step for token id `key_tid` (by number) or `name`, with a value of the shape the requested kind expects"""
    if by_name:
        defs = [t for t in REF["tables"]["t0" if is_req else "t1"] if t[1] == name]
        tok = defs[0] if defs else pick(ctx, REF["tables"]["t1" if is_req else "t0"])  # a name of the other kind: value of any shape
        key = name
    else:
        tok = ref_table(is_req)[key_tid]
        key = "#" + str(key_tid)
    vtxt = api_value(ctx, tok[2], tok[3])[1] if tok[2] in IMPLEMENTED else "N"
    ad = api_attrs(ctx, tok, "good") if tok[2] in IMPLEMENTED else {}
    return {"s": "T", "req": 1 if is_req else 0, "spec": f"{key}~{vtxt}~{attrs_spec(ad)}"}


def exp_json(exp):
    return [{"id": e["id"], "cdt": e["cdt"].hex(), "segment": e["segment"].hex(), "mode": e["mode"],
             "parts": [[t, v, list(a)] for (t, v, a) in e["parts"]]} for e in exp]


def exp_unjson(j):
    return [{"id": e["id"], "cdt": bytes.fromhex(e["cdt"]), "segment": bytes.fromhex(e["segment"]), "mode": e["mode"],
             "parts": [(t, v, list(a)) for t, v, a in e["parts"]]} for e in j]


def parse_step(ctx, kinds=None, **kw):
    x, exp = gen_buffer(ctx, kinds=kinds, **kw)
    return {"s": "P", "x": x.hex(), "exp": exp_json(exp)}


DOC_MUTATIONS = ("parts-clear", "parts-reverse", "parts-dup", "parts-pop", "value-rebind", "id-rebind", "attrs-rebind", "type-rebind", "cdt-rebind", "flags-flip")
TOK_MUTATIONS = ("attrs-append", "attrs-clear", "attrs-reverse", "value-rebind", "id-rebind")


def gen_session(ctx):
    """parse a request, look tokens up for a report by number, assemble a report, parse a report, look tokens up for
    a request … in ONE process; verify what was returned earlier; mutate a returned object and call again"""
    steps = []
    k = bool(ctx.rng.randrange(2))  # kind of the document parsed next (True = request)
    for _ in range(ctx.rng.randrange(2, 5)):
        r = ctx.rng.randrange(10)
        kinds = None if r == 0 else ("t2",) if r == 1 else ("t0",) if k else ("t1",)
        steps.append(parse_step(ctx, kinds=kinds, ndocs=pick(ctx, (1, 1, 2)), ntok=ctx.rng.randrange(0, 6)))
        ids = list(SHARED_IDS)
        ctx.rng.shuffle(ids)
        for tid in ids[: ctx.rng.randrange(1, 4)]:
            steps.append(token_step(ctx, tid, (not k) if ctx.rng.randrange(4) else k))
        for _ in range(ctx.rng.randrange(0, 3)):
            flag = bool(ctx.rng.randrange(2))
            steps.append(token_step(ctx, None, flag, by_name=True, name=pick(ctx, NAMES[flag if ctx.rng.randrange(3) else not flag])))
        if ctx.rng.randrange(3):
            kind = (not k) if ctx.rng.randrange(4) else k
            shared = [t for t in SHARED_IDS if ref_table(kind)[t][2] in IMPLEMENTED]
            ctx.rng.shuffle(shared)
            steps.append({"s": "A", "line": gen_api_line(ctx, "good", is_req=kind, force=shared[: ctx.rng.randrange(1, 4)])})
        if ctx.rng.randrange(3) == 0:  # a failing call in between (error-path state)
            y = bytes.fromhex(steps[-1]["x"]) if steps[-1]["s"] == "P" else gen_buffer(ctx, ndocs=1)[0]
            y = y[: ctx.rng.randrange(1, len(y))] if ctx.rng.randrange(2) else mutate(ctx, y)
            steps.append({"s": "X", "x": y.hex(), "how": pick(ctx, ("parse", "parse-debug", "serialise-broken", "lookup")), "r": ctx.rng.randrange(1 << 16)})
        for _ in range(ctx.rng.randrange(0, 3)):  # read-only use of something returned earlier, in between
            steps.append({"s": "R" if ctx.rng.randrange(4) else "RT", "r": ctx.rng.randrange(1 << 16), "ops": gen_ops(ctx, 1, n=ctx.rng.randrange(1, 4))})
        if ctx.rng.randrange(4) == 0:
            steps.append({"s": "V"})
        if ctx.rng.randrange(4) == 0:
            steps.append({"s": "MD", "r": ctx.rng.randrange(1 << 16), "how": pick(ctx, DOC_MUTATIONS)})
        if ctx.rng.randrange(5) == 0:
            steps.append({"s": "MT", "r": ctx.rng.randrange(1 << 16), "how": pick(ctx, TOK_MUTATIONS)})
        if ctx.rng.randrange(5):
            k = not k
    steps.append({"s": "V"})
    return steps


def alternation_session(ctx, first_is_request, with_table):
    """request, report, request, report (or the other way round): after every parse EVERY token id shared by both
    tables is looked up by number for the opposite kind (and for the own one) and a one-token document is assembled"""
    steps = []
    k = first_is_request
    for _ in range(4):
        ids = [d for d in (TABLE_IDS if with_table else NCDT_IDS) if REF["docs"][str(d)]["table"] == ("t0" if k else "t1")]
        steps.append(parse_step(ctx, dids=[pick(ctx, ids)], ndocs=1, ntok=ctx.rng.randrange(1, 4)))
        for tid in SHARED_IDS:
            for kind in (not k, k):
                steps.append(token_step(ctx, tid, kind))
                if ref_table(kind)[tid][2] in IMPLEMENTED:
                    steps.append({"s": "A", "line": gen_api_line(ctx, "good", is_req=kind, force=(tid,))})
        name_kind = bool(ctx.rng.randrange(2))
        for nm in NAMES[name_kind][:: max(1, len(NAMES[name_kind]) // 4)]:
            steps.append(token_step(ctx, None, not name_kind, by_name=True, name=nm))  # a name of the other kind must stay unknown
            steps.append(token_step(ctx, None, name_kind, by_name=True, name=nm))
        steps.append({"s": "R", "r": ctx.rng.randrange(1 << 16), "ops": [[0, "doc.as_xml", 0]] + gen_ops(ctx, 1, n=2)})
        steps.append({"s": "RT", "r": ctx.rng.randrange(1 << 16), "ops": gen_ops(ctx, 1, n=2)})
        steps.append({"s": "V"})
        k = not k
    return steps


class SessionState:
    def __init__(self):
        self.docs = []  # [document, text when returned, buffer, index]
        self.toks = []  # [token, text when returned, is_request, spec]
        self.lines = {}  # buffer -> canonical line of its first parse


def mutate_doc(d, how):
    ps = d.parts
    if how == "parts-clear":
        ps.clear()
    elif how == "parts-reverse":
        ps.reverse()
    elif how == "parts-dup":
        if ps:
            ps.append(ps[0])
    elif how == "parts-pop":
        if ps:
            ps.pop()
    elif how == "value-rebind":
        for p in ps:
            p.value = b"\xee" if not isinstance(p.value, bytes) else 7
    elif how == "id-rebind":
        for p in ps:
            p.token_id = 0x7F
    elif how == "attrs-rebind":
        for p in ps:
            p.attributes = [0x22]
    elif how == "type-rebind":
        for p in ps:
            p.token_type = [m for m in type(p.token_type) if m.name == "NO_VALUE"][0]
            p.length = 3
    elif how == "cdt-rebind":
        d.constants_table = b"\x00" + bytes(d.constants_table)
    elif how == "flags-flip":
        d.is_constant_table_default = not d.is_constant_table_default
        d.is_constant_table_inherited = not d.is_constant_table_inherited
    else:
        raise AssertionError(how)


def mutate_tok(t, how):
    if how == "attrs-append":
        t.attributes.append(0x63)
    elif how == "attrs-clear":
        t.attributes.clear()
    elif how == "attrs-reverse":
        t.attributes.reverse()
        t.attributes.insert(0, 0x22)
    elif how == "value-rebind":
        t.value = b"\xee" if not isinstance(t.value, bytes) else 7
    elif how == "id-rebind":
        t.token_id = 0x7F
    else:
        raise AssertionError(how)


def tok_text(t):
    try:
        return part_str(t)
    except BaseException as e:  # noqa
        return impl_error(e)


def session_step(mb, LRRP, st, step):
    """run one step on the real code: ([(kind, what, expected, actual)], [(line, implementation output)])"""
    pr, pairs = [], []
    s = step["s"]
    if s == "P":
        x = bytes.fromhex(step["x"])
        line, ds, cp = canonical_problems(mb, x, exp_unjson(step["exp"]) if step.get("exp") is not None else None)
        pr += [(kind, what + ("" if i is None else f" (document {i})"), e, a) for kind, what, e, a, i in cp]
        pairs.append((f"lrrp.parse {hx(x)}", line))
        if ds is not None:
            if x in st.lines and st.lines[x] != line:
                pr.append(("parse-depends-on-history", "the same buffer parsed differently earlier in this process", st.lines[x], line))
            st.lines.setdefault(x, line)
            snaps = line.split(" | ")
            if len(snaps) == len(ds):
                for i, d in enumerate(ds):
                    st.docs.append([d, snaps[i], x, i])
    elif s == "T":
        key, value, ad = parse_spec(step["spec"])
        r = timed(LRRP.get_token, key, value, ad, bool(step["req"]))
        txt = r if isinstance(r, str) else part_str(r)
        pairs.append((f"lrrp.token {step['req']} {step['spec']}", txt))
        if not isinstance(r, str):
            st.toks.append([r, txt, step["req"], step["spec"]])
    elif s == "A":
        out, _doc, ap, _diag = api_eval(mb, LRRP, step["line"])
        pr += [(kind, what, e, a) for kind, what, e, a, _x in ap]
        pairs.append((step["line"], out))
    elif s == "V":
        for d, snap, x, i in st.docs:
            now = doc_str(mb, d)
            if now != snap:
                pr.append(("held-document-changed", f"document {i} returned by from_bytes({x.hex()}) changed during later calls", snap, now))
        for t, snap, req, spec in st.toks:
            now = tok_text(t)
            if now != snap:
                pr.append(("held-token-changed", f"the token returned by get_token({spec}, is_request={req}) changed during later calls", snap, now))
    elif s == "X":  # a call that RAISES (malformed octets, with or without debug output; a broken document given to as_bytes):
        # nothing is checked here, what it may leave behind shows in the steps that follow
        x = bytes.fromhex(step["x"])
        with quiet():
            if step["how"] == "parse":
                timed(mb.MBXML.from_bytes, x)
            elif step["how"] == "parse-debug":
                timed(lambda: mb.MBXML.from_bytes(x, debug=True))
            elif step["how"] == "serialise-broken" and st.docs:
                d = copy.deepcopy(st.docs[step["r"] % len(st.docs)][0])
                for p_ in d.parts:
                    p_.value = None if step["r"] & 1 else object()
                d.parts.append(object())
                timed(mb.MBXML.as_bytes, d)
            elif step["how"] == "lookup":
                timed(LRRP.get_token, step["r"], b"", {"nonexistant": 1, 0x22: -1}, bool(step["r"] & 1))
                timed(LRRP.get_attribute, "nonexistant", object())
    elif s == "R":  # read-only use of a document returned earlier (any accessors, any order), then it is looked at again
        if st.docs:
            d, snap, x, i = st.docs[step["r"] % len(st.docs)]
            aux = []
            used = ", ".join(dict.fromkeys(name for _, name, _ in step["ops"]))
            if apply_ops(mb, LRRP, [d], step["ops"], aux) == "HANG":
                pr.append(("accessor-hangs", f"a read-only accessor ({used}) did not come back within the alarm", None, "HANG"))
            now = doc_str(mb, d)
            if now != snap:
                pr.append(("read-only-use-changes-serialisation" if now.rsplit(";bytes=", 1)[-1] != snap.rsplit(";bytes=", 1)[-1] else "read-only-use-changes-document",
                           f"document {i} returned by from_bytes({x.hex()}) changed although it was only read ({used})", snap, now))
            for how, _d, b in aux:
                if (b if isinstance(b, str) else hx(b)) != snap.rsplit(";bytes=", 1)[-1]:
                    pr.append(("copy-serialises-differently", f"{how} of document {i} returned by from_bytes({x.hex()}) serialises differently from the document",
                               snap.rsplit(";bytes=", 1)[-1], b if isinstance(b, str) else b.hex()))
    elif s == "RT":  # the same for a token returned by get_token: put into a document of its kind and only read
        if st.toks:
            t, snap, req, spec = st.toks[step["r"] % len(st.toks)]
            used = ", ".join(dict.fromkeys(name for _, name, _ in step["ops"]))

            def use():
                ident = [m for m in mb.MBXMLDocumentIdentifier if m.value[0] == (5 if req else 7)][0]
                conf = LRRP.get_configuration(ident)
                d = LRRP(document_id=ident, elements_config=conf[mb.MBXMLTokenType.ELEMENT_TOKEN], attributes_config=conf[mb.MBXMLTokenType.ATTRIBUTE_TOKEN])
                d.parts.append(t)
                return apply_ops(mb, LRRP, [d], step["ops"], [])

            if timed(use, seconds=10.0) == "HANG":
                pr.append(("accessor-hangs", f"a read-only accessor ({used}) did not come back within the alarm", None, "HANG"))
            now = tok_text(t)
            if now != snap:
                pr.append(("read-only-use-changes-token", f"the token returned by get_token({spec}, is_request={req}) changed although it was only read ({used})", snap, now))
    elif s == "MD":
        if st.docs:
            d, snap, x, i = st.docs.pop(step["r"] % len(st.docs))
            mutate_doc(d, step["how"])
            line, ds = parse_str(mb, x)
            if line != st.lines.get(x):
                pr.append(("reparse-after-mutation", f"after {step['how']} on document {i} parsed from {x.hex()} the same buffer parses differently",
                           st.lines.get(x), line))
    elif s == "MT":
        if st.toks:
            t, snap, req, spec = st.toks.pop(step["r"] % len(st.toks))
            mutate_tok(t, step["how"])
            key, value, ad = parse_spec(spec)
            r = timed(LRRP.get_token, key, value, ad, bool(req))
            now = r if isinstance(r, str) else tok_text(r)
            if now != snap:
                pr.append(("lookup-after-mutation", f"after {step['how']} on the token returned by get_token({spec}, is_request={req}) the same lookup returns something else",
                           snap, now))
    else:
        raise AssertionError(s)
    return pr, pairs


def run_session(ctx, mb, LRRP, steps, origin):
    st = SessionState()
    pairs = []
    reported = 0
    for n, step in enumerate(steps):
        pr, pp = session_step(mb, LRRP, st, step)
        pairs += pp
        ctx.count(f"session-step:{step['s']}")
        for kind, what, expected, actual in pr:
            if "hangs" in kind:
                note_hang(ctx)
            if reported < 2:  # one session, one story: the first failing steps are enough
                reported += 1
                ctx.fail(kind, {"op": "session", "origin": origin, "failed_step": n, "steps": steps[: n + 1]}, what, expected=expected, actual=actual)
    ctx.case(("session", json.dumps(steps, sort_keys=True)))
    return pairs


# ------------------------------------------------------------- read-only use of parsed documents (history class)
STDOUT_BROKEN = [False]  # an ambient setting replaced sys.stdout on purpose: leave it alone


@contextlib.contextmanager
def quiet():
    """what the library prints while a document is rendered is not the harness' output"""
    if STDOUT_BROKEN[0]:
        yield
    else:
        with contextlib.redirect_stdout(io.StringIO()):
            yield


def _parts(d, r):
    ps = list(d.parts)
    return ps[::-1] if r & 1 else ps


def _is_req(d):
    return REF["docs"].get(str(d.id.value[0]), {}).get("table") == "t0"


def _each(d, r, fn):
    """fn on every part (in order, or backwards); a part that raises does not spare the others"""
    out = []
    for p in _parts(d, r):
        try:
            out.append(fn(p))
        except Exception as e:  # noqa
            out.append(impl_error(e))
    return out


def _scan(o):
    """read every attribute there is (properties and descriptors run, methods are only fetched)"""
    out = []
    for a in dir(o):
        try:
            out.append(type(getattr(o, a)).__name__)
        except Exception as e:  # noqa
            out.append(impl_error(e))
    vars(o)
    return out


def _try(fn, *a):
    try:
        return fn(*a)
    except Exception as e:  # noqa
        return impl_error(e)


def _part_xml(p, d):
    doc = minidom.Document()
    root = doc.createElement("root")
    doc.appendChild(root)
    p.as_xml(document=doc, root=root, mbxml_document=d)
    return doc.toxml()


def _attr_key(a):
    return a if isinstance(a, int) else a.token_id


def _explicit(p):
    return {a.name: a.value for a in p.attributes if not isinstance(a, int)}


def _copy_bytes(mb, c, how, aux, d):
    b = _try(mb.MBXML.as_bytes, c)
    aux.append((how, d, b))
    return b


# name -> f(mb, LRRP, document, r, aux): every one of them LOOKS read-only; none is told to change anything
ACCESSORS = {
    "doc.as_xml": lambda mb, L, d, r, aux: d.as_xml(),
    "doc.repr": lambda mb, L, d, r, aux: repr(d),
    "doc.str": lambda mb, L, d, r, aux: (str(d), f"{d}", "%s" % (d,)),
    "doc.len-iter": lambda mb, L, d, r, aux: (len(d.parts), [p.token_id for p in d.parts], list(enumerate(d.parts)), list(reversed(d.parts)),
                                               _try(len, d), _try(lambda: list(iter(d))), bool(d), d == d, d != d, _try(hash, d),
                                               d.parts == list(d.parts), [p in d.parts for p in d.parts]),
    "doc.attribute-scan": lambda mb, L, d, r, aux: (_scan(d), d.id.value, d.id.name, bytes(d.constants_table)),
    "doc.copy": lambda mb, L, d, r, aux: _copy_bytes(mb, copy.copy(d), "copy.copy", aux, d),
    "doc.deepcopy": lambda mb, L, d, r, aux: (lambda c: (_copy_bytes(mb, c, "copy.deepcopy", aux, d), _try(c.as_xml)))(copy.deepcopy(d)),
    "doc.pickle": lambda mb, L, d, r, aux: _copy_bytes(mb, pickle.loads(pickle.dumps(d)), "pickle", aux, d),
    "doc.as_bytes": lambda mb, L, d, r, aux: (mb.MBXML.as_bytes(d), mb.MBXML.as_bytes(d)),
    "doc.configuration": lambda mb, L, d, r, aux: (L.get_configuration(d.id), mb.MBXML.get_implementation(d.id), _try(mb.MBXML.build_constants_table, d.id),
                                                    L.get_known_tokens(True), L.get_known_tokens(False), L.get_known_attributes(True),
                                                    mb.MBXMLDocumentIdentifier.resolve(d.id.value[0])),
    "doc.config-lookup": lambda mb, L, d, r, aux: _each(d, r, lambda p: (d.elements_config.get(p.token_id), d.elements_config[p.token_id].attributes,
                                                                         [d.attributes_config.get(_attr_key(a)) for a in p.attributes])),
    "part.get_attributes": lambda mb, L, d, r, aux: _each(d, r, lambda p: p.get_attributes(d)),
    "part.get_value": lambda mb, L, d, r, aux: _each(d, r, lambda p: p.get_value(d)),
    "part.repr-str": lambda mb, L, d, r, aux: _each(d, r, lambda p: (repr(p), str(p), f"{p}")),
    "part.copy": lambda mb, L, d, r, aux: _each(d, r, lambda p: (lambda c: (_try(mb.MBXML.write_part, c), _try(c.get_attributes, d)))(copy.copy(p))),
    "part.deepcopy": lambda mb, L, d, r, aux: _each(d, r, lambda p: (lambda c: (_try(mb.MBXML.write_part, c), _try(c.get_attributes, d)))(copy.deepcopy(p))),
    "part.write_part": lambda mb, L, d, r, aux: _each(d, r, lambda p: mb.MBXML.write_part(p)),
    "part.as_xml": lambda mb, L, d, r, aux: _each(d, r, lambda p: _part_xml(p, d)),
    "part.attribute-scan": lambda mb, L, d, r, aux: _each(d, r, lambda p: (_scan(p), p == p, _try(hash, p), bool(p))),
    "part.attributes-iter": lambda mb, L, d, r, aux: _each(d, r, lambda p: (len(p.attributes), [repr(a) for a in p.attributes],
                                                                            [(a.name, a.value, a.token_id, _try(a.get_value, d)) for a in p.attributes if not isinstance(a, int)],
                                                                            list(reversed(p.attributes)), [a in p.attributes for a in p.attributes])),
    "lookup.get_token-by-id": lambda mb, L, d, r, aux: _each(d, r, lambda p: L.get_token(p.token_id, p.value, {}, _is_req(d))),
    "lookup.get_token-by-name": lambda mb, L, d, r, aux: _each(d, r, lambda p: L.get_token(p.name, p.value, {}, _is_req(d))),
    "lookup.get_token-with-attributes": lambda mb, L, d, r, aux: _each(d, r, lambda p: L.get_token(p.token_id, p.value, _explicit(p), _is_req(d))),
    "lookup.get_token-other-kind": lambda mb, L, d, r, aux: _each(d, r, lambda p: L.get_token(p.token_id, p.value, {}, not _is_req(d))),
    "lookup.get_attribute": lambda mb, L, d, r, aux: _each(d, r, lambda p: [(_try(L.get_attribute, _attr_key(a), d.attributes_config[a].value if isinstance(a, int) else a.value),
                                                                             _try(L.get_attribute, d.attributes_config[_attr_key(a)].name, d.attributes_config[_attr_key(a)].value))
                                                                            for a in p.attributes]),
}
ACC_NAMES = sorted(ACCESSORS)


def apply_ops(mb, LRRP, ds, ops, aux):
    """use the documents ds the way `ops` says: [[document index, accessor, r], …]; returns 'HANG' if one did not come back"""
    with quiet():
        for i, name, r in ops:
            if timed(ACCESSORS[name], mb, LRRP, ds[i % len(ds)], r, aux) == "HANG":
                return "HANG"
    return None


AFTER_USE = [None]  # canonical text of the documents of the last history_eval after they were used (None: as_bytes failed)


def history_eval(mb, LRRP, x: bytes, ops, first=False):
    """from_bytes(x) -> read-only use of the returned documents (ops) -> as_bytes of the SAME documents:
    [(kind, what, expected, actual)].  first: the documents are serialised once before they are used as well."""
    fresh, ds0 = parse_str(mb, x)
    if ds0 is None:
        return [("parse-raises", f"from_bytes raised {fresh} on a canonical buffer", "documents", fresh)]
    ds = timed(from_bytes, mb, x)
    if isinstance(ds, str) or not ds:
        return [("parse-depends-on-history", "the second parse of the same buffer failed", fresh, str(ds))]
    if first:
        for d in ds:
            timed(mb.MBXML.as_bytes, d)
    aux = []
    pr = []
    used = ", ".join(dict.fromkeys(name for _, name, _ in ops))
    if apply_ops(mb, LRRP, ds, ops, aux) == "HANG":
        pr.append(("accessor-hangs", f"a read-only accessor ({used}) did not come back within the alarm", None, "HANG"))
    segs = [timed(mb.MBXML.as_bytes, d) for d in ds]
    AFTER_USE[0] = None
    if any(isinstance(b, str) for b in segs):
        pr.append(("read-only-use-changes-serialisation", f"as_bytes raises on a parsed document after it was only read ({used})",
                   x.hex(), str([b if isinstance(b, str) else b.hex() for b in segs])))
    elif b"".join(segs) != x:
        pr.append(("read-only-use-changes-serialisation", f"as_bytes of the parsed documents no longer gives the octets they were parsed from after they were only read ({used})",
                   x.hex(), b"".join(segs).hex()))
    else:
        now = " | ".join(doc_str(mb, d) for d in ds)
        AFTER_USE[0] = now
        if now != fresh:
            pr.append(("read-only-use-changes-document", f"token ids / values / attributes of the parsed documents changed although they were only read ({used})", fresh, now))
    own = [timed(mb.MBXML.as_bytes, d) for d in ds0]  # the octets each document came from (first, untouched parse)
    for how, d, b in aux:
        want = next((own[i] for i, q in enumerate(ds) if q is d and i < len(own)), None)
        if want is not None and not isinstance(want, str) and b != want:
            pr.append(("copy-serialises-differently", f"{how} of a parsed document serialises differently from the document", want.hex(),
                       b if isinstance(b, str) else b.hex()))
    again = parse_str(mb, x)[0]
    if again != fresh:
        pr.append(("parse-depends-on-history", f"after read-only use of parsed documents ({used}) the same buffer parses differently", fresh, again))
    return pr


HISTORY_PAIRS = []


def history_minimise(mb, LRRP, x, ops, first):
    """a single accessor call that shows the same, if there is one (a shorter story for the report)"""
    for op in ops:
        if history_eval(mb, LRRP, x, [op], first):
            return [op]
    for k in range(1, len(ops)):
        if history_eval(mb, LRRP, x, ops[:k], first):
            return ops[:k]
    return ops


def history_case(ctx, mb, LRRP, x, ops, first, origin):
    pr = history_eval(mb, LRRP, x, ops, first)
    if AFTER_USE[0] is not None and not any(k == "parse-raises" for k, *_ in pr):
        HISTORY_PAIRS.append((f"lrrp.parse {hx(x)}", AFTER_USE[0]))  # the model has no state: it says what a fresh parse says
    ctx.case(("history", x, json.dumps(ops), first))
    ctx.count(f"history:{origin}")
    for _, name, _ in ops:
        ctx.count(f"history-accessor:{name}")
    if pr:
        small = history_minimise(mb, LRRP, x, ops, first)
        spr = history_eval(mb, LRRP, x, small, first) or pr
        kind, what, expected, actual = spr[0]
        ctx.fail(kind, {"op": "history", "buffer": x.hex(), "ops": small, "serialised_before": first, "origin": origin, "found_with": ops if small != ops else None},
                 what, expected=expected, actual=actual)
        if "hangs" in kind:
            note_hang(ctx)
    return pr


def gen_ops(ctx, ndocs, n=None):
    n = n if n is not None else ctx.rng.randrange(1, 9)
    ops = []
    for _ in range(n):
        name = pick(ctx, ACC_NAMES)
        ops.append([ctx.rng.randrange(ndocs), name, ctx.rng.randrange(4)])
        if ctx.rng.randrange(4) == 0:  # the same call again, straight away
            ops.append(list(ops[-1]))
    return ops


def single_token_buffers(ctx, tail=True):
    """every implemented token of the request and of the report table, alone in a document (followed by one more token, so a
    dropped or extra octet cannot hide behind the end of the document): [(buffer, expected, token id)]"""
    out = []
    for kind in ("t0", "t1"):
        ids = [d for d in LRRP_DOCS if REF["docs"][str(d)]["table"] == kind]
        toks = [t for t in REF["tables"][kind] if t[2] in IMPLEMENTED]
        for n, tok in enumerate(toks):
            did = ids[n % len(ids)]
            d = REF["docs"][str(did)]
            o, e = gen_token(ctx, tok)
            body, parts = (b"" if d["ncdt"] else b"\x00") + o, [e]
            if tail:
                o2, e2 = gen_token(ctx, pick(ctx, toks))
                body += o2
                parts.append(e2)
            x = enc_u(did) + enc_u(len(body)) + body
            out.append((x, [{"id": did, "cdt": DEFAULT_CDT if d["ncdt"] else b"", "segment": x, "parts": parts, "mode": "x"}], tok[0]))
    return out


def run_histories(ctx, mb, LRRP, caps):
    """from_bytes -> any number of read-only-looking calls on the returned documents and tokens, in any order -> as_bytes"""
    # every implemented token x every accessor on its own, on a document that was never serialised before
    for x, _exp, _tid in single_token_buffers(ctx):
        for name in ACC_NAMES:
            history_case(ctx, mb, LRRP, x, [[0, name, ctx.rng.randrange(4)]], False, "every-token-x-every-accessor")
    # captured and historic buffers: rendered, then serialised (what an application that logs the XML does)
    for x in caps + [bytes.fromhex(h) for h in HISTORIC]:
        if parse_str(mb, x)[1] is None or canonical_problems(mb, x, None)[2]:
            continue
        nd = walk_lengths(x) or 1
        history_case(ctx, mb, LRRP, x, [[i, "doc.as_xml", 0] for i in range(nd)], False, "captured:as_xml")
        for _ in range(2):
            history_case(ctx, mb, LRRP, x, gen_ops(ctx, nd), bool(ctx.rng.randrange(2)), "captured:random-sequence")
    # random documents, random sequences (1-3 documents per buffer; calls on one document must not show in another)
    for _ in range(ctx.budget(500, 20000)):
        x, exp = gen_buffer(ctx, ntok=ctx.rng.randrange(1, 7) if ctx.rng.randrange(4) else None)
        history_case(ctx, mb, LRRP, x, gen_ops(ctx, len(exp)), bool(ctx.rng.randrange(2)), "generated:random-sequence")
    # serialised / rendered, then edited, then serialised again (parsed documents and assembled ones)
    for n in range(ctx.budget(300, 10000)):
        edits = [pick(ctx, EDITS) for _ in range(ctx.rng.randrange(1, 3))]
        ops = gen_ops(ctx, 1, n=ctx.rng.randrange(0, 3))
        if n % 2:
            x = gen_buffer(ctx, ndocs=1, ntok=ctx.rng.randrange(1, 7))[0]
            inp = {"op": "edit-history", "buffer": x.hex(), "ops": ops, "edits": edits}
        else:
            line, cfg = gen_api_line(ctx, "good"), bool(ctx.rng.randrange(2))
            inp = {"op": "edit-history", "line": line, "with_configuration": cfg, "ops": ops, "edits": edits}
        pr = edit_history(mb, LRRP, inp)
        ctx.case(("edit-history", json.dumps(inp, sort_keys=True)))
        ctx.count(f"history:edited-after-serialisation:{'parsed' if n % 2 else 'assembled'}")
        for kind, what, expected, actual in pr[:1]:
            ctx.fail(kind, inp, what, expected=expected, actual=actual)
    # documents assembled through the lookup API: used read-only between the assembly and as_bytes
    for _ in range(ctx.budget(300, 10000)):
        line = gen_api_line(ctx, "good")
        ops = gen_ops(ctx, 1, n=ctx.rng.randrange(1, 5))
        cfg = bool(ctx.rng.randrange(2))
        pr = api_history_eval(mb, LRRP, line, ops, cfg)
        ctx.case(("api-history", line, json.dumps(ops), cfg))
        ctx.count("history:assembled-document")
        for kind, what, expected, actual in pr[:1]:
            ctx.fail(kind, {"op": "api-history", "line": line, "ops": ops, "with_configuration": cfg}, what, expected=expected, actual=actual)


def edit_history(mb, LRRP, inp):
    if "buffer" in inp:
        x = bytes.fromhex(inp["buffer"])
        return edit_eval(mb, LRRP, lambda: from_bytes(mb, x)[0], inp["ops"], inp["edits"], f"document parsed from {inp['buffer']}")
    return edit_eval(mb, LRRP, lambda: api_build(mb, LRRP, inp["line"], inp.get("with_configuration", False)), inp["ops"], inp["edits"],
                     "document assembled through get_token")


def api_build(mb, LRRP, line, with_config=False):
    did, is_req, cdt, calls = parse_api_line(line)
    ident = [m for m in mb.MBXMLDocumentIdentifier if m.value[0] == did][0]
    if with_config:  # what a caller who wants to render the document supplies
        conf = LRRP.get_configuration(ident)
        doc = LRRP(document_id=ident, elements_config=conf[mb.MBXMLTokenType.ELEMENT_TOKEN], attributes_config=conf[mb.MBXMLTokenType.ATTRIBUTE_TOKEN])
    else:
        doc = LRRP(document_id=ident)
    for key, value, ad in calls:
        doc.parts.append(doc.get_token(name=key, value=value, attributes=dict(ad), is_request=is_req))
    if cdt is not None:
        doc.constants_table = cdt
        doc.is_constant_table_default = False
    return doc


EDITS = ("pop-last", "pop-first", "reverse", "duplicate-first", "swap-ends", "clear", "replace-parts-list")


def edit_doc(d, how):
    """what an application does to a document it is still assembling (the document stays well formed)"""
    ps = d.parts
    if how == "pop-last" and ps:
        ps.pop()
    elif how == "pop-first" and ps:
        del ps[0]
    elif how == "reverse":
        ps.reverse()
    elif how == "duplicate-first" and ps:
        ps.append(copy.copy(ps[0]))
    elif how == "swap-ends" and len(ps) > 1:
        ps[0], ps[-1] = ps[-1], ps[0]
    elif how == "clear":
        del ps[:]
    elif how == "replace-parts-list":
        d.parts = list(ps[1:])


def edit_eval(mb, LRRP, make, ops, edits, what):
    """serialise / use read-only, THEN edit the document, then serialise: the octets are those of the same document edited
    before anything else was done with it (nothing remembered from the first serialisation).  make() -> a fresh document"""
    ref, doc = timed(make), timed(make)
    if isinstance(ref, str) or isinstance(doc, str):
        return []
    for e in edits:
        edit_doc(ref, e)
    want = timed(mb.MBXML.as_bytes, ref)
    if isinstance(want, str):
        return []
    timed(mb.MBXML.as_bytes, doc)
    used = ", ".join(dict.fromkeys(["as_bytes"] + [name for _, name, _ in ops]))
    if apply_ops(mb, LRRP, [doc], ops, []) == "HANG":
        return [("accessor-hangs", f"a read-only accessor ({used}) did not come back within the alarm", None, "HANG")]
    for e in edits:
        edit_doc(doc, e)
    got = timed(mb.MBXML.as_bytes, doc)
    if got != want:
        return [("serialisation-remembers-earlier-state", f"{what}: after {used}, then {' + '.join(edits)} on its parts, as_bytes does not give the octets of the document as it is now",
                 want.hex(), got if isinstance(got, str) else got.hex())]
    return []


def api_history_eval(mb, LRRP, line, ops, with_config):
    """a document assembled through get_token, used read-only, serialised: the octets (and what they parse back to) are
    those of the same assembly serialised straight away"""
    ref = timed(api_build, mb, LRRP, line, with_config)
    doc = timed(api_build, mb, LRRP, line, with_config)
    if isinstance(ref, str) or isinstance(doc, str):
        return []
    want = timed(mb.MBXML.as_bytes, ref)
    if isinstance(want, str):
        return []
    aux = []
    used = ", ".join(dict.fromkeys(name for _, name, _ in ops))
    if apply_ops(mb, LRRP, [doc], ops, aux) == "HANG":
        return [("accessor-hangs", f"a read-only accessor ({used}) did not come back within the alarm", None, "HANG")]
    got = timed(mb.MBXML.as_bytes, doc)
    pr = []
    if got != want:
        pr.append(("read-only-use-changes-serialisation", f"a document assembled through get_token serialises differently after it was only read ({used})",
                   want.hex(), got if isinstance(got, str) else got.hex()))
    elif doc_str(mb, doc) != doc_str(mb, ref):
        pr.append(("read-only-use-changes-document", f"token ids / values / attributes of a document assembled through get_token changed although it was only read ({used})",
                   doc_str(mb, ref), doc_str(mb, doc)))
    for how, _d, b in aux:
        if b != want:
            pr.append(("copy-serialises-differently", f"{how} of a document assembled through get_token serialises differently from the document",
                       want.hex(), b if isinstance(b, str) else b.hex()))
    return pr



# ------------------------------------------------------------- interpreter / process state (ambient class)
LIB_LOGGERS = ("okdmr", "okdmr.dmrlib", "okdmr.dmrlib.motorola", "okdmr.dmrlib.motorola.mbxml", "okdmr.dmrlib.motorola.lrrp",
               "okdmr.dmrlib.motorola.arrp", "mbxml", "lrrp", "MBXML", "MBXMLToken", "MBXMLDocument", "LRRP", "ARRP")
LOGGING_SETTINGS = {  # name -> (level of the root logger, level of the library's loggers)
    "root=DEBUG,library=DEBUG": (logging.DEBUG, logging.DEBUG),
    "root=NOTSET,library=NOTSET": (logging.NOTSET, logging.NOTSET),
    "root=INFO,library=INFO": (logging.INFO, logging.INFO),
    "root=WARNING,library=DEBUG": (logging.WARNING, logging.DEBUG),
    "root=DEBUG,library=ERROR": (logging.DEBUG, logging.ERROR),
}
STDOUT_SETTINGS = ("stdout-raises-OSError", "stdout-closed", "stdout-None", "stdout-ascii-strict", "stdout-isatty", "stdout+stderr-raise-OSError",
                   "stdout+stderr-None")


class _Tty(io.StringIO):
    """an interactive terminal (what is written goes nowhere)"""

    def isatty(self):
        return True


def _no_trace(frame, event, arg):  # a debugger / coverage tool is attached: sys.gettrace() is not None
    return None
LOG_RECORDS = [0]


class _Capture(logging.Handler):
    """what a configured application has: a handler that formats every record it is given; the text goes nowhere"""

    def emit(self, record):
        LOG_RECORDS[0] += 1
        try:
            record.getMessage()
        except Exception:  # noqa   (a real handler reports formatting errors on stderr and goes on)
            pass


class _Broken:
    """a stream whose consumer went away: every operation raises"""

    encoding = "utf-8"
    errors = "strict"
    closed = False

    def _fail(self, *a, **kw):
        raise OSError(errno.EPIPE, "Broken pipe")

    write = writelines = flush = fileno = _fail

    def writable(self):
        return True

    def isatty(self):
        return False


@contextlib.contextmanager
def logging_state(name):
    root_level, lib_level = LOGGING_SETTINGS[name]
    root = logging.getLogger()
    mgr = logging.Logger.manager
    saved = (mgr.disable, root.level, list(root.handlers), logging.lastResort)
    loggers = {n: lg for n, lg in list(mgr.loggerDict.items()) if isinstance(lg, logging.Logger)}
    existed = set(mgr.loggerDict)
    for n in LIB_LOGGERS:
        loggers[n] = logging.getLogger(n)
    levels = {n: (lg.level, lg.disabled, lg.propagate) for n, lg in loggers.items()}
    cap = _Capture(level=logging.NOTSET)
    try:
        logging.disable(logging.NOTSET)
        root.handlers[:] = [cap]
        root.setLevel(root_level)
        for lg in loggers.values():
            lg.setLevel(lib_level)
            lg.disabled = False
        before = LOG_RECORDS[0]
        root.log(max(root_level, logging.DEBUG), "harness self-test %s", name)
        logging.getLogger("MBXML").log(max(lib_level, logging.DEBUG), "harness self-test %s", name)
        if LOG_RECORDS[0] != before + 2:
            raise Infra(f"logging setting {name} is not in force: {LOG_RECORDS[0] - before} of 2 self-test records arrived")
        yield
    finally:
        for n, lg in loggers.items():
            lg.setLevel(levels[n][0])
            lg.disabled, lg.propagate = levels[n][1], levels[n][2]
        root.handlers[:] = saved[2]
        root.setLevel(saved[1])
        logging.lastResort = saved[3]
        logging.disable(saved[0])
        for n in set(mgr.loggerDict) - existed:
            lg = mgr.loggerDict[n]
            if isinstance(lg, logging.Logger):
                lg.setLevel(logging.NOTSET)
                lg.handlers[:] = []


@contextlib.contextmanager
def stdout_state(name):
    out, err, flag = sys.stdout, sys.stderr, STDOUT_BROKEN[0]
    try:
        if name == "stdout-closed":
            f = io.StringIO()
            f.close()
            sys.stdout = f
        elif name == "stdout-ascii-strict":  # a C-locale terminal: text outside ASCII cannot be printed
            sys.stdout = io.TextIOWrapper(io.BytesIO(), encoding="ascii", errors="strict", write_through=True)
        elif name == "stdout-sink":
            sys.stdout = io.StringIO()
        elif name == "stdout-isatty":
            sys.stdout = _Tty()
        else:
            sys.stdout = None if name.endswith("None") else _Broken()
            if name.startswith("stdout+stderr"):
                sys.stderr = sys.stdout
        STDOUT_BROKEN[0] = True
        yield
    finally:
        sys.stdout, sys.stderr, STDOUT_BROKEN[0] = out, err, flag


def amb_text(cfg):
    return ", ".join(f"{k}={v}" for k, v in (cfg or {}).items() if v is not None) or "process default"


@contextlib.contextmanager
def ambient(cfg):
    """switch logging configuration, standard streams, warning filters, global random state and the parser's debug
    flag inside this process, and put everything back afterwards, whatever happens"""
    cfg = cfg or {}
    with contextlib.ExitStack() as stack:
        if cfg.get("logging") is not None:
            stack.enter_context(logging_state(cfg["logging"]))
        if cfg.get("warnings") is not None:
            stack.enter_context(warnings.catch_warnings())
            warnings.simplefilter(cfg["warnings"])
        if cfg.get("settrace") is not None:
            stack.callback(sys.settrace, sys.gettrace())
            stack.callback(threading.settrace, None)
            sys.settrace(_no_trace)
            threading.settrace(_no_trace)
        if cfg.get("random") is not None:
            stack.callback(random.setstate, random.getstate())
            random.seed(cfg["random"])
        if cfg.get("library_debug") is not None:  # non-default configuration of the parser: from_bytes(x, debug=True)
            stack.callback(PARSE_DEBUG.__setitem__, 0, PARSE_DEBUG[0])
            PARSE_DEBUG[0] = bool(cfg["library_debug"])
            if cfg.get("stdout") is None:
                stack.enter_context(stdout_state("stdout-sink"))  # what it prints is not the harness' output
        if cfg.get("stdout") is not None:
            stack.enter_context(stdout_state(cfg["stdout"]))
        yield


def ambient_items(ctx, mb, LRRP, caps):
    """a fixed, seeded sample of the whole oracle as JSON-able items: canonical buffers (captured, historic, every
    implemented token alone, explicit forms with a shorter synonym, default-like inline tables, random 1-3 documents),
    documents assembled through the lookup API, read-only histories"""
    items = []
    for x in [bytes.fromhex(h) for h in HISTORIC] + caps:
        items.append({"k": "P", "x": x.hex(), "exp": None})
    for x, exp, _tid in single_token_buffers(ctx) + single_token_buffers(ctx, tail=False):
        items.append({"k": "P", "x": x.hex(), "exp": exp_json(exp)})
    for x, exp, _o in synonym_sweep(ctx)[::5] + default_table_sweep(ctx)[::7]:
        items.append({"k": "P", "x": x.hex(), "exp": exp_json(exp)})
    for _ in range(300):
        x, exp = gen_buffer(ctx)
        items.append({"k": "P", "x": x.hex(), "exp": exp_json(exp)})
    for _ in range(150):
        items.append({"k": "A", "line": gen_api_line(ctx, "good")})
    for x, exp, _tid in single_token_buffers(ctx)[::2]:
        items.append({"k": "H", "x": x.hex(), "ops": gen_ops(ctx, 1, n=ctx.rng.randrange(1, 4)), "first": bool(ctx.rng.randrange(2))})
    for _ in range(60):
        x, exp = gen_buffer(ctx, ntok=ctx.rng.randrange(1, 6))
        items.append({"k": "H", "x": x.hex(), "ops": gen_ops(ctx, len(exp)), "first": bool(ctx.rng.randrange(2))})
    for _ in range(40):
        items.append({"k": "AH", "line": gen_api_line(ctx, "good"), "ops": gen_ops(ctx, 1, n=2), "cfg": bool(ctx.rng.randrange(2))})
    return items


def item_eval(mb, LRRP, item):
    """[canonical text of what the code returned, [[kind, what, expected, actual], …] found by the oracle]"""
    k = item["k"]
    if k == "P":
        line, _ds, pr = canonical_problems(mb, bytes.fromhex(item["x"]), exp_unjson(item["exp"]) if item.get("exp") is not None else None)
        return [line, [[kind, what, str(e), str(a)] for kind, what, e, a, _i in pr]]
    if k == "A":
        out, _doc, pr, _diag = api_eval(mb, LRRP, item["line"])
        return [out, [[kind, what, str(e), str(a)] for kind, what, e, a, _x in pr]]
    if k == "H":
        pr = history_eval(mb, LRRP, bytes.fromhex(item["x"]), item["ops"], item["first"])
        return ["", [[kind, what, str(e), str(a)] for kind, what, e, a in pr]]
    if k == "AH":
        pr = api_history_eval(mb, LRRP, item["line"], item["ops"], item["cfg"])
        return ["", [[kind, what, str(e), str(a)] for kind, what, e, a in pr]]
    raise ValueError(k)


def item_differs(ref, got):
    """None, or (what, expected, actual): the text and the kinds of problems must be those of the parent's default run"""
    if got[0] != ref[0] or [q[0] for q in got[1]] != [q[0] for q in ref[1]]:
        new = [q for q in got[1] if q[0] not in [r[0] for r in ref[1]]]
        if new:
            return new[0][1], new[0][2], new[0][3]
        return "from_bytes / as_bytes / get_token give another result", ref[0], got[0]
    return None


def item_text(item):
    return f"{item['k']} {item.get('x') or item.get('line')}"[:120] + (f" ops={item['ops']}" if item.get("ops") else "")


def run_items(ctx, mb, LRRP, items, refs, cfg):
    """the sample under the setting that is active (cfg: its description, for the report)"""
    def body():
        for item, ref in zip(items, refs):
            if cfg.get("random") is not None:
                random.seed(cfg["random"])
            got = item_eval(mb, LRRP, item)
            ctx.case(("ambient", amb_text(cfg), json.dumps(item, sort_keys=True)), nontrivial=False)
            diff = item_differs(ref, got)
            if diff:
                ctx.fail("ambient-dependent-result", {"op": "ambient", "item": item, "ambient": cfg},
                         f"under [{amb_text(cfg)}] {item_text(item)}: {diff[0]}", expected=diff[1], actual=diff[2])
    with ambient(cfg):
        if cfg.get("thread"):
            th = threading.Thread(target=body)
            th.start()
            th.join()
        else:
            body()
    ctx.count("ambient:settings")
    ctx.count("ambient:item-evaluations", len(items))


AMBIENT_MAIN = [{"logging": "root=DEBUG,library=DEBUG"}, {"stdout": "stdout-raises-OSError"}, {"library_debug": True}]


def ambient_settings():
    out = list(AMBIENT_MAIN)
    out += [{"logging": n} for n in list(LOGGING_SETTINGS)[1:]] + [{"stdout": n} for n in STDOUT_SETTINGS[1:]]
    out += [{"warnings": "error"}, {"random": 0}, {"thread": "worker"}, {"settrace": True},
            {"logging": "root=DEBUG,library=DEBUG", "library_debug": True},
            {"logging": "root=DEBUG,library=DEBUG", "stdout": "stdout-raises-OSError", "warnings": "error", "random": 1},
            {"logging": "root=NOTSET,library=NOTSET", "stdout": "stdout+stderr-None", "thread": "worker"}]
    return out


HARNESS = os.path.dirname(HERE)
CHILD_MODES = {  # name -> (interpreter options, environment, sys.flags.optimize expected in the child)
    "python -O": (["-O"], {"PYTHONHASHSEED": "1"}, 1),
    "PYTHONOPTIMIZE=2": ([], {"PYTHONOPTIMIZE": "2", "PYTHONHASHSEED": "4242"}, 2),
}
CHILD_TIMEOUT = 120


def child_start(mode, pairs):
    """start `python <options>` on [[item, reference], …]; the job and the answer travel in files"""
    argv, env_add, _opt = CHILD_MODES[mode]
    d = tempfile.mkdtemp(prefix="verif-c15-child-")
    with open(os.path.join(d, "job.json"), "w") as fh:
        json.dump({"items": pairs, "first_calls_fail": mode == list(CHILD_MODES)[-1]}, fh)
    env = dict(os.environ)
    env.pop("PYTHONOPTIMIZE", None)
    env.update(env_add)
    env["PYTHONDONTWRITEBYTECODE"] = "1"  # no *.opt-N.pyc next to the sources under test
    code = f"import sys; sys.path.insert(0, {HARNESS!r}); import props.c15 as m; sys.exit(m.child_main(sys.argv[1]))"
    with open(os.path.join(d, "stderr"), "w") as err:
        p = subprocess.Popen([sys.executable] + argv + ["-c", code, d], stdin=subprocess.DEVNULL, stdout=subprocess.DEVNULL,
                             stderr=err, env=env, cwd=HARNESS)
    ch = {"mode": mode, "dir": d, "proc": p, "t0": time.time()}
    atexit.register(_child_cleanup, ch)
    return ch


def _child_cleanup(ch):
    import shutil

    if ch["proc"].poll() is None:
        ch["proc"].kill()
    shutil.rmtree(ch["dir"], ignore_errors=True)


def child_result(ch):
    import shutil

    try:
        try:
            rc = ch["proc"].wait(timeout=CHILD_TIMEOUT)
        except subprocess.TimeoutExpired:
            ch["proc"].kill()
            raise Infra(f"child interpreter [{ch['mode']}] did not finish within {CHILD_TIMEOUT} s")
        try:
            with open(os.path.join(ch["dir"], "result.json")) as fh:
                res = json.load(fh)
        except (OSError, ValueError):
            err = open(os.path.join(ch["dir"], "stderr")).read()[-1500:]
            raise Infra(f"child interpreter [{ch['mode']}] gave no answer (rc={rc}): {err}")
        res["wall_s"] = round(time.time() - ch["t0"], 2)
        if res.get("fatal") is None and (res.get("optimize") != CHILD_MODES[ch["mode"]][2] or not res.get("asserts_stripped")):
            raise Infra(f"child interpreter [{ch['mode']}] does not run optimised: {res.get('optimize')}")
        return res
    finally:
        shutil.rmtree(ch["dir"], ignore_errors=True)


def children_collect(ctx, children):
    for ch in children:
        res = child_result(ch)
        mode = ch["mode"]
        ctx.count(f"ambient:child-interpreter:{mode}:items", res.get("done", 0))
        ctx.notes.append(f"child interpreter [{mode}]: {res.get('done', 0)} items, {len(res.get('failures', []))} differences, sys.flags.optimize="
                         f"{res.get('optimize')}, {res.get('child_s')} s in the child after start-up (beside the parent; collected after {res['wall_s']} s)")
        if res.get("fatal") is not None:
            ctx.fail("library-unusable-in-child-interpreter", {"op": "child", "mode": mode, "item": None},
                     f"under [{mode}] the library cannot even be imported: {res['fatal']}", actual=res["fatal"])
            continue
        for f in res.get("failures", []):
            ctx.case(("child", mode, json.dumps(f["item"], sort_keys=True)))
            ctx.fail("interpreter-option-dependent-result", {"op": "child", "mode": mode, "item": f["item"], "reference": f["reference"]},
                     f"under [{mode}] {item_text(f['item'])}: {f['what']}", expected=f["expected"], actual=f["actual"])


def child_main(d):
    """runs in the child interpreter: the sample of the oracle against the references of the parent"""
    t0 = time.time()
    res = {"optimize": sys.flags.optimize, "hashseed": os.environ.get("PYTHONHASHSEED"), "fatal": None, "failures": [], "done": 0}
    try:
        assert False, "asserts are executed"
        res["asserts_stripped"] = True
    except AssertionError:
        res["asserts_stripped"] = False
    out = sys.stdout
    sys.stdout = open(os.devnull, "w")
    try:
        logging.disable(logging.CRITICAL)
        with open(os.path.join(d, "job.json")) as fh:
            job = json.load(fh)
        try:
            mb, LRRP = mods()
            mb.MBXML.DEBUG = False
        except BaseException as e:  # noqa
            res["fatal"] = f"{type(e).__name__}: {e}"
            mb = None
        if mb is not None:
            if job.get("first_calls_fail"):  # the FIRST use of every entry point in this interpreter is a failing one
                for fn, args in ((mb.MBXML.from_bytes, (b"\x05\x05\x22",)), (mb.MBXML.from_bytes, (b"",)), (mb.MBXML.as_bytes, (None,)),
                                 (LRRP.get_token, ("nonexistant", None, {})), (LRRP.get_attribute, ("nonexistant", None)),
                                 (mb.MBXML.write_part, (None,)), (mb.MBXML.write_sintvar, (None,)), (mb.MBXML.write_ufloatvar, ("x", 1))):
                    try:
                        fn(*args)
                        res.setdefault("prelude_returned", []).append(fn.__name__)
                    except BaseException:  # noqa
                        pass
            for item, ref in job["items"]:
                got = item_eval(mb, LRRP, item)
                res["done"] += 1
                diff = item_differs(ref, got)
                if diff and len(res["failures"]) < 200:
                    res["failures"].append({"item": item, "reference": ref, "what": diff[0], "expected": diff[1], "actual": diff[2]})
    finally:
        sys.stdout = out
        res["child_s"] = round(time.time() - t0, 2)
        tmp = os.path.join(d, "result.json.tmp")
        with open(tmp, "w") as fh:
            json.dump(res, fh)
        os.rename(tmp, os.path.join(d, "result.json"))
    return 0



# ------------------------------------------------------------- malformed stream
def mutate(ctx, x: bytes) -> bytes:
    b = bytearray(x)
    for _ in range(ctx.rng.randrange(1, 4)):
        r = ctx.rng.randrange(6)
        if r == 0 and b:
            b[ctx.rng.randrange(len(b))] = ctx.rng.randrange(256)
        elif r == 1 and b:
            b[ctx.rng.randrange(len(b))] ^= 1 << ctx.rng.randrange(8)
        elif r == 2:
            b.insert(ctx.rng.randrange(len(b) + 1), ctx.rng.randrange(256))
        elif r == 3 and b:
            del b[ctx.rng.randrange(len(b))]
        elif r == 4 and len(b) > 1:
            b[1] = ctx.rng.randrange(256)  # announced length
        elif b:
            b[ctx.rng.randrange(len(b))] = pick(ctx, (0x00, 0x01, 0x7F, 0x80, 0xFF, 0x22, 0x39, 0x37))
    return bytes(b)


def check_malformed(ctx, mb, x: bytes, origin):
    line, ds = parse_str(mb, x)
    ctx.case(("mal", x), nontrivial=len(x) > 0)
    ctx.count(f"malformed:{origin}:{'ok' if ds is not None else line}")
    inp = {"op": "parse", "buffer": x.hex(), "origin": origin}
    if line == "HANG" or "HANG" in line:
        ctx.fail("parse-hangs", inp, "from_bytes / as_bytes did not terminate within the per-case alarm", actual=line)
        note_hang(ctx)
    elif ds is not None and walk_lengths(x) != len(ds):
        ctx.fail("consumed", inp, "a successful parse did not consume exactly the announced document lengths",
                 expected=walk_lengths(x), actual=len(ds))
    return (f"lrrp.parse {hx(x)}", line)


def correspond(ctx, component, pairs):
    """like ctx.correspond, but a document the model marks INEXACT (a float that is not a double) is skipped"""
    outs = ctx.drive([l for l, _ in pairs])
    bad = 0
    for (line, impl), model in zip(pairs, outs):
        if model == "INEXACT":
            ctx.count("corr-skipped:inexact-float")
            continue
        if impl != model:
            bad += 1
            if len(ctx.disagreements) < 50:
                ctx.disagreements.append({"component": component, "line": line[:4000], "impl": impl[:4000], "model": model[:4000]})
    ctx.count(f"corr:{component}", len(pairs))
    if bad:
        ctx.count(f"corr-diff:{component}", bad)


# ------------------------------------------------------------------------------------------------
# history / object-identity probes (harness/histories.py): the LRRP / MBXML document API, described once
def ENTRY_POINTS():
    import types

    import histories as H

    mb, LRRP = mods()

    def fake(rng):
        return types.SimpleNamespace(rng=rng, count=lambda *a, **k: None, thorough=lambda: False, budget=lambda q, t: q, boost=1)

    def api(rng):
        for _ in range(20):
            did, is_req, cdt, calls = parse_api_line(gen_api_line(fake(rng), rng.choice(("plain", "plain", "wire"))))
            if calls:
                return did, is_req, cdt, calls
        return did, is_req, cdt, calls

    def token_args(rng):
        want_attrs = rng.random() < 0.8  # lookups with a non-empty attribute dict (the caller's own dict object) most of the time
        for _ in range(40):
            did, is_req, cdt, calls = api(rng)
            with_attrs = [c for c in calls if c[2]]
            if with_attrs or not want_attrs:
                break
        key, value, ad = rng.choice(with_attrs or calls or [(0x22, None, {})])
        return (key, value, dict(ad), is_req)

    def get_token(key, value, attrs, is_req):
        return LRRP.get_token(name=key, value=value, attributes=attrs, is_request=is_req)

    def doc_args(rng):
        did, is_req, cdt, calls = api(rng)
        doc = LRRP(document_id=[m for m in mb.MBXMLDocumentIdentifier if m.value[0] == did][0])
        for key, value, ad in calls:
            try:
                doc.parts.append(LRRP.get_token(name=key, value=value, attributes=dict(ad), is_request=is_req))
            except Exception:  # noqa
                pass
        if cdt is not None:
            doc.constants_table = cdt
            doc.is_constant_table_default = False
        return (doc,)

    def wire_args(rng):
        x, _ = gen_buffer(fake(rng))
        return (bytes(x),)

    def docs_view(ds):
        return [doc_str(mb, d) for d in ds] if isinstance(ds, (list, tuple)) else H.canon(ds)

    def tok_view(t):
        return part_str(t)

    return [
        H.EP("lrrp.get_token", get_token, token_args, canon=tok_view, kind="build", draws=3),
        H.EP("mbxml.as_bytes", mb.MBXML.as_bytes, doc_args, kind="serialise", draws=2),
        H.EP("mbxml.from_bytes", mb.MBXML.from_bytes, wire_args, canon=docs_view, kind="parse", draws=2),
    ]


def run(ctx):
    HANGS[0] = 0
    del HELD[:], PARSED[:]
    try:
        _run(ctx)
    except Abort:
        ctx.notes.append("three inputs did not terminate within the alarm: generation stopped early")
    # the reports start with what the property says in so many words (octets), then the state changes behind them
    ctx.failures.sort(key=lambda f: f["kind"] == "read-only-use-changes-document")


def _run(ctx):
    logging.disable(logging.CRITICAL)
    mb, LRRP = mods()
    mb.MBXML.DEBUG = False
    ctx.rule = (
        "canonical buffers: 1-3 (sometimes 4-5) LRRP documents (all 18 LRRP document ids), 0-12 tokens drawn from the document's "
        "reference table (implemented value forms only), values at septet boundaries (request ids of 0/1/127/128/129 octets, result "
        "codes and intervals 0,127,128,16383,16384,2^28,2^32-1, altitudes/speeds with zero integer part and negative "
        "fraction, sign-septet boundaries), constant table default / inherited / inline: random octets (0,2..200) or a table the "
        "library could take for one it knows (the built default table of the document type, one octet / one bit / first / last octet "
        "changed, one octet shorter / longer, beheaded, prefix of the constants, one constant missing, two constants swapped, twice, "
        "lower case; the previous document's table spelled out instead of CDT_LEN(1), and its near misses); written by "
        "the generator's own encoder.  Sweeps: every table-carrying id x every default-like table x (alone, with tokens, followed by two "
        "inheriting documents, after an NCDT document); the would-be-inherited table after NCDT / inline / inherited documents; every "
        "implemented token in a form that has a shorter synonym or an implied value (1-octet length-prefixed value, zero result code, "
        "empty data, zero fraction, zero / all-zero values), alone and followed by another token.  Corpus first: every buffer of the "
        "LRRP/MBXML tests and the historically failing buffers.  Token API: 0-8 get_token calls by name or id with typed boundary "
        "values and attribute dicts (preset value spelled out, None, near-preset), constant table random / default / near-default.  "
        "Sessions in one process: request and report documents parsed in alternation, after each parse get_token by number for the "
        "ids both tables define (all ten of them in the alternation sessions, for the opposite and the own kind) and by name (names of "
        "either kind with either flag), documents assembled from those tokens and parsed back, every returned document / token held "
        "and re-verified, a returned document / token mutated (list operations, attribute rebinding) and the same call repeated.  "
        "Every canonical document parsed in the run is held and re-verified during and at the end of the run.  "
        "READ-ONLY USE (history class): from_bytes -> any sequence of the 25 read-only-looking accessors of documents and parts "
        "(as_xml, get_attributes, get_value, repr/str, len/iteration/==/hash, attribute scan, copy/deepcopy/pickle, write_part/as_bytes, "
        "configuration and table lookups, get_token by id/name/with attributes/other kind, get_attribute) on the SAME objects -> as_bytes "
        "must give the octets parsed, the documents must read like a fresh parse (oracle and model), copies serialise alike, a fresh parse is "
        "unchanged: every implemented token x every accessor alone on a never-serialised document, captured/historic buffers rendered, "
        "500 (quick) random sequences of 1-8 calls on random buffers of 1-3 documents, 300 documents assembled through get_token; "
        "steps R/RT (read-only use of a held document / token) and X (a failing call: malformed parse with/without debug, as_bytes of a "
        "broken document, failing lookups) inside the sessions.  INTERPRETER / PROCESS STATE (ambient class): a fixed seeded sample of "
        f"the whole oracle (about 1000 items) under {len(LOGGING_SETTINGS)} logging configurations, {len(STDOUT_SETTINGS)} broken standard-stream "
        "settings, warnings as errors, reseeded global random, a worker thread, from_bytes(debug=True), three combinations, and in two child "
        "interpreters (python -O / PYTHONOPTIMIZE=2 with first-calls-fail prelude, different PYTHONHASHSEED) against the parent's results.  "
        "A share of the generated buffers is also given as a bytearray that is overwritten afterwards; one buffer of 1200 documents "
        "(inherited tables) and one document of 2500 tokens.  "
        "Malformed: every truncation of corpus/generated buffers, byte mutations, random octets, each under a 2 s alarm.  "
        "A case is non-trivial unless the buffer is empty; distinct = distinct buffers / API call sequences / sessions."
    )
    ctx.trusted_base += [
        "Lean 4.33 kernel",
        "tools/extract_lrrp.py + tools/extract_mbxml.py (tables read from the live classes on this run)",
        "hand-written model of from_bytes / read_document / write_part / as_bytes / get_token / get_attribute (Model/Lrrp.lean, on "
        "top of Model/Mbxml.lean), tied to the code by this run's correspondence",
        "the reference token tables frozen in harness/props/c15_ref.json and Lemmas/LrrpRef.lean define what the LRRP tokens are",
        "floats are exact dyadic rationals in the model; documents holding a float that is not a double are not compared (INEXACT)",
        "child interpreters (python -O / PYTHONOPTIMIZE=2) execute harness/props/c15.py::item_eval on items and reference results written by the "
        "parent; each child confirms that its asserts are stripped",
        "the model has no state: read-only use between parse and serialisation is the identity there by construction; the code after such use "
        "is compared with the model's fresh parse",
    ]
    ctx.assumptions += [
        "canonical form = shortest uintvar / sintvar, one-septet fraction, negative zero excluded, inline constant table length != 1",
        "token API: the document id's NCDT flag agrees with the constant-table setting of the assembled document",
        "read-only accessors may raise (as_xml of a document whose constant table does not hold the referenced constants, print() on a broken "
        "stdout): only what they leave behind is judged, through as_bytes and the token ids / values / attributes of the documents",
        "under python -O the library's assertions do not run: the child interpreters are only given inputs of the property (canonical buffers, "
        "well-formed assemblies); forced thread interleavings are not exercised (the property does not speak of concurrency); "
        "a caller's memoryview is not tried as input (the parsed values would alias the caller's buffer by design of the slicing reader)",
    ]
    pairs = []
    # ---- interpreter / process state: the sample and the parent's references; the child interpreters start now and work
    # beside this process, their answers are collected at the end
    caps0 = [bytes.fromhex(h) for h in captured_messages() if parse_str(mb, bytes.fromhex(h))[1] is not None]
    items = ambient_items(ctx, mb, LRRP, caps0)
    refs = [item_eval(mb, LRRP, it) for it in items]
    for it, ref in zip(items, refs):
        ctx.count(f"ambient:sample-item:{it['k']}")
        if ref[1]:
            ctx.count("ambient:sample-item-with-a-problem-already-under-the-default-setting")
    children = [child_start(mode, [[it, ref] for it, ref in zip(items, refs)]) for mode in CHILD_MODES]
    # ---- corpus
    for h in captured_messages():
        x = bytes.fromhex(h)
        line, ds = parse_str(mb, x)
        if ds is None:
            pairs.append((f"lrrp.parse {hx(x)}", line))  # a string literal that is not a buffer: correspondence only
            ctx.case(("lit", h))
            continue
        ctx.case(("corpus", h), sample={"op": "from_bytes/as_bytes", "buffer": h} if len(ctx.samples) < 2 else None)
        ctx.count("corpus:captured-message")
        pairs.append(check_canonical(ctx, mb, x, None, "captured"))
    for h in HISTORIC:
        x = bytes.fromhex(h)
        ctx.case(("historic", h))
        ctx.count("corpus:historic")
        pairs.append(check_canonical(ctx, mb, x, None, "historic"))
    # several captured messages in one buffer
    caps = [bytes.fromhex(h) for h in captured_messages() if parse_str(mb, bytes.fromhex(h))[1] is not None]
    for _ in range(ctx.budget(40, 1000)):
        x = b"".join(pick(ctx, caps) for _ in range(ctx.rng.randrange(2, 4)))
        ctx.case(("multi", x))
        ctx.count("corpus:concatenated")
        pairs.append(check_canonical(ctx, mb, x, None, "captured-concatenated"))
    # ---- values the sender spells out although the library knows them as a default
    for x, exp, origin in default_table_sweep(ctx):
        ctx.case(("default-table", x))
        ctx.count("generated:default-like-inline-table")
        pairs.append(check_canonical(ctx, mb, x, exp, origin))
    for x, exp, origin in synonym_sweep(ctx):
        ctx.case(("synonym", x))
        ctx.count("generated:explicit-form-with-shorter-synonym")
        pairs.append(check_canonical(ctx, mb, x, exp, origin))
    # ---- grammar-based canonical buffers
    gen = []
    for n in range(ctx.budget(2000, 100000)):
        x, exp = gen_buffer(ctx)
        gen.append(x)
        ctx.case(("gen", x), sample={"op": "from_bytes/as_bytes", "buffer": x.hex(), "documents": len(exp)} if n < 2 else None)
        pairs.append(check_canonical(ctx, mb, x, exp, "generated"))
        if n % 8 == 0:  # the same octets in a bytearray that the caller reuses afterwards
            ba = bytearray(x)
            line, ds = parse_str(mb, ba)
            ctx.count("generated:given-as-bytearray-then-overwritten")
            if line != pairs[-1][1]:
                ctx.fail("argument-type", {"op": "parse", "buffer": x.hex(), "origin": "generated", "as": "bytearray"},
                         "from_bytes(bytearray(x)) differs from from_bytes(x)", expected=pairs[-1][1], actual=line)
            elif ds is not None:
                ba[:] = bytes([0xFF]) * len(ba)
                now = " | ".join(doc_str(mb, d) for d in ds)
                if now != line:
                    ctx.fail("argument-aliased", {"op": "parse", "buffer": x.hex(), "origin": "generated", "as": "bytearray-overwritten"},
                             "documents parsed from a bytearray change when the caller overwrites the bytearray", expected=line, actual=now)
        if n % 500 == 499:
            verify_held(ctx, mb, every=7)
    # scale: one buffer of very many documents (each inheriting the table of the one before), one document of very many tokens
    for ndocs, ntok in ((ctx.budget(1200, 5000), 1), (1, ctx.budget(2500, 20000))):
        x, exp = gen_buffer(ctx, ndocs=ndocs, ntok=ntok, cdt_modes=(["inline"] + ["inherited"] * (ndocs - 1)) if ndocs > 1 else None,
                            dids=[pick(ctx, TABLE_IDS) for _ in range(ndocs)] if ndocs > 1 else [pick(ctx, LRRP_DOCS)])
        ctx.case(("scale", x))
        ctx.count(f"generated:scale:{'documents' if ndocs > 1 else 'tokens'}", max(ndocs, ntok))
        old_alarm = timed.__kwdefaults__["seconds"]
        timed.__kwdefaults__["seconds"] = 20.0
        try:
            check_canonical(ctx, mb, x, exp, "scale", keep=False)  # oracle only: not sent through the model
        finally:
            timed.__kwdefaults__["seconds"] = old_alarm
    # every token of every reference table at least once, alone in a document
    for did in LRRP_DOCS:
        d = REF["docs"][str(did)]
        for tok in REF["tables"][d["table"]]:
            if tok[2] not in IMPLEMENTED:
                continue
            for _ in range(3):
                o, e = gen_token(ctx, tok)
                cdt_oct = b"" if d["ncdt"] else b"\x00"
                body = cdt_oct + o
                x = enc_u(did) + enc_u(len(body)) + body
                ctx.case(("single", x))
                ctx.count("generated:single-token-documents")
                pairs.append(check_canonical(ctx, mb, x, [{"id": did, "cdt": DEFAULT_CDT if d["ncdt"] else b"", "segment": x, "parts": [e], "mode": "x"}], "single-token"))
    # ---- every document parsed so far is still what it was
    verify_held(ctx, mb)
    if not ctx.search_only and ctx.driver_ok:
        correspond(ctx, "from_bytes+as_bytes(canonical)", pairs)
    # ---- read-only use between from_bytes and as_bytes
    del HISTORY_PAIRS[:]
    run_histories(ctx, mb, LRRP, caps)
    verify_held(ctx, mb, every=5)
    if not ctx.search_only and ctx.driver_ok:
        correspond(ctx, "from_bytes, read-only use of the documents, as_bytes = model (which has no state)", HISTORY_PAIRS)
    # ---- sessions
    spairs = []
    for first in (True, False):
        for with_table in (False, True):
            spairs += run_session(ctx, mb, LRRP, alternation_session(ctx, first, with_table), "alternation")
            ctx.count("session:alternation-every-shared-id")
    for n in range(ctx.budget(250, 8000)):
        spairs += run_session(ctx, mb, LRRP, gen_session(ctx), "random")
        ctx.count("session:random")
    verify_held(ctx, mb)
    if not ctx.search_only and ctx.driver_ok:
        correspond(ctx, "session(from_bytes, get_token, as_bytes interleaved)", spairs)
    # ---- token lookup API
    apairs = []
    for n in range(ctx.budget(1500, 60000)):
        mode = "good" if n % 4 else "any"
        line, out, doc = api_case(ctx, mb, LRRP, mode)
        ctx.case(("api", line), sample={"op": "get_token/as_bytes/from_bytes", "line": line[:300]} if n < 2 else None)
        apairs.append((line, out))
    for k, v in (("result-code", 5), ("result-code", 0), ("result-code", None), ("#34", 7), ("#35", 0), ("#35", 1), ("ret-info-accuracy", 73),
                 ("ret-info-accuracy", None), ("ret-info-time", 73), ("ret-info-time", 1), ("#85", 73), ("nonexistant", None), ("#99", 1)):
        key = int(k[1:]) if k.startswith("#") else k
        r = timed(LRRP.get_attribute, key, v)
        apairs.append((f"lrrp.attr {k} {'N' if v is None else v}", r if isinstance(r, str) else f"{r[0].token_id} {1 if r[1] else 0}"))
        ctx.case(("attr", k, v))
    for spec, req in (("nonexistant~N~-", 1), ("result~B~result-code=0", 0), ("result~B~#35=0", 0), ("result~B~#35=1", 0), ("#57~B6162~result-code=1+#34=2", 0),
                      ("ret-info~N~ret-info-accuracy=73", 1), ("ret-info~N~ret-info-time=73", 1), ("ret-info~N~ret-info-accuracy=73+ret-info-time=73", 1),
                      ("ret-info~N~ret-info-no-req-id=73", 1), ("ret-info~N~-", 1), ("request-id~B01~nonexistant=1", 1), ("#36~B~-", 1), ("info-time~B0102030405~-", 0),
                      ("info-time~B0102030405~-", 1)):
        k, v, a = spec.split("~")
        key = int(k[1:]) if k.startswith("#") else k
        val = None if v == "N" else bytes.fromhex(v[1:])
        ad = {} if a == "-" else {(int(p.split("=")[0][1:]) if p.startswith("#") else p.split("=")[0]): int(p.split("=")[1]) for p in a.split("+")}
        r = timed(LRRP.get_token, key, val, ad, bool(req))
        apairs.append((f"lrrp.token {req} {spec}", r if isinstance(r, str) else part_str(r)))
        ctx.case(("token", spec, req))
    if not ctx.search_only and ctx.driver_ok:
        correspond(ctx, "get_token+as_bytes", apairs)
    # ---- malformed stream
    mpairs = []
    seeds = [bytes.fromhex(h) for h in HISTORIC] + caps[:6] + gen[: ctx.budget(6, 60)]
    for x in seeds:
        ks = range(len(x)) if len(x) <= 256 else sorted(set(range(64)) | set(range(len(x) - 64, len(x)))
                                                        | {ctx.rng.randrange(len(x)) for _ in range(128)})
        for k in ks:
            mpairs.append(check_malformed(ctx, mb, x[:k], "truncation"))
    for _ in range(ctx.budget(1500, 60000)):
        mpairs.append(check_malformed(ctx, mb, mutate(ctx, pick(ctx, caps + gen[:200])), "mutation"))
    for _ in range(ctx.budget(1500, 60000)):
        n = ctx.rng.randrange(0, 24)
        x = rbytes(ctx, n)
        if n >= 2 and ctx.rng.randrange(4):
            x = bytes([pick(ctx, LRRP_DOCS + [0, 0x16, 0x27, 0x28, 0x80]), ctx.rng.randrange(0, n + 2)]) + x[2:]
        mpairs.append(check_malformed(ctx, mb, x, "random"))
    if not ctx.search_only and ctx.driver_ok:
        correspond(ctx, "from_bytes+as_bytes(malformed)", mpairs)
    # ---- the sample under other interpreter / process states (everything is restored after each)
    for cfg in ambient_settings():
        main = cfg in AMBIENT_MAIN
        run_items(ctx, mb, LRRP, items if main else items[::3], refs if main else refs[::3], cfg)
    ctx.count("ambient:log-records-formatted-by-the-capturing-handler", LOG_RECORDS[0])
    children_collect(ctx, children)
    import histories

    histories.run(ctx, ENTRY_POINTS)
    # the documents parsed at the beginning, after everything else the run did in this process
    verify_held(ctx, mb)
    ctx.exhaustive = False


def replay(obj):
    import subprocess

    from common import BIN

    logging.disable(logging.CRITICAL)
    mb, LRRP = mods()
    f = obj.get("failure") or {}
    inp = f.get("input", {})
    print(json.dumps(obj.get("type")), f.get("what"))
    if str(f.get("kind", "")).startswith("history:"):
        import histories

        return histories.replay(inp, ENTRY_POINTS)
    for d in (obj.get("correspondence_differences") or [])[:5]:
        print("correspondence difference:", d)
    still = 1
    lines = []
    if inp.get("op") == "parse":
        x = bytes.fromhex(inp["buffer"])
        line, ds = parse_str(mb, x)
        print(f"implementation from_bytes({inp['buffer']}) -> {line}")
        lines.append(f"lrrp.parse {hx(x)}")
        if ds is not None:
            segs = [timed(mb.MBXML.as_bytes, d) for d in ds]
            ok = all(not isinstance(s, str) for s in segs) and b"".join(segs) == x and walk_lengths(x) == len(ds)
            print("re-serialised:", "".join(s if isinstance(s, str) else s.hex() for s in segs))
            if f.get("kind") == "token-values" and len(ds) > inp.get("document", 0):
                print("expected:", f.get("expected"))
                ok = ok and str(f.get("expected")) == str(
                    [(p.token_id, val_str(p), [attr_str(a) for a in p.attributes if not isinstance(a, int)]) for p in ds[inp.get("document", 0)].parts])
            if f.get("kind") == "constant-table" and len(ds) > inp.get("document", 0):
                print("expected constant table:", f.get("expected"))
                ok = ok and f.get("expected") == bytes(ds[inp.get("document", 0)].constants_table).hex()
            still = 0 if ok and f.get("kind") not in ("parse-hangs",) else 1
            if f.get("kind") in ("consumed", "parse-hangs") and line != "HANG":
                still = 0 if walk_lengths(x) == len(ds) else 1
        else:
            still = 1 if f.get("kind") not in ("consumed",) else 0
            if f.get("kind") == "parse-hangs":
                still = 1 if line == "HANG" else 0
    elif inp.get("op") == "api":
        lines.append(inp["line"])
        out, doc, pr, diag = api_eval(mb, LRRP, inp["line"])
        print("implementation assembled", out)
        for kind, what, expected, actual, extra in pr:
            print(f"  {kind}: {what}\n    expected {expected}\n    actual   {actual} {extra}")
        if "without_tokens" in inp:
            still = 1 if any(k == "api-roundtrip-rest" for k, *_ in pr) else 0
        else:
            still = 1 if any(k != "api-roundtrip-rest" for k, *_ in pr) else 0
    elif inp.get("op") == "session":
        st = SessionState()
        still = 0
        for n, step in enumerate(inp["steps"]):
            pr, pp = session_step(mb, LRRP, st, step)
            lines += [l for l, _ in pp]
            for l, o in pp:
                print(f"step {n} implementation {l[:160]} -> {o[:300]}")
            for kind, what, expected, actual in pr:
                still = 1
                print(f"step {n} {step['s']}: {kind}: {what}\n    expected {expected}\n    actual   {actual}")
    elif inp.get("op") == "history":
        x = bytes.fromhex(inp["buffer"])
        lines.append(f"lrrp.parse {hx(x)}")
        print(f"from_bytes({inp['buffer']}) -> {parse_str(mb, x)[0]}")
        print("read-only use of the returned documents [document, accessor, variant]:", inp["ops"], "(serialised once before)" if inp.get("serialised_before") else "")
        pr = history_eval(mb, LRRP, x, inp["ops"], inp.get("serialised_before", False))
        for kind, what, expected, actual in pr:
            print(f"  {kind}: {what}\n    expected {expected}\n    actual   {actual}")
        still = 1 if pr else 0
    elif inp.get("op") == "api-history":
        lines.append(inp["line"])
        pr = api_history_eval(mb, LRRP, inp["line"], inp["ops"], inp.get("with_configuration", False))
        print("read-only use of the assembled document [document, accessor, variant]:", inp["ops"])
        for kind, what, expected, actual in pr:
            print(f"  {kind}: {what}\n    expected {expected}\n    actual   {actual}")
        still = 1 if pr else 0
    elif inp.get("op") == "edit-history":
        pr = edit_history(mb, LRRP, inp)
        print("document:", inp.get("buffer") or inp.get("line"), "\nread-only use after the first as_bytes:", inp["ops"], "\nthen edits of doc.parts:", inp["edits"])
        for kind, what, expected, actual in pr:
            print(f"  {kind}: {what}\n    expected {expected}\n    actual   {actual}")
        still = 1 if pr else 0
    elif inp.get("op") == "ambient":
        cfg = inp["ambient"]
        print(f"process state for this replay: {amb_text(cfg)}")
        ref = item_eval(mb, LRRP, inp["item"])
        box = []
        with ambient(cfg):
            if cfg.get("thread"):
                th = threading.Thread(target=lambda: box.append(item_eval(mb, LRRP, inp["item"])))
                th.start()
                th.join()
            else:
                box.append(item_eval(mb, LRRP, inp["item"]))
        got = box[0] if box else ["", [["thread-died", "", "", ""]]]
        diff = item_differs(ref, got)
        print(f"default setting : {ref[0][:600]} {[q[0] for q in ref[1]]}")
        print(f"under the setting: {got[0][:600]} {[q[0] for q in got[1]]}")
        for q in got[1]:
            print(f"  {q[0]}: {q[1]}\n    expected {q[2]}\n    actual   {q[3]}")
        still = 1 if diff else 0
    elif inp.get("op") == "child":
        mode = inp["mode"]
        print(f"re-running the item in a child interpreter [{mode}]")
        if inp.get("item") is None:
            res = child_result(child_start(mode, []))
            print("child:", res.get("fatal"))
            return 1 if res.get("fatal") is not None else 0
        ref = item_eval(mb, LRRP, inp["item"])
        print(f"this interpreter : {ref[0][:600]} {[q[0] for q in ref[1]]}")
        res = child_result(child_start(mode, [[inp["item"], ref]]))
        for x in res.get("failures", []):
            print(f"child [{mode}, sys.flags.optimize={res.get('optimize')}]: {x['what']}\n    expected {x['expected']}\n    actual   {x['actual']}")
        if res.get("fatal") is not None:
            print("child:", res["fatal"])
        still = 1 if res.get("failures") or res.get("fatal") is not None else 0
    elif inp.get("op") == "hold":
        x = bytes.fromhex(inp["first"])
        line, ds = parse_str(mb, x)
        still = 0
        if ds is not None and len(ds) > inp.get("document", 0):
            d = ds[inp.get("document", 0)]
            snap = doc_str(mb, d)
            for h in inp.get("then", []):
                timed(mb.MBXML.from_bytes, bytes.fromhex(h))
                now = doc_str(mb, d)
                if now != snap:
                    print(f"after from_bytes({h}) the document held from from_bytes({inp['first']}) reads\n    {now}\n  instead of\n    {snap}")
                    still = 1
                    break
    exe = os.path.join(BIN, "drv_c15")
    if lines and os.path.exists(exe):
        out = subprocess.run([exe], input="\n".join(lines) + "\n", capture_output=True, text=True).stdout.split("\n")
        for l, o in zip(lines, out):
            print(f"model          {l[:200]} -> {o}")
    print("expected:", f.get("expected"), "actual:", f.get("actual"))
    return still
