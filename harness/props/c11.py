"""C11 — Reed-Solomon (12,9) over GF(2^8) (DESIGN §5 C11).

Correspondence: `log_multiply`, `generate`, `check` of the real `ReedSolomon1294` against the Lean model
(`drv_c11`).  Oracle: the property itself on the real code, with an arithmetic of GF(2^8) that shares
nothing with the module under test (shift-and-add multiplication modulo 0x11D, powers of alpha by
repeated multiplication, syndromes by Horner, an encoder by polynomial long division by
(x-a)(x-a^2)(x-a^3) built from the roots).
"""
import itertools
import os
import subprocess

from common import BIN, hex_str, impl_error

PROP = "C11"
MODULES = ["C11", "C11a", "C11b", "C11c", "C11d"]
GEN = ["Rs"]
MATCHERS = {}

# ------------------------------------------------------------------------------------------------
# independent GF(2^8) arithmetic, field polynomial x^8+x^4+x^3+x^2+1
FIELD_POLY = 0x11D


def gf_mul(a: int, b: int) -> int:
    r = 0
    while b:
        if b & 1:
            r ^= a
        b >>= 1
        a <<= 1
        if a & 0x100:
            a ^= FIELD_POLY
    return r


def gf_pow(a: int, n: int) -> int:
    r = 1
    for _ in range(n):
        r = gf_mul(r, a)
    return r


ALPHA = 2
ROOTS = [gf_pow(ALPHA, j) for j in (1, 2, 3)]


def poly_eval(word, r: int) -> int:
    acc = 0
    for x in word:  # highest degree first
        acc = gf_mul(acc, r) ^ x
    return acc


def syndromes(word):
    return [poly_eval(word, r) for r in ROOTS]


def _genpoly():
    # (x - r1)(x - r2)(x - r3), highest degree first
    g = [1]
    for r in ROOTS:
        g = [x ^ y for x, y in zip(g + [0], [0] + [gf_mul(c, r) for c in g])]
    return g


GENPOLY = _genpoly()  # [1, 14, 56, 64] if the arithmetic above is GF(2^8)/0x11D


def ref_parity(data: bytes) -> bytes:
    """remainder of data(x)*x^3 by g(x), by schoolbook long division"""
    rem = list(data) + [0, 0, 0]
    for i in range(len(data)):
        c = rem[i]
        if c:
            for k in range(1, 4):
                rem[i + k] ^= gf_mul(c, GENPOLY[k])
    return bytes(rem[-3:])


def xor_b(a: bytes, b: bytes) -> bytes:
    return bytes(x ^ y for x, y in zip(a, b))


def unmask(word: bytes, mask: bytes) -> bytes:
    return word[:9] + xor_b(word[9:], mask)


# ------------------------------------------------------------------------------------------------
def rs():
    from okdmr.dmrlib.etsi.fec.reed_solomon_12_9_4 import ReedSolomon1294

    return ReedSolomon1294


def std_masks():
    from okdmr.dmrlib.etsi.layer2.elements.crc_masks import CrcMasks

    return [
        ("VoiceLCHeader", CrcMasks.VoiceLCHeader.value.to_bytes(3, byteorder="big")),
        ("TerminatorWithLC", CrcMasks.TerminatorWithLC.value.to_bytes(3, byteorder="big")),
    ]


def call(fn, *a):
    try:
        return fn(*a)
    except BaseException as e:  # noqa
        return impl_error(e)


def out_mul(r):
    return r if isinstance(r, str) else str(int(r))


def out_gen(r):
    return r if isinstance(r, str) else hex_str(bytes(r))


def out_chk(r):
    if isinstance(r, str):
        return r
    return "1" if r is True else ("0" if r is False else f"ERR not-bool {type(r).__name__}")


# captured full link control words of the repository's own test (data+parity, mask name)
CORPUS = [
    ("0300002635a903d475cb8795", "VoiceLCHeader"),
    ("03000003d4752635a96fed09", "VoiceLCHeader"),
    ("03000003d4752635a960e206", "TerminatorWithLC"),
    ("0300002635a903d475c4889a", "TerminatorWithLC"),
]


# ------------------------------------------------------------------------------------------------
# single evaluations of the property on the real code; each returns None (holds) or
# (what, expected, actual).  Used by run() and by replay().
def eval_mul(R, a, b):
    got = call(R.log_multiply, a, b)
    exp = gf_mul(a, b)
    if got != exp:
        return (f"log_multiply({a},{b}) differs from multiplication in GF(2^8) mod 0x11D", exp, out_mul(got))
    return None


def eval_generate(R, data: bytes, mask: bytes):
    c = call(R.generate, data, mask)
    if isinstance(c, str):
        return ("generate raises on a 9-octet message and 3-octet mask", "12 octets", c)
    c = bytes(c)
    if len(c) != 12 or c[:9] != data:
        return ("generate does not return the message followed by three parity octets", hex_str(data) + "??????", hex_str(c))
    s = syndromes(unmask(c, mask))
    if any(s):
        return ("generated word, mask removed, has non-zero syndromes at alpha^1..alpha^3 (not a multiple of g)", [0, 0, 0], s)
    ref = data + xor_b(ref_parity(data), mask)
    if c != ref:  # implied by the two checks above (the code word with a given data part is unique)
        return ("generated word differs from polynomial long division by g", hex_str(ref), hex_str(c))
    k = call(R.check, c, mask)
    if k is not True:
        return ("check rejects the word generate produced under the same mask", True, out_chk(k))
    return None


def eval_word(R, word: bytes, mask: bytes):
    """check accepts exactly the words with zero syndromes under the mask"""
    k = call(R.check, word, mask)
    want = not any(syndromes(unmask(word, mask)))
    if k is not want:
        return ("check disagrees with 'all three syndromes of the unmasked word are zero'", want, out_chk(k))
    return None


def eval_detect(R, data: bytes, mask: bytes, err: bytes):
    """err: 12 octets, 1..3 non-zero"""
    c = call(R.generate, data, mask)
    if isinstance(c, str):
        return ("generate raises on a 9-octet message and 3-octet mask", "12 octets", c)
    w = xor_b(bytes(c), err)
    k = call(R.check, w, mask)
    if k is not False:
        return (f"corruption of {sum(1 for x in err if x)} octet(s) of a generated word is not detected", False, out_chk(k))
    return None


def eval_linear(R, a: bytes, b: bytes):
    z = b"\x00\x00\x00"
    ca, cb, cab = call(R.generate, a, z), call(R.generate, b, z), call(R.generate, xor_b(a, b), z)
    if any(isinstance(x, str) for x in (ca, cb, cab)):
        return ("generate raises on a 9-octet message", "12 octets", str((ca, cb, cab)))
    if xor_b(bytes(ca), bytes(cb)) != bytes(cab):
        return ("generate is not additive (GF(2)-linear) under the zero mask", hex_str(xor_b(bytes(ca), bytes(cb))), hex_str(bytes(cab)))
    return None


def eval_scale(R, a: bytes, s: int):
    """GF(256)-linearity: generate(s*a) = s*generate(a) under the zero mask"""
    z = b"\x00\x00\x00"
    ca = call(R.generate, a, z)
    sa = bytes(gf_mul(s, x) for x in a)
    cs = call(R.generate, sa, z)
    if isinstance(ca, str) or isinstance(cs, str):
        return ("generate raises on a 9-octet message", "12 octets", str((ca, cs)))
    want = bytes(gf_mul(s, x) for x in bytes(ca))
    if bytes(cs) != want:
        return ("generate is not GF(256)-homogeneous under the zero mask", hex_str(want), hex_str(bytes(cs)))
    return None


# ------------------------------------------------------------------------------------------------
def rand_error(rng, weight=None, positions=None):
    pos = positions if positions is not None else rng.sample(range(12), weight)
    e = [0] * 12
    for p in pos:
        e[p] = rng.randrange(1, 256)
    return bytes(e)


def run(ctx):
    R = rs()
    rng = ctx.rng
    masks = std_masks()
    mask_by_name = dict(masks)
    zero = b"\x00\x00\x00"
    ctx.rule = (
        "log_multiply: all 65,536 octet pairs against shift-and-add multiplication mod 0x11D (both tiers; the "
        "correspondence takes all pairs in thorough, 4,096 seeded pairs + all pairs with an operand in {0,1,2,3,127,128,254,255} in quick). "
        "generate/check: messages = the 4 captured LC words of the repository's test, all-zero, all-0xFF, single-symbol "
        "basis messages (9 positions x seeded values; all 9x255 in thorough), messages built so that the LFSR feedback symbol "
        "takes every value 0..255 (every position in thorough; the zero-feedback step on a non-zero register at every position "
        "in both tiers), seeded random messages; masks = the two 24-bit "
        "CrcMasks the standard defines for RS(12,9) (VoiceLCHeader, TerminatorWithLC), the zero default and seeded random masks; "
        "per generated word: every single position with a seeded value, seeded 2- and 3-symbol errors (in thorough every "
        "position pair/triple on sampled words and all 12x255 single errors), errors confined to parity, the other masks; "
        "random 12-octet words and words at distance 4 (xor of two code words) through check against independently computed "
        "syndromes; additivity and GF(256)-homogeneity of generate. Out-of-domain inputs (other lengths, operands >= 256) are "
        "compared with the model as a note only. A case is non-trivial unless message and mask are all-zero (a product: unless an operand is 0); "
        "distinct = distinct (operation, operands)."
    )
    ctx.trusted_base += [
        "Lean 4.33 kernel",
        "tools/extract_rs.py (reads EXPONENTIAL_TABLE / LOG_TABLE / POLYNOMIAL of ReedSolomon1294 and the two 24-bit CrcMasks from /repo)",
        "hand-written model of log_multiply / generate / check / xor_bytes (Model/Rs.lean) tied to the code by this run's correspondence",
        "the reference multiplication clmulMod (carry-less product, long division by 0x11D) is the definition of GF(2^8) the theorems are relative to",
        "harness-side independent GF(2^8) arithmetic (shift-and-add) used by the oracle",
    ]
    ctx.assumptions += [
        "messages, masks and received words are Python bytes (every element an octet); the theorems carry this as the hypothesis isBytes",
        "the mask has 3 octets (the two masks the standard defines, the default, or any other 3 octets)",
    ]

    # ------------------------------------------------------------------ multiplication
    pairs = []
    # oracle: exhaustive in both tiers (cheap)
    bad = 0
    for a in range(256):
        for b in range(256):
            r = eval_mul(R, a, b)
            ctx.case(("mul", a, b), nontrivial=(a != 0 and b != 0))
            if r is not None:
                bad += 1
                if bad <= 20:
                    ctx.fail("mul", {"a": a, "b": b}, r[0], expected=r[1], actual=r[2])
    ctx.count("mul:oracle-pairs", 65536)
    # reachable table entries, stated directly (redundant with the above, but names the entry)
    for i in range(509):
        if R.EXPONENTIAL_TABLE[i] != gf_pow(ALPHA, i % 255):
            ctx.fail("exp-table", {"index": i}, f"EXPONENTIAL_TABLE[{i}] is not alpha^{i}", expected=gf_pow(ALPHA, i % 255), actual=int(R.EXPONENTIAL_TABLE[i]))
            break
    if ctx.thorough() or ctx.boost > 1:
        cpairs = [(a, b) for a in range(256) for b in range(256)]
    else:
        cpairs = {(rng.randrange(256), rng.randrange(256)) for _ in range(ctx.budget(4096, 4096))}
        edge = [0, 1, 2, 3, 127, 128, 254, 255]
        cpairs |= {(a, b) for a in edge for b in range(256)} | {(a, b) for a in range(256) for b in edge}
        cpairs = sorted(cpairs)
    # out-of-range operands: the zero short-cut is taken before any table access
    oor = [(256, 1), (1, 256), (0, 256), (256, 0), (300, 7), (7, 511), (0, 100000), (512, 512), (255, 256)]
    ood = []  # outside the property's domain: compared with the model, differences are notes, never a verdict
    for a, b in cpairs:
        got = call(R.log_multiply, a, b)
        pairs.append((f"rs.mul {a} {b}", out_mul(got)))
        ctx.case(("mul-corr", a, b), nontrivial=(a != 0 and b != 0), sample={"op": "log_multiply", "a": a, "b": b, "out": out_mul(got)} if (a, b) in ((2, 128), (255, 255)) else None)
    for a, b in oor:
        ood.append(("log_multiply(out-of-range operand)", f"rs.mul {a} {b}", out_mul(call(R.log_multiply, a, b))))
    ctx.count("mul:zero-operand", sum(1 for a, b in cpairs if a == 0 or b == 0))
    if not ctx.search_only and ctx.driver_ok:
        ctx.correspond("log_multiply", pairs)

    # the oracle's own arithmetic must describe the same generator polynomial as the module (sanity of the oracle)
    if GENPOLY != [1, 14, 56, 64]:
        raise RuntimeError("harness arithmetic broken")
    if list(R.POLYNOMIAL[:4])[::-1] != GENPOLY or any(R.POLYNOMIAL[4:]):
        ctx.fail("polynomial", {}, "POLYNOMIAL is not x^3+14x^2+56x+64 = (x-a)(x-a^2)(x-a^3)", expected=GENPOLY[::-1], actual=list(R.POLYNOMIAL))

    # ------------------------------------------------------------------ messages and masks
    msgs = []
    for hx, mname in CORPUS:
        msgs.append((bytes.fromhex(hx)[:9], mask_by_name[mname], "corpus"))
    msgs += [(bytes(9), zero, "zero"), (bytes([255] * 9), zero, "ones"), (bytes(9), masks[0][1], "zero"), (bytes([255] * 9), masks[1][1], "ones")]
    if ctx.thorough():
        basis = [(p, v) for p in range(9) for v in range(1, 256)]
    else:
        basis = [(p, v) for p in range(9) for v in {1, 2, 128, 255, rng.randrange(1, 256), rng.randrange(1, 256)}]
    for p, v in basis:
        d = bytearray(9)
        d[p] = v
        msgs.append((bytes(d), rng.choice(masks + [("zero", zero)])[1], "basis"))
    # directed: force every LFSR feedback symbol s = data[i] ^ parity[2] (so every product P[k]*s the encoder can
    # form), at every position, on top of a random non-zero register; s = 0 (the "nothing to feed back" step) with a
    # non-zero register at every position.  The register is predicted with the harness-side long division.
    if ctx.thorough():
        targets = [(sv, i) for sv in range(256) for i in range(9)]
    else:
        targets = [(sv, rng.randrange(9)) for sv in range(256)] + [(0, i) for i in range(1, 9)] * 2
    for sv, i in targets:
        d = bytearray(rng.randrange(256) for _ in range(9))
        if i > 0 and not any(d[:i]):
            d[0] = rng.randrange(1, 256)
        d[i] = sv ^ ref_parity(bytes(d[:i]))[0]
        msgs.append((bytes(d), rng.choice(masks + [("zero", zero)])[1], "feedback-zero" if sv == 0 else "feedback-forced"))
    for _ in range(ctx.budget(250, 4000)):
        d = bytes(rng.randrange(256) for _ in range(9))
        r = rng.random()
        if r < 0.35:
            m = masks[0][1]
        elif r < 0.7:
            m = masks[1][1]
        elif r < 0.8:
            m = zero
        else:
            m = bytes(rng.randrange(256) for _ in range(3))
        msgs.append((d, m, "random"))

    gen_pairs, chk_pairs = [], []
    all_masks = [m for _, m in masks] + [zero]

    def chk_line(w, m):
        k = call(R.check, w, m)
        chk_pairs.append((f"rs.check {hex_str(w)} {hex_str(m)}", out_chk(k)))
        return k

    # captured words first: they must be accepted as they are
    for hx, mname in CORPUS:
        w = bytes.fromhex(hx)
        m = mask_by_name[mname]
        k = chk_line(w, m)
        ctx.case(("check", hx, mname), sample={"op": "check", "word": hx, "mask": hex_str(m), "out": out_chk(k)})
        r = eval_word(R, w, m)
        if r is not None:
            ctx.fail("check-exact", {"word": hx, "mask": hex_str(m)}, r[0], expected=r[1], actual=r[2])

    n_deep = 0
    for idx, (d, m, origin) in enumerate(msgs):
        nontriv = any(d) or any(m)
        c = call(R.generate, d, m)
        gen_pairs.append((f"rs.gen {hex_str(d)} {hex_str(m)}", out_gen(c)))
        ctx.case(("gen", d, m), nontrivial=nontriv, sample={"op": "generate", "data": hex_str(d), "mask": hex_str(m), "out": out_gen(c)} if idx in (0, 9) else None)
        ctx.count(f"msg:{origin}")
        r = eval_generate(R, d, m)
        if r is not None:
            ctx.fail("generate", {"data": hex_str(d), "mask": hex_str(m)}, r[0], expected=r[1], actual=r[2])
        if isinstance(c, str):
            continue
        c = bytes(c)
        chk_line(c, m)
        # the same word under the other masks: unmasked it is a code word plus a non-zero word confined to the parity,
        # so it must be rejected
        for m2 in all_masks:
            if m2 != m:
                k = chk_line(c, m2)
                ctx.case(("othermask", d, m, m2), nontrivial=nontriv)
                r = eval_word(R, c, m2)
                if r is not None:
                    ctx.fail("check-exact", {"word": hex_str(c), "mask": hex_str(m2)}, r[0], expected=r[1], actual=r[2])
        # error patterns
        errs = []
        for p in range(12):  # every single position
            errs.append(rand_error(rng, positions=[p]))
        for _ in range(4):
            errs.append(rand_error(rng, 2))
            errs.append(rand_error(rng, 3))
        errs.append(rand_error(rng, positions=rng.sample(range(9, 12), rng.randrange(1, 4))))  # parity only
        errs.append(rand_error(rng, positions=[rng.randrange(9), rng.randrange(9, 12)]))
        # low-weight-looking patterns: equal values / single bits
        v = rng.randrange(1, 256)
        ps = rng.sample(range(12), 3)
        errs.append(bytes(v if i in ps else 0 for i in range(12)))
        errs.append(bytes((1 << rng.randrange(8)) if i in ps[:2] else 0 for i in range(12)))
        deep = ctx.thorough() and origin in ("corpus", "random") and n_deep < 12
        if deep:
            n_deep += 1
            if n_deep <= 3:
                errs += [bytes(v if i == p else 0 for i in range(12)) for p in range(12) for v in range(1, 256)]
            errs += [rand_error(rng, positions=list(ps2)) for ps2 in itertools.combinations(range(12), 2) for _ in range(3)]
            errs += [rand_error(rng, positions=list(ps3)) for ps3 in itertools.combinations(range(12), 3) for _ in range(2)]
        for e in errs:
            wgt = sum(1 for x in e if x)
            w = xor_b(c, e)
            k = chk_line(w, m)
            ctx.case(("detect", d, m, e), nontrivial=True, sample={"op": "check(corrupted)", "data": hex_str(d), "mask": hex_str(m), "error": hex_str(e), "out": out_chk(k)} if idx == 1 and wgt == 3 else None)
            ctx.count(f"error-weight:{wgt}")
            if k is not False:
                ctx.fail("detect", {"data": hex_str(d), "mask": hex_str(m), "error": hex_str(e)}, f"corruption of {wgt} octet(s) of a generated word is not detected", expected=False, actual=out_chk(k))
        if not ctx.search_only and len(chk_pairs) > 200000 and ctx.driver_ok:
            ctx.correspond("check", chk_pairs)
            chk_pairs.clear()

    # ------------------------------------------------------------------ arbitrary received words
    for _ in range(ctx.budget(1500, 30000)):
        m = rng.choice(all_masks) if rng.random() < 0.8 else bytes(rng.randrange(256) for _ in range(3))
        kind = rng.random()
        if kind < 0.5:
            w = bytes(rng.randrange(256) for _ in range(12))
            ctx.count("word:random")
        elif kind < 0.75:
            # a valid word built by the reference encoder (never touched the code under test)
            d = bytes(rng.randrange(256) for _ in range(9))
            w = d + xor_b(ref_parity(d), m)
            ctx.count("word:reference-codeword")
        else:
            # distance exactly >= 4 from a code word in a structured way: xor of two valid words = valid word under zero mask
            d1 = bytes(rng.randrange(256) for _ in range(9))
            d2 = bytearray(9)
            d2[rng.randrange(9)] = rng.randrange(1, 256)
            w1 = d1 + xor_b(ref_parity(d1), m)
            w = xor_b(w1, bytes(d2) + ref_parity(bytes(d2)))
            ctx.count("word:codeword-plus-weight4-codeword")
        k = chk_line(w, m)
        ctx.case(("word", w, m))
        r = eval_word(R, w, m)
        if r is not None:
            ctx.fail("check-exact", {"word": hex_str(w), "mask": hex_str(m)}, r[0], expected=r[1], actual=r[2])

    # ------------------------------------------------------------------ linearity of the encoder
    for _ in range(ctx.budget(200, 3000)):
        a = bytes(rng.randrange(256) for _ in range(9))
        b = bytes(rng.randrange(256) for _ in range(9))
        ctx.case(("linear", a, b))
        r = eval_linear(R, a, b)
        if r is not None:
            ctx.fail("linearity", {"a": hex_str(a), "b": hex_str(b)}, r[0], expected=r[1], actual=r[2])
        s = rng.randrange(2, 256)
        r = eval_scale(R, a, s)
        ctx.case(("scale", a, s))
        if r is not None:
            ctx.fail("homogeneity", {"a": hex_str(a), "s": s}, r[0], expected=r[1], actual=r[2])

    # ------------------------------------------------------------------ malformed lengths
    # Outside the property (it speaks of 9-octet messages, 3-octet masks, 12-octet words).  The model mirrors the
    # assertions and the zip truncation of xor_bytes; the comparison is reported as a note, never as a verdict.
    for _ in range(ctx.budget(60, 400)):
        ld = rng.choice([0, 1, 8, 10, 12, 9, 9])
        lm = rng.choice([0, 1, 2, 4, 6]) if ld == 9 else rng.choice([0, 1, 2, 3, 4, 6])
        d = bytes(rng.randrange(256) for _ in range(ld))
        m = bytes(rng.randrange(256) for _ in range(lm))
        ood.append(("generate(malformed length)", f"rs.gen {hex_str(d)} {hex_str(m)}", out_gen(call(R.generate, d, m))))
        lw = rng.choice([0, 9, 11, 13, 12, 12])
        if lw == 12 and lm == 3:
            lw = 11
        w = bytes(rng.randrange(256) for _ in range(lw))
        if lw == 12 and lm > 3 and rng.random() < 0.5:
            w = w[:9] + xor_b(ref_parity(w[:9]), m)  # accepted: zip stops after three mask octets
        ood.append(("check(malformed length)", f"rs.check {hex_str(w)} {hex_str(m)}", out_chk(call(R.check, w, m))))
        ctx.count(f"out-of-domain:data{ld}/mask{lm}/word{lw}")

    if not ctx.search_only and ctx.driver_ok:
        ctx.correspond("generate", gen_pairs)
        ctx.correspond("check", chk_pairs)
        outs = ctx.drive([ln for _, ln, _ in ood])
        ndiff = 0
        for (comp, ln, impl), model in zip(ood, outs):
            if impl != model:
                ndiff += 1
                if ndiff <= 5:
                    ctx.notes.append(f"out-of-domain behaviour differs from the model (not part of C11, no verdict): {comp}: {ln} -> implementation {impl}, model {model}")
        ctx.count("out-of-domain:compared", len(ood))
        if ndiff:
            ctx.count("out-of-domain:differences", ndiff)


# ------------------------------------------------------------------------------------------------
def _model(lines):
    exe = os.path.join(BIN, "drv_c11")
    if not os.path.exists(exe):
        return ["(model driver not built)"] * len(lines)
    p = subprocess.run([exe], input="\n".join(lines) + "\n", capture_output=True, text=True, timeout=60)
    return p.stdout.split("\n")[: len(lines)]


def replay(obj):
    f = obj.get("failure") or {}
    inp = f.get("input") or {}
    kind = f.get("kind")
    R = rs()
    print(f"replay C11 kind={kind} what={f.get('what')}")
    r = None
    lines = []
    if kind == "mul":
        a, b = int(inp["a"]), int(inp["b"])
        print(f"implementation log_multiply({a},{b}) = {out_mul(call(R.log_multiply, a, b))}; GF(2^8) mod 0x11D: {gf_mul(a, b)}")
        lines = [f"rs.mul {a} {b}"]
        r = eval_mul(R, a, b)
    elif kind == "exp-table":
        i = int(inp["index"])
        print(f"implementation EXPONENTIAL_TABLE[{i}] = {R.EXPONENTIAL_TABLE[i]}; alpha^{i} = {gf_pow(ALPHA, i % 255)}")
        r = None if R.EXPONENTIAL_TABLE[i] == gf_pow(ALPHA, i % 255) else ("table entry", gf_pow(ALPHA, i % 255), R.EXPONENTIAL_TABLE[i])
    elif kind == "polynomial":
        print(f"implementation POLYNOMIAL = {list(R.POLYNOMIAL)}; (x-a)(x-a^2)(x-a^3) low first = {GENPOLY[::-1]}")
        r = None if (list(R.POLYNOMIAL[:4])[::-1] == GENPOLY and not any(R.POLYNOMIAL[4:])) else ("polynomial", GENPOLY[::-1], list(R.POLYNOMIAL))
    elif kind == "generate":
        d, m = bytes.fromhex(inp["data"]), bytes.fromhex(inp["mask"])
        c = call(R.generate, d, m)
        print(f"implementation generate({d.hex()}, {m.hex()}) = {out_gen(c)}")
        if not isinstance(c, str):
            print(f"syndromes of the unmasked word at alpha^1..3 = {syndromes(unmask(bytes(c), m))}; check = {out_chk(call(R.check, bytes(c), m))}")
        lines = [f"rs.gen {hex_str(d)} {hex_str(m)}"]
        r = eval_generate(R, d, m)
    elif kind == "detect":
        d, m, e = bytes.fromhex(inp["data"]), bytes.fromhex(inp["mask"]), bytes.fromhex(inp["error"])
        c = call(R.generate, d, m)
        print(f"implementation generate({d.hex()}, {m.hex()}) = {out_gen(c)}")
        if not isinstance(c, str):
            w = xor_b(bytes(c), e)
            print(f"implementation check({w.hex()}, {m.hex()}) = {out_chk(call(R.check, w, m))}  (error pattern {e.hex()})")
            lines = [f"rs.check {hex_str(w)} {hex_str(m)}"]
        r = eval_detect(R, d, m, e)
    elif kind == "check-exact":
        w, m = bytes.fromhex(inp["word"]), bytes.fromhex(inp["mask"])
        print(f"implementation check({w.hex()}, {m.hex()}) = {out_chk(call(R.check, w, m))}; syndromes of the unmasked word = {syndromes(unmask(w, m))}")
        lines = [f"rs.check {hex_str(w)} {hex_str(m)}"]
        r = eval_word(R, w, m)
    elif kind == "linearity":
        r = eval_linear(R, bytes.fromhex(inp["a"]), bytes.fromhex(inp["b"]))
    elif kind == "homogeneity":
        r = eval_scale(R, bytes.fromhex(inp["a"]), int(inp["s"]))
    else:
        print("unknown failure kind; nothing to replay")
        return 0
    for ln, out in zip(lines, _model(lines)):
        print(f"model {ln} = {out}")
    if r is None:
        print("property holds on this input now")
        return 0
    print(f"STILL FAILS: {r[0]}; expected {r[1]} actual {r[2]}")
    return 1
