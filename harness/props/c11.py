"""C11 — Reed-Solomon (12,9) over GF(2^8) (DESIGN §5 C11).

Correspondence: `log_multiply`, `generate`, `check` of the real `ReedSolomon1294` against the Lean model
(`drv_c11`).  Oracle: the property itself on the real code, with an arithmetic of GF(2^8) that shares
nothing with the module under test (shift-and-add multiplication modulo 0x11D, powers of alpha by
repeated multiplication, syndromes by Horner, an encoder by polynomial long division by
(x-a)(x-a^2)(x-a^3) built from the roots).

Besides boundary / basis / forced-feedback / random messages the generators construct, with the same independent
arithmetic (Gauss-Jordan over GF(2^8) on the systematic generator matrix: any nine symbols of a code word can be
prescribed), the structured inputs random sampling never reaches: the kernel of the parity map (messages q(x)g(x),
FEC field = bare mask), prescribed parity / FEC targets, minimum-weight code words, prescribed LFSR register
mid-way (`algebraic_msgs`, `structured_words`), and the register at a fixed point / on a short cycle of the step map crossed with equalities
between the message octets that follow (`stationary_msgs`).  `run_script` replays *histories* (generate / check / edit-in-place
steps with bytes / bytearray / list / tuple / memoryview arguments) against the reference and verifies after every
step that no object the caller holds has changed: generate and check must behave as functions of the octets.

Super-codes (`subcode_patterns`, `target_patterns`, `prefix_patterns`, `two_root_families`, `sibling_words`): a checker
that tests only a subset of the conditions that define the code (two of the three roots, two of the three parity
octets, a wrong zero test on the syndromes) accepts every generated word and rejects every random corruption one is
likely to draw; the wrong words it accepts are the weight-2/3 words of a larger code, and these are solved for, for every
position triple / pair, and enumerated completely for the 2-root and 1-root super-codes.  The verdict is always the
property's own: a generated word with one to three octets changed must be rejected.
"""
import itertools
import os
import subprocess

from common import BIN, hex_str, impl_error

PROP = "C11"
MODULES = ["C11", "C11a", "C11b", "C11c", "C11d", "C11t"]
GEN = ["Rs", "TranslRs"]
MATCHERS = {}

# ------------------------------------------------------------------------------------------------
# independent GF(2^8) arithmetic, field polynomial x^8+x^4+x^3+x^2+1
FIELD_POLY = 0x11D


def gf_mul(a: int, b: int) -> int:
    r = 0
    while b:
        if b & 1:
            r ^= a
        b >>= 1
        a <<= 1
        if a & 0x100:
            a ^= FIELD_POLY
    return r


def gf_pow(a: int, n: int) -> int:
    r = 1
    for _ in range(n):
        r = gf_mul(r, a)
    return r


ALPHA = 2
ROOTS = [gf_pow(ALPHA, j) for j in (1, 2, 3)]


def poly_eval(word, r: int) -> int:
    acc = 0
    for x in word:  # highest degree first
        acc = gf_mul(acc, r) ^ x
    return acc


def syndromes(word):
    return [poly_eval(word, r) for r in ROOTS]


def _genpoly():
    # (x - r1)(x - r2)(x - r3), highest degree first
    g = [1]
    for r in ROOTS:
        g = [x ^ y for x, y in zip(g + [0], [0] + [gf_mul(c, r) for c in g])]
    return g


GENPOLY = _genpoly()  # [1, 14, 56, 64] if the arithmetic above is GF(2^8)/0x11D


def ref_parity(data: bytes) -> bytes:
    """remainder of data(x)*x^3 by g(x), by schoolbook long division"""
    rem = list(data) + [0, 0, 0]
    for i in range(len(data)):
        c = rem[i]
        if c:
            for k in range(1, 4):
                rem[i + k] ^= gf_mul(c, GENPOLY[k])
    return bytes(rem[-3:])


def xor_b(a: bytes, b: bytes) -> bytes:
    return bytes(x ^ y for x, y in zip(a, b))


def unmask(word: bytes, mask: bytes) -> bytes:
    return word[:9] + xor_b(word[9:], mask)


# ------------------------------------------------------------------------------------------------
# structured (algebraic) inputs: code words with prescribed symbols, built with the arithmetic above only
_INV = {}


def gf_inv(a: int) -> int:
    if a not in _INV:
        _INV[a] = gf_pow(a, 254)
    return _INV[a]


def poly_mul(a, b):
    """product of two polynomials over GF(2^8), highest degree first"""
    r = [0] * (len(a) + len(b) - 1)
    for i, x in enumerate(a):
        if x:
            for j, y in enumerate(b):
                r[i + j] ^= gf_mul(x, y)
    return r


def _gen_rows():
    rows = []
    for j in range(9):
        e = bytearray(9)
        e[j] = 1
        rows.append(list(bytes(e) + ref_parity(bytes(e))))
    return rows


GEN_ROWS = _gen_rows()  # systematic generator matrix (9 x 12) of the code, zero mask


def solve_gf(A, b):
    """Gauss-Jordan over GF(2^8); None if singular"""
    n = len(A)
    M = [list(r) + [v] for r, v in zip(A, b)]
    for c in range(n):
        p = next((r for r in range(c, n) if M[r][c]), None)
        if p is None:
            return None
        M[c], M[p] = M[p], M[c]
        inv = gf_inv(M[c][c])
        M[c] = [gf_mul(inv, x) for x in M[c]]
        for r in range(n):
            if r != c and M[r][c]:
                f = M[r][c]
                M[r] = [x ^ gf_mul(f, y) for x, y in zip(M[r], M[c])]
    return [M[r][n] for r in range(n)]


def solve_codeword(eqs):
    """The code word w (12 octets, zero mask) satisfying nine linear equations  xor_p coef[p]*w[p] = rhs  given as
    (dict position -> coefficient, rhs); None if the equations do not determine it.  `fix`/`tie` below build the
    two usual kinds.  Any nine *positions* may be prescribed (the code is MDS), ties may be singular."""
    A = [[0] * 9 for _ in eqs]
    for r, (coef, _) in enumerate(eqs):
        for j in range(9):
            acc = 0
            for p, c in coef.items():
                acc ^= gf_mul(c, GEN_ROWS[j][p])
            A[r][j] = acc
    d = solve_gf(A, [rhs for _, rhs in eqs])
    if d is None:
        return None
    w = bytes(d) + ref_parity(bytes(d))
    ok = not any(syndromes(w))
    for coef, rhs in eqs:
        acc = 0
        for p, c in coef.items():
            acc ^= gf_mul(c, w[p])
        ok = ok and acc == rhs
    if not ok:
        raise RuntimeError("harness arithmetic broken (solve_codeword)")
    return w


def fix(p, v):
    return ({p: 1}, v)


def tie(p, q, v=0):
    """w[p] ^ w[q] = v"""
    return ({p: 1, q: 1}, v)


def algebraic_msgs(rng, std, thorough, scale=1):
    """(message, mask, origin): messages whose parity / LFSR register is prescribed.  `std` = the three masks
    VoiceLCHeader, TerminatorWithLC, zero.  Random messages reach any of these classes with probability 2^-24."""
    out = []
    ff = b"\xff\xff\xff"

    def some_masks(k):
        pool = list(std) + [ff, bytes(rng.randrange(256) for _ in range(3))]
        return pool if thorough else rng.sample(pool, k)

    # (a) kernel of the parity map: the message is q(x) g(x), deg q <= 5  =>  parity 00 00 00, the FEC field is the bare mask
    qs = []
    for k in range(6):
        for v in ({1, 255, rng.randrange(1, 256)} if thorough else {1, rng.randrange(2, 256)}):
            q = [0] * 6
            q[k] = v
            qs.append(q)  # message of weight 4 (a minimum-weight word of the kernel)
    for _ in range((40 if thorough else 10) * scale):
        q = [rng.randrange(256) for _ in range(6)]
        z = rng.randrange(4)
        if z == 1:
            n0 = rng.randrange(1, 5)
            q[:n0] = [0] * n0  # low degree
        elif z == 2:
            q = [rng.choice((0, 0, 1, 255, rng.randrange(256))) for _ in range(6)]
        if not any(q):
            q[rng.randrange(6)] = 1
        qs.append(q)
    qs += [[1] * 6, [255] * 6, [0, 0, 0, 0, 0, 1], [1, 0, 0, 0, 0, 0]]
    for q in qs:
        d = bytes(poly_mul(q, GENPOLY))
        if len(d) != 9 or any(ref_parity(d)):
            raise RuntimeError("harness arithmetic broken (q*g)")
        for m in some_masks(3):
            out.append((d, m, "alg:zero-parity(q*g)"))

    # (b) parity hits a prescribed target / is tied to message octets; 6 message octets free, 3 solved
    def target_eqs(kind, m):
        o = [m2 for m2 in std if m2 != m]
        v = rng.randrange(1, 256)
        if kind == "parity=000000":
            return [fix(9 + i, 0) for i in range(3)]
        if kind == "parity=ffffff":
            return [fix(9 + i, 255) for i in range(3)]
        if kind == "fec=000000":  # parity equals the mask: the transmitted FEC field is 00 00 00
            return [fix(9 + i, m[i]) for i in range(3)]
        if kind == "fec=ffffff":
            return [fix(9 + i, m[i] ^ 255) for i in range(3)]
        if kind == "fec=other-mask":  # the transmitted FEC field looks like the bare mask of another data type
            return [fix(9 + i, m[i] ^ o[0][i]) for i in range(3)]
        if kind == "parity=other-mask":
            return [fix(9 + i, o[-1][i]) for i in range(3)]
        if kind == "parity=vvvvvv":
            return [fix(9 + i, v) for i in range(3)]
        if kind == "parity=00vv00":
            return [fix(9, 0), fix(10, v), fix(11, 0)]
        if kind == "parity=msg[0:3]":
            return [tie(9 + i, i) for i in range(3)]
        if kind == "parity=msg[6:9]":
            return [tie(9 + i, 6 + i) for i in range(3)]
        if kind == "parity=reversed(msg[6:9])":
            return [tie(9 + i, 8 - i) for i in range(3)]
        if kind == "fec=msg[0:3]":
            return [tie(9 + i, i, m[i]) for i in range(3)]
        if kind == "fec=msg[3:6]":
            return [tie(9 + i, 3 + i, m[i]) for i in range(3)]
        if kind == "parity=msg[0:3]^msg[3:6]":
            return [({9 + i: 1, i: 1, 3 + i: 1}, 0) for i in range(3)]
        if kind == "parity=msg[0:3]^msg[3:6]^msg[6:9]":
            return [({9 + i: 1, i: 1, 3 + i: 1, 6 + i: 1}, 0) for i in range(3)]
        if kind == "fec=msg[0:3]^msg[6:9]":
            return [({9 + i: 1, i: 1, 6 + i: 1}, m[i]) for i in range(3)]
        if kind == "parity=alpha*msg[6:9]":
            return [({9 + i: 1, 6 + i: ALPHA}, 0) for i in range(3)]
        if kind == "parity-octets-xor-to-zero,msg-octets-xor-to-zero":
            return [({9: 1, 10: 1, 11: 1}, 0), ({j: 1 for j in range(9)}, 0), fix(9, v)]
        raise KeyError(kind)

    kinds = ["parity=msg[0:3]^msg[3:6]", "parity=msg[0:3]^msg[3:6]^msg[6:9]", "fec=msg[0:3]^msg[6:9]", "parity=alpha*msg[6:9]",
             "parity-octets-xor-to-zero,msg-octets-xor-to-zero", "parity=000000", "parity=ffffff", "fec=000000", "fec=ffffff", "fec=other-mask", "parity=other-mask",
             "parity=vvvvvv", "parity=00vv00", "parity=msg[0:3]", "parity=msg[6:9]", "parity=reversed(msg[6:9])",
             "fec=msg[0:3]", "fec=msg[3:6]"]
    for kind in kinds:
        for m in some_masks(3):
            for _ in range((4 if thorough else 2) * scale):
                for _attempt in range(8):
                    free = rng.sample(range(9), 6)
                    style = rng.randrange(4)
                    vals = [(0 if style == 1 else 255 if style == 2 else rng.randrange(256)) for _ in free]
                    if style == 3:
                        vals = [rng.choice((0, 0, rng.randrange(256))) for _ in free]
                    w = solve_codeword([fix(p, x) for p, x in zip(free, vals)] + target_eqs(kind, m))
                    if w is not None and any(w[:9]):
                        out.append((w[:9], m, "alg:" + kind))
                        break

    # (c) minimum-weight code words (weight 4) on a prescribed support: 8 zeros and one non-zero octet prescribed
    supports = list(itertools.combinations(range(12), 4))
    if not thorough:
        supports = rng.sample(supports, 40 * scale if 40 * scale < len(supports) else len(supports))
    for S in supports:
        p0 = rng.choice(S)
        w = solve_codeword([fix(p, 0) for p in range(12) if p not in S] + [fix(p0, rng.choice((1, 255, rng.randrange(1, 256))))])
        if w is None or sum(1 for x in w if x) != 4:
            raise RuntimeError("harness arithmetic broken (weight-4 word)")
        out.append((w[:9], rng.choice(std), "alg:weight4-codeword"))

    # (d) the LFSR register takes a prescribed value after i message octets (the prefix alone has that remainder)
    for i in range(3, 9):
        v = rng.randrange(1, 256)
        for t in ([0, 0, 0], [255, 255, 255], [0, v, v], [v, 0, v], [v, v, 0], [0, 0, v], [v, 0, 0], [v, v, v]):
            if i == 3 and not any(t):
                continue  # only the zero prefix
            for _ in range((3 if thorough else 1) * scale):
                eqs = [fix(p, 0) for p in range(9 - i)] + [fix(9 + k, t[k]) for k in range(3)]
                eqs += [fix(9 - i + k, rng.randrange(256)) for k in range(i - 3)]
                w = solve_codeword(eqs)
                if w is None:
                    raise RuntimeError("harness arithmetic broken (register target)")
                prefix = w[9 - i: 9]
                if ref_parity(prefix) != bytes(t):
                    raise RuntimeError("harness arithmetic broken (register target)")
                style = rng.randrange(3)
                tail = bytes((0 if style == 0 else 255 if style == 1 else rng.randrange(256)) for _ in range(9 - i))
                if any(prefix + tail):
                    out.append((prefix + tail, rng.choice(list(std) + [ff]), "alg:register-target"))
    return out


# ------------------------------------------------------------------------------------------------
# dynamics of the division register: fixed points and cycles of the step map, crossed with equalities between octets
#
# Dividing by g one octet at a time is the affine map  T_x(R) = (R*X + x*X^3) mod g  on the 3-octet register R.  X+1 is
# invertible modulo g (1 is not a root of g), so for EVERY symbol x there is exactly one register state F_x with
# T_x(F_x) = F_x (F_x = x*F_1; F_0 is the zero register): while the same symbol keeps arriving the register does not
# move at all.  For a word x_1..x_k of symbols  T_{x_k} o .. o T_{x_1}  likewise has exactly one fixed point as long as
# X^k+1 is invertible modulo g (k < 85): a register on a cycle of period k.  [Under ONE repeated symbol there are no
# cycles of period 2..84 other than the fixed point: X^k+1 is invertible.]  An encoder that watches its register
# ("nothing changed, the rest is fill", "same state as k steps ago, the input is periodic") is only ever wrong on
# these states, which a random message meets with probability 2^-24 per step and no basis / constant / two-valued
# message meets at all; they are solved for here, for every state, every step, and crossed with the relations between
# the stationary symbol and the octets that follow (all equal / only the last equal / one different in between / ...).
def ref_step(reg, x: int):
    """(R*X + x*X^3) mod g on reg = [r2, r1, r0] (highest degree first), with GENPOLY from the roots"""
    s = x ^ reg[0]
    return [reg[1] ^ gf_mul(s, GENPOLY[1]), reg[2] ^ gf_mul(s, GENPOLY[2]), gf_mul(s, GENPOLY[3])]


def _step_matrix():
    """T_x(R) = A R + x b (columns of A: images of the unit registers under T_0; b = T_1(0))"""
    cols = [ref_step([1 if i == j else 0 for i in range(3)], 0) for j in range(3)]
    A = [[cols[j][i] for j in range(3)] for i in range(3)]
    return A, ref_step([0, 0, 0], 1)


STEP_A, STEP_B = _step_matrix()


def cycle_state(word):
    """the register R with T_{x_k}(..T_{x_1}(R)..) = R for word = x_1..x_k; None if not unique"""
    # the composite map is affine: M R + c with c = image of the zero register, M = image of the unit registers ^ c
    def run_word(r):
        for x in word:
            r = ref_step(r, x)
        return r

    c = run_word([0, 0, 0])
    cols = [[a ^ b for a, b in zip(run_word([1 if i == j else 0 for i in range(3)]), c)] for j in range(3)]
    M = [[cols[j][i] ^ (1 if i == j else 0) for j in range(3)] for i in range(3)]  # M + I
    r = solve_gf(M, c)
    if r is None:
        return None
    if run_word(list(r)) != list(r):
        raise RuntimeError("harness arithmetic broken (cycle_state)")
    return list(r)


def _prefix_inverse():
    # ref_parity of a 3-octet message u is an invertible linear map (u*X^3 mod g); its inverse by three solves
    cols = [list(ref_parity(bytes(1 if i == j else 0 for i in range(3)))) for j in range(3)]
    M = [[cols[j][i] for j in range(3)] for i in range(3)]
    inv_cols = [solve_gf(M, [1 if i == j else 0 for i in range(3)]) for j in range(3)]
    if any(c is None for c in inv_cols):
        raise RuntimeError("harness arithmetic broken (prefix inverse)")
    return [[inv_cols[j][i] for j in range(3)] for i in range(3)]


PREFIX_INV = _prefix_inverse()


def prefix_with_register(free: bytes, target):
    """free ++ u (three solved octets) whose division register is `target` = [r2, r1, r0]; len >= 3"""
    r0 = ref_parity(bytes(free) + bytes(3))
    t = [a ^ b for a, b in zip(target, r0)]
    u = [apply_row(PREFIX_INV[i], t) for i in range(3)]
    p = bytes(free) + bytes(u)
    if list(ref_parity(p)) != list(target):
        raise RuntimeError("harness arithmetic broken (prefix_with_register)")
    return p


STD_MASKS_HEX = ("969696", "999999")  # only to aim a register at; run() takes the masks from CrcMasks of /repo


TAIL_RELATIONS = ("fill-to-the-end", "only-last-equal", "one-different-in-between", "all-equal-but-last", "stays-then-leaves",
                  "random-tail", "next-equal-last-equal", "first-octet-equal")


def _other(rng, x):
    return rng.choice([v for v in (x ^ 1, x ^ 0x80, 0, 255, rng.randrange(256), rng.randrange(256)) if v != x])


def tail_for(rng, rel, word, n):
    """n octets that follow a stationary / periodic stretch whose symbol word is `word` (continued cyclically = the
    register stays on its cycle), related to it as `rel` says"""
    k = len(word)
    fill = [word[j % k] for j in range(n)]  # the honest continuation
    t = list(fill)
    if n == 0:
        return bytes(t)
    if rel == "fill-to-the-end":
        pass
    elif rel == "only-last-equal":
        t = [_other(rng, fill[j]) for j in range(n)]
        t[-1] = fill[-1]
    elif rel == "one-different-in-between":
        j = rng.randrange(n - 1) if n > 1 else 0
        t[j] = _other(rng, t[j])
    elif rel == "all-equal-but-last":
        t[-1] = _other(rng, t[-1])
    elif rel == "stays-then-leaves":
        j = rng.randrange(n)
        t[j:] = [_other(rng, fill[q]) if q == j else rng.randrange(256) for q in range(j, n)]
    elif rel == "random-tail":
        t = [rng.randrange(256) for _ in range(n)]
    elif rel == "next-equal-last-equal":
        t = [rng.randrange(256) for _ in range(n)]
        t[0], t[-1] = fill[0], fill[-1]
        if n > 2:
            t[1] = _other(rng, fill[1])
    elif rel == "first-octet-equal":
        t = [rng.randrange(256) for _ in range(n)]
    else:
        raise KeyError(rel)
    return bytes(t)


def stationary_msgs(rng, thorough, scale=1):
    """(message, origin, info): info = {"i": first stationary step, "k": period, "rel": relation of the tail}.
    The register BEFORE step i (after the octets d[:i]) is the fixed point / cycle state, d[i:i+k] is the symbol word
    that brings it back, so the register after step i+k-1 equals the register before step i."""
    out = []
    F1 = cycle_state([1])
    if F1 is None or not any(F1):
        raise RuntimeError("harness arithmetic broken (fixed point of the step map)")
    # (1) every non-zero fixed point x every step 3..8 (the register can be prescribed from step 3 on) x tail relations
    rels_q = list(TAIL_RELATIONS)
    for x in range(1, 256):
        F = [gf_mul(x, c) for c in F1]
        if ref_step(F, x) != F or (F[0] ^ x) == 0:
            raise RuntimeError("harness arithmetic broken (fixed point)")
        for y in (x ^ 1, x ^ 255):
            if ref_step(F, y) == F:
                raise RuntimeError("harness arithmetic broken (fixed point under another symbol)")
        for i in range(3, 9):
            rels = rels_q if thorough else [rels_q[(x + i + j + rng.randrange(2)) % len(rels_q)] for j in range(0, 6, 2)] + ["only-last-equal", "fill-to-the-end"]
            for rel in dict.fromkeys(rels):
                for _ in range(scale if rel in ("only-last-equal", "one-different-in-between", "next-equal-last-equal") else 1):
                    style = rng.randrange(3)
                    free = bytes((0 if style == 0 else rng.randrange(256)) for _ in range(i - 3))
                    p = prefix_with_register(free, F)
                    if rel == "first-octet-equal" and i >= 4:
                        p = prefix_with_register(bytes([x]) + free[1:], F)
                    d = p + bytes([x]) + tail_for(rng, rel, [x], 8 - i)
                    out.append((d, "stationary:fixed-point:" + rel, {"i": i, "k": 1, "rel": rel}))
    # (2) cycles of period 2..4 under a symbol word that is not constant
    n_words = (24 if thorough else 6) * scale
    for k in (2, 3, 4):
        for i in range(3, 10 - k):
            for _ in range(n_words):
                word = [rng.randrange(256) for _ in range(k)]
                z = rng.randrange(4)
                if z == 0:
                    word[rng.randrange(k)] = 0
                elif z == 1:
                    word = [word[0]] * (k - 1) + [_other(rng, word[0])]
                if len(set(word)) == 1:
                    word[-1] ^= 1
                R = cycle_state(word)
                if R is None:
                    continue
                free = bytes(rng.randrange(256) for _ in range(i - 3))
                p = prefix_with_register(free, R)
                for rel in (TAIL_RELATIONS[:7] if thorough else rng.sample(TAIL_RELATIONS[:7], 3)):
                    d = p + bytes(word) + tail_for(rng, rel, word, 9 - i - k)
                    if ref_parity(d[: i + k]) != ref_parity(d[:i]):
                        raise RuntimeError("harness arithmetic broken (cycle)")
                    out.append((d, f"stationary:period-{k}:" + rel, {"i": i, "k": k, "rel": rel}))
    # (3) the register meets the data / the mask: equal to the three octets that follow (three zero feedbacks in a
    # row: the register empties itself), to the three octets before, to the stationary symbol in all three cells
    for i in range(3, 9):
        for _ in range((12 if thorough else 3) * scale):
            free = bytes(rng.randrange(256) for _ in range(i - 3))
            nxt = [rng.randrange(1, 256) for _ in range(3)]
            kinds = [("register=next-three-octets", nxt), ("register=xxx(next-octet)", [nxt[0]] * 3), ("register=reversed-next-three", nxt[::-1])]
            for lab, target in kinds:
                p = prefix_with_register(free, target)
                rest = (bytes(nxt) + bytes(rng.randrange(256) for _ in range(9)))[: 9 - i]
                out.append((p + rest, "stationary:" + lab, {"i": i, "k": 0, "rel": lab}))
            # partially stationary: the step leaves two of the three cells unchanged and moves the third (a comparison of
            # a slice of the register); the register equals a mask of the standard / its reverse (the caller's mask rides along)
            for moved in range(3):
                # feedback s; the two cells that stay satisfy their fixed-point equation, the third is off by a non-zero amount
                sfb = rng.randrange(1, 256)
                off = rng.randrange(1, 256)
                r0 = gf_mul(sfb, GENPOLY[3]) ^ (off if moved == 0 else 0)
                r1 = r0 ^ gf_mul(sfb, GENPOLY[2]) ^ (off if moved == 1 else 0)
                r2 = r1 ^ gf_mul(sfb, GENPOLY[1]) ^ (off if moved == 2 else 0)
                reg, sym = [r2, r1, r0], sfb ^ r2
                nreg = ref_step(reg, sym)
                same = [a_ == b_ for a_, b_ in zip(reg, nreg)]
                if same != [moved != 2, moved != 1, moved != 0]:
                    raise RuntimeError("harness arithmetic broken (partially stationary register)")
                p = prefix_with_register(free, reg)
                lab = f"two-cells-unchanged(parity[{moved}]-moves)"
                for rel in ("only-last-equal", "fill-to-the-end"):
                    out.append((p + bytes([sym]) + tail_for(rng, rel, [sym], 8 - i), "stationary:" + lab + ":" + rel, {"i": i, "k": 1, "rel": rel}))
            for mk in STD_MASKS_HEX:
                mb = bytes.fromhex(mk)
                for lab, target in (("register=mask", list(mb)), ("register=reversed-mask", list(mb[::-1]))):
                    p = prefix_with_register(free, target)
                    out.append((p + bytes(rng.randrange(256) for _ in range(9 - i)), "stationary:" + lab, {"i": i, "k": 0, "rel": lab, "mask": mb}))
            # register equals the three octets that produced it (prefix fixed point of u -> u*X^3 mod g shifted by the free part)
            if i >= 4:
                # d[i-3:i] = register: solve (P + I) u = r0 where r0 = register contribution of the free part
                r0 = list(ref_parity(free + bytes(3)))
                cols = [list(ref_parity(bytes(1 if a == b else 0 for a in range(3)))) for b in range(3)]
                M = [[cols[b][a] ^ (1 if a == b else 0) for b in range(3)] for a in range(3)]
                u = solve_gf(M, r0)
                if u is not None and any(u):
                    p = free + bytes(u)
                    if list(ref_parity(p)) != list(u):
                        raise RuntimeError("harness arithmetic broken (register = last three octets)")
                    out.append((p + bytes(rng.randrange(256) for _ in range(9 - i)), "stationary:register=last-three-octets", {"i": i, "k": 0, "rel": "register=last-three-octets"}))
    return out


def relation_msgs(rng, n):
    """(message, mask, origin): arithmetic relations among the message octets / 16- and 24-bit words of the message and the mask
    (an octet that is the xor / sum / difference / and / or of two others, a word that is a rotation of another, the mask
    equal to message octets) — no algebra needed, the verdict comes from the syndromes as always"""
    out = []
    ops = {"xor": lambda a, b, w: a ^ b, "add": lambda a, b, w: a + b, "sub": lambda a, b, w: a - b, "and": lambda a, b, w: a & b, "or": lambda a, b, w: a | b,
           "rotl4": lambda a, b, w: (a << 4) | (a >> (w - 4)), "rotl1": lambda a, b, w: (a << 1) | (a >> (w - 1)), "not": lambda a, b, w: ~a, "eq": lambda a, b, w: a}
    names = list(ops)
    for j in range(n):
        d = bytearray(rng.randrange(256) for _ in range(9))
        m = bytes(rng.randrange(256) for _ in range(3))
        k = rng.choice((1, 1, 2, 3))  # word size in octets
        slots = list(range(0, 9 - k + 1, k))
        if len(slots) < 3:
            continue
        a, b, c = rng.sample(slots, 3)
        op = names[j % len(names)]
        x = int.from_bytes(d[a:a + k], "big")
        y = int.from_bytes(d[b:b + k], "big")
        z = ops[op](x, y, 8 * k) & ((1 << (8 * k)) - 1)
        d[c:c + k] = z.to_bytes(k, "big")
        how = rng.randrange(4)
        if how == 1:
            m = bytes(d[a:a + 3]) if a + 3 <= 9 else m  # the mask repeats message octets
        elif how == 2:
            m = bytes([d[a] ^ d[b], d[c], (d[a] + d[b]) & 255])
        if rng.random() < 0.3:  # a second relation on other octets
            rest = [q for q in slots if q not in (a, b, c)]
            if len(rest) >= 3:
                a2, b2, c2 = rng.sample(rest, 3)
                op2 = rng.choice(names)
                z2 = ops[op2](int.from_bytes(d[a2:a2 + k], "big"), int.from_bytes(d[b2:b2 + k], "big"), 8 * k) & ((1 << (8 * k)) - 1)
                d[c2:c2 + k] = z2.to_bytes(k, "big")
                op = op + "+" + op2
        out.append((bytes(d), m, f"relation:{8 * k}-bit-words:{op}"))
    return out


def structured_words(rng, std, n):
    """(word, mask, label): received words that look special; the verdict always comes from the syndromes"""
    out = []
    for _ in range(n):
        m = rng.choice(list(std) + [bytes(rng.randrange(256) for _ in range(3))])
        d = bytes(rng.randrange(256) for _ in range(9))
        p = xor_b(ref_parity(d), m)
        k = rng.randrange(12)
        if k == 0:
            w, lab = d + m, "bare-mask-fec"  # parity never computed
        elif k == 1:
            w, lab = d + bytes(3), "zero-fec"
        elif k == 2:
            w, lab = d + b"\xff\xff\xff", "ff-fec"
        elif k == 3:
            w, lab = d + d[:3], "fec=msg[0:3]"
        elif k == 4:
            w, lab = d + p[::-1], "fec-reversed"
        elif k == 5:
            w, lab = d + p[1:] + p[:1], "fec-rotated"
        elif k == 6:
            w, lab = d + ref_parity(d), "fec-unmasked"
        elif k == 7:
            w, lab = d + xor_b(ref_parity(d[::-1]), m), "fec-of-reversed-message"
        elif k == 8:
            v = rng.randrange(256)
            w, lab = bytes([v] * 12), "all-octets-equal"
        elif k == 9:
            a, b = rng.randrange(256), rng.randrange(256)
            w, lab = bytes([a, b] * 6), "alternating"
        elif k == 10:
            s, t = rng.randrange(256), rng.choice((1, 255, 17))
            w, lab = bytes((s + t * i) & 255 for i in range(12)), "arithmetic-progression"
        else:
            # a weight-4 code word with one to three of its non-zero octets cleared / one changed, under the mask
            S = rng.sample(range(12), 4)
            cw = solve_codeword([fix(q, 0) for q in range(12) if q not in S] + [fix(S[0], rng.randrange(1, 256))])
            e = bytearray(cw)
            how = rng.randrange(4)
            if how < 3:
                for q in S[: how + 1]:
                    e[q] = 0
                lab = f"weight4-codeword-minus-{how + 1}"
            else:
                lab = "weight4-codeword"
            w = bytes(e[:9]) + xor_b(bytes(e[9:]), m)
        out.append((w, m, lab))
    return out


# ------------------------------------------------------------------------------------------------
# error patterns with a prescribed image under a linear map (super-codes of the code: "passes a SUBSET of the checks")
#
# Whatever a checker computes, a word c ^ e (c generated) is judged by what the checker sees of e.  A checker that
# tests only SOME of the conditions that define the code accepts a strictly larger (super-)code, and the wrong words it
# accepts are the low-weight words of that super-code: they are never met by random corruption (a 3-octet pattern that
# vanishes at two of the three roots is one 255-member family per position triple, 1.5e-5 of all), so they are solved
# for here, with the arithmetic of this file only.  Two linear maps GF(2^8)^12 -> GF(2^8)^3 describe the two ways a
# checker can be written: the syndromes (e(alpha), e(alpha^2), e(alpha^3)) for "evaluate at the roots", and the
# re-encoding difference  parity(e[:9]) ^ e[9:]  for "regenerate and compare".  Any 3 columns of either map are
# independent (the code is MDS), so on every position triple every target has exactly one pre-image.
def root_row(j: int):
    """the functional e -> e(alpha^j) (octets = coefficients, highest degree first); j any integer"""
    r = gf_pow(ALPHA, j % 255)
    return [gf_pow(r, 11 - p) for p in range(12)]


def _rem_rows():
    rows = [[0] * 12 for _ in range(3)]
    for p in range(12):
        u = bytearray(12)
        u[p] = 1
        r = xor_b(ref_parity(bytes(u[:9])), bytes(u[9:]))
        for k in range(3):
            rows[k][p] = r[k]
    return rows


SYN_ROWS = [root_row(j) for j in (1, 2, 3)]
REM_ROWS = _rem_rows()
LINMAPS = (("syn", SYN_ROWS), ("rem", REM_ROWS))


def unit_row(p: int):
    return [1 if q == p else 0 for q in range(12)]


def apply_row(row, e) -> int:
    acc = 0
    for c, x in zip(row, e):
        if c and x:
            acc ^= gf_mul(c, x)
    return acc


def remainder(e: bytes):
    """what a regenerate-and-compare checker sees of a word (zero mask): parity(e[:9]) ^ e[9:]"""
    return list(xor_b(ref_parity(bytes(e[:9])), bytes(e[9:])))


def solve_pattern(S, eqs):
    """the 12-octet pattern supported inside the positions S with  row . e = rhs  for every (row, rhs) of eqs
    (len(eqs) == len(S)); None if the equations are singular on S"""
    A = [[row[p] for p in S] for row, _ in eqs]
    x = solve_gf(A, [rhs for _, rhs in eqs])
    if x is None:
        return None
    e = [0] * 12
    for p, v in zip(S, x):
        e[p] = v
    for row, rhs in eqs:
        if apply_row(row, e) != rhs:
            raise RuntimeError("harness arithmetic broken (solve_pattern)")
    return bytes(e)


def weight(e) -> int:
    return sum(1 for x in e if x)


ZERO_SETS = ((0,), (1,), (2,), (0, 1), (0, 2), (1, 2))  # proper non-empty subsets of the three conditions


def zs_name(mapname, Z):
    if mapname == "syn":
        return "vanishes-at-" + "+".join(f"a^{z + 1}" for z in Z)
    return "reencode-difference-zero-in-octet-" + "+".join(str(z) for z in Z)


def subcode_patterns(rng, thorough):
    """(pattern, label): for every position triple and each proper subset Z of the three conditions of either map a
    pattern of weight exactly 3 that meets exactly the conditions in Z; for every position pair and each single
    condition a pattern of weight exactly 2 that meets it; near misses at distance 1 of those."""
    out = []
    triples = list(itertools.combinations(range(12), 3))
    pairs = list(itertools.combinations(range(12), 2))
    for mapname, rows in LINMAPS:
        for S in triples:
            for Z in ZERO_SETS:
                for _attempt in range(16):
                    eqs = [(rows[k], 0 if k in Z else rng.choice((1, 255, rng.randrange(1, 256), rng.randrange(1, 256)))) for k in range(3)]
                    e = solve_pattern(S, eqs)
                    if e is None:
                        raise RuntimeError("harness arithmetic broken (three columns of an MDS map are dependent)")
                    if weight(e) == 3:
                        break
                else:
                    # the re-encoding difference of a pattern inside the parity octets is the pattern itself: a zero
                    # component there clears the octet; at the roots weight 3 is always possible
                    if mapname == "syn":
                        raise RuntimeError("harness arithmetic broken (no weight-3 pattern)")
                img = [apply_row(rows[k], e) for k in range(3)]
                if [k for k in range(3) if img[k] == 0] != list(Z) or not 1 <= weight(e) <= 3:
                    raise RuntimeError("harness arithmetic broken (zero set)")
                out.append((e, f"{mapname}:w{weight(e)}:{zs_name(mapname, Z)}"))
        for S in pairs:
            for k in range(3):
                e = solve_pattern(S, [(rows[k], 0), (unit_row(S[rng.randrange(2)]), rng.choice((1, 255, rng.randrange(1, 256))))])
                if mapname == "rem" and (e is None or weight(e) != 2):
                    continue  # a pair that contains parity octet k (see above)
                if e is None or weight(e) != 2 or apply_row(rows[k], e) != 0:
                    raise RuntimeError("harness arithmetic broken (weight-2 pattern)")
                out.append((e, f"{mapname}:w2:{zs_name(mapname, (k,))}"))
    # distance 1 from the above: one octet changed (same support), one cleared, one more set / one moved
    near = []
    step = 1 if thorough else 2
    for i in range(rng.randrange(step), len(out), step):
        e, lab = out[i]
        supp = [p for p in range(12) if e[p]]
        how = rng.randrange(4)
        f = bytearray(e)
        p = rng.choice(supp)
        if how == 0:
            f[p] ^= rng.choice([x for x in (1, 0x80, rng.randrange(1, 256), rng.randrange(1, 256)) if x != f[p]])
            what = "one-octet-changed"
        elif how == 1:
            f[p] = 0
            what = "one-octet-cleared"
        elif how == 2 and len(supp) == 2:
            f[rng.choice([q for q in range(12) if q not in supp])] = rng.randrange(1, 256)
            what = "one-octet-added"
        else:
            q = rng.choice([q for q in range(12) if q not in supp])
            f[q], f[p] = f[p], 0
            what = "one-octet-moved"
        if 1 <= weight(f) <= 3:
            near.append((bytes(f), lab.split(":")[0] + ":near:" + what))
    return out + near


def target_patterns(rng, thorough, boost=1):
    """(pattern, label): patterns of weight <= 3 whose image under either map is a value a wrong test for "all three
    are zero" could let through: three equal octets, all ones, a mask, single bits, sums/xors that cancel."""
    out = []
    triples = list(itertools.combinations(range(12), 3))
    masks3 = [bytes.fromhex(h) for h in ("969696", "999999", "0f0f0f", "ffffff")]
    for mapname, rows in LINMAPS:
        targets = []
        for v in range(1, 256):
            targets.append(((v, v, v), "three-equal"))
        for m in masks3:
            targets.append((tuple(m), "equals-a-mask"))
            targets.append((tuple(xor_b(m, masks3[0])) if m != masks3[0] else tuple(xor_b(m, masks3[1])), "xor-of-two-masks"))
        for k in range(3):
            for bit in range(8):
                t = [0, 0, 0]
                t[k] = 1 << bit
                targets.append((tuple(t), "single-bit"))
        for _ in range(24):
            v, w = rng.randrange(1, 256), rng.randrange(1, 256)
            targets += [((v, w, v ^ w), "xor-of-the-three-is-zero"), ((v, v, w), "two-equal"), ((v, w, w), "two-equal"), ((v, w, v), "two-equal"),
                        ((v, gf_mul(v, v), gf_mul(v, gf_mul(v, v))), "geometric"), ((v, (v + 1) & 255 or 1, (v + 2) & 255 or 1), "arithmetic")]
        for t, lab in targets:
            for S in rng.sample(triples, 40 if thorough else 2 * boost):
                e = solve_pattern(S, [(rows[k], t[k]) for k in range(3)])
                if e is None:
                    raise RuntimeError("harness arithmetic broken (target)")
                if 1 <= weight(e) <= 3:
                    out.append((e, f"{mapname}:target:{lab}"))
    return out


def prefix_patterns(rng, c_unmasked: bytes, n):
    """(pattern, label): the first k octets of the corrupted (unmasked) word are a multiple of g — every running
    value of a checker (Horner accumulators, LFSR register) is zero after k octets, the rest follows"""
    out = []
    for _ in range(n):
        k = rng.randrange(4, 12)
        S = sorted(rng.sample(range(k), 3))
        rows = []
        for j in (1, 2, 3):
            r = gf_pow(ALPHA, j)
            rows.append([gf_pow(r, k - 1 - p) if p < k else 0 for p in range(12)])
        e = solve_pattern(S, [(rows[i], apply_row(rows[i], c_unmasked)) for i in range(3)])
        if e is not None and 1 <= weight(e) <= 3:
            if any(syndromes(xor_b(c_unmasked, e)[:k])):
                raise RuntimeError("harness arithmetic broken (prefix)")
            out.append((e, "prefix-is-a-multiple-of-g"))
    return out


def two_root_families():
    """for each pair of roots and each position triple the generator (b0, b1, b2) of the 1-dimensional family of
    weight-3 patterns vanishing at that pair (all 255 non-zero multiples are members, and there are no others);
    for each single root and each position pair likewise for weight 2"""
    fam3, fam2 = [], []
    for Z in ((0, 1), (0, 2), (1, 2)):
        k = ({0, 1, 2} - set(Z)).pop()
        for S in itertools.combinations(range(12), 3):
            e = solve_pattern(S, [(SYN_ROWS[z], 0) for z in Z] + [(SYN_ROWS[k], 1)])
            if e is None or weight(e) != 3:
                raise RuntimeError("harness arithmetic broken (two-root family)")
            fam3.append((Z, S, tuple(e[p] for p in S)))
    for k in range(3):
        for S in itertools.combinations(range(12), 2):
            e = solve_pattern(S, [(SYN_ROWS[k], 0), (unit_row(S[0]), 1)])
            if e is None or weight(e) != 2:
                raise RuntimeError("harness arithmetic broken (one-root family)")
            fam2.append(((k,), S, tuple(e[p] for p in S)))
    return fam3, fam2


# ------------------------------------------------------------------------------------------------
# words of OTHER codes: the same construction with another generator / primitive element / field / coefficient
# order, and the mask on the wrong octets.  The verdict always comes from the syndromes at alpha^1..alpha^3.
def field_ops(poly: int):
    def mul(a, b):
        r = 0
        while b:
            if b & 1:
                r ^= a
            b >>= 1
            a <<= 1
            if a & 0x100:
                a ^= poly
        return r

    def pw(a, n):
        r = 1
        for _ in range(n):
            r = mul(r, a)
        return r

    return mul, pw


def word_with_roots(known: bytes, roots, poly=FIELD_POLY):
    """known (12 - len(roots) octets) followed by the octets that make the word vanish at every root (field `poly`)"""
    mul, pw = field_ops(poly)
    n = len(roots)
    U = list(range(12 - n, 12))
    base = list(known) + [0] * n
    M = []
    for r in roots:
        acc = 0
        for x in base:
            acc = mul(acc, r) ^ x
        M.append([pw(r, 11 - p) for p in U] + [acc])
    for c in range(n):  # Gauss-Jordan in the field `poly`
        piv = next((i for i in range(c, n) if M[i][c]), None)
        if piv is None:
            return None
        M[c], M[piv] = M[piv], M[c]
        inv = pw(M[c][c], 254)
        M[c] = [mul(inv, x) for x in M[c]]
        for i in range(n):
            if i != c and M[i][c]:
                f = M[i][c]
                M[i] = [x ^ mul(f, y) for x, y in zip(M[i], M[c])]
    w = bytes(list(known) + [M[i][n] for i in range(n)])
    for r in roots:
        acc = 0
        for x in w:
            acc = mul(acc, r) ^ x
        if acc:
            raise RuntimeError("harness arithmetic broken (word_with_roots)")
    return w


def sibling_words(rng, std, n):
    """(word, mask, label): n rounds over every sibling kind"""
    out = []
    a = lambda j: gf_pow(ALPHA, j % 255)  # noqa: E731
    mulB, pwB = field_ops(0x11B)
    root_sets = [
        ("roots-a^0..a^2", [a(0), a(1), a(2)], FIELD_POLY), ("roots-a^2..a^4", [a(2), a(3), a(4)], FIELD_POLY),
        ("roots-a^1,a^2,a^4", [a(1), a(2), a(4)], FIELD_POLY), ("roots-a^-1..a^-3", [a(-1), a(-2), a(-3)], FIELD_POLY),
        ("roots-b^1..b^3(b=a^2)", [a(2), a(4), a(6)], FIELD_POLY), ("roots-b^1..b^3(b=3)", [3, gf_mul(3, 3), gf_mul(3, gf_mul(3, 3))], FIELD_POLY),
        ("roots-2,4,8-in-field-0x11B", [2, 4, 8], 0x11B), ("roots-3^1..3^3-in-field-0x11B", [3, mulB(3, 3), pwB(3, 3)], 0x11B),
        ("roots-2,4,8-in-field-0x12B", [2, 4, 8], 0x12B),
        ("sub-code:roots-a^0..a^3(a code word)", [a(0), a(1), a(2), a(3)], FIELD_POLY), ("sub-code:roots-a^1..a^4(a code word)", [a(1), a(2), a(3), a(4)], FIELD_POLY),
        ("super-code:roots-a^1,a^2", [a(1), a(2)], FIELD_POLY), ("super-code:roots-a^2,a^3", [a(2), a(3)], FIELD_POLY), ("super-code:roots-a^1,a^3", [a(1), a(3)], FIELD_POLY),
        ("super-code:root-a^1", [a(1)], FIELD_POLY), ("super-code:root-a^3", [a(3)], FIELD_POLY),
    ]
    for _ in range(n):
        style = rng.randrange(4)
        for lab, roots, poly in root_sets:
            k = 12 - len(roots)
            known = bytes((0 if style == 1 and i < 4 else 255 if style == 2 and i % 2 else rng.randrange(256)) for i in range(k))
            if not any(known):
                known = bytes([1]) + known[1:]
            w = word_with_roots(known, roots, poly)
            if w is None:
                continue
            for m in std + [bytes(rng.randrange(256) for _ in range(3))]:
                out.append((w[:9] + xor_b(w[9:], m), m, "other-code:" + lab))
        d = bytes(rng.randrange(256) for _ in range(9))
        cw = d + ref_parity(d)
        for m in std + [bytes(rng.randrange(256) for _ in range(3)), bytes.fromhex("0096ff")]:
            good = cw[:9] + xor_b(cw[9:], m)
            rev = cw[::-1]
            out.append((rev[:9] + xor_b(rev[9:], m), m, "order:whole-word-reversed"))
            out.append((rev, m, "order:whole-word-reversed-and-masked-data"))
            out.append((d[::-1] + good[9:], m, "order:message-reversed"))
            out.append((good[9:] + good[:9], m, "order:parity-first"))
            out.append((good[1:] + good[:1], m, "order:rotated-by-one"))
            lowfirst = ref_parity(d)[::-1]
            out.append((d + xor_b(lowfirst, m), m, "order:parity-low-coefficient-first"))
            for off, lab in ((0, "octets-0..2"), (3, "octets-3..5"), (6, "octets-6..8"), (8, "octets-8..10")):
                w = bytearray(cw)
                for i in range(3):
                    w[off + i] ^= m[i]
                out.append((bytes(w), m, "mask:on-" + lab))
            out.append((cw[:9] + xor_b(cw[9:], m[::-1]), m, "mask:reversed"))
            out.append((cw[:9] + xor_b(cw[9:], m[1:] + m[:1]), m, "mask:rotated"))
            out.append((cw[:9] + xor_b(cw[9:], bytes([m[0], 0, 0])), m, "mask:first-octet-only"))
            out.append((cw[:9] + xor_b(cw[9:], bytes([0, 0, m[2]])), m, "mask:last-octet-only"))
            out.append((xor_b(cw[:9], (m * 3)) + xor_b(cw[9:], m), m, "mask:on-every-octet"))
            out.append((cw[:9] + xor_b(cw[9:], bytes(x ^ 255 for x in m)), m, "mask:complemented"))
            out.append((cw[:9] + xor_b(cw[9:], bytes(((x << 4) | (x >> 4)) & 255 for x in m)), m, "mask:nibbles-swapped"))
    return out


# ------------------------------------------------------------------------------------------------
# ambient interpreter state (the property says "always"): a fixed small sample is evaluated once more with the root
# logger at DEBUG, with sys.stdout replaced by a writer that raises, with `random` reseeded before every call, in
# one child interpreter started with -O (assert statements stripped) and in one fresh child interpreter in which the
# first calls ever made on the class are malformed ones (error-path state).
AMBIENTS = ("logging-debug", "stdout-raises", "random-reseeded")


class _RaisingWriter:
    def write(self, *_a):
        raise OSError("stdout is closed")

    def flush(self):
        raise OSError("stdout is closed")


def with_ambient(mode, fn):
    import logging
    import random as _random
    import sys

    if mode == "logging-debug":
        root = logging.getLogger()
        old, oldh = root.level, list(root.handlers)
        nh = logging.NullHandler()
        root.addHandler(nh)
        root.setLevel(logging.DEBUG)
        try:
            return fn()
        finally:
            root.setLevel(old)
            root.removeHandler(nh)
            root.handlers[:] = oldh
    if mode == "stdout-raises":
        old = sys.stdout
        sys.stdout = _RaisingWriter()
        try:
            return fn()
        finally:
            sys.stdout = old
    if mode == "random-reseeded":
        st = _random.getstate()
        _random.seed(0)
        try:
            return fn()
        finally:
            _random.setstate(st)
    return fn()


def eval_item(R, it):
    """one sample item {"op": "generate"|"detect"|"word", ...hex} -> None | (what, expected, actual)"""
    if it["op"] == "generate":
        return eval_generate(R, bytes.fromhex(it["data"]), bytes.fromhex(it["mask"]))
    if it["op"] == "detect":
        return eval_detect(R, bytes.fromhex(it["data"]), bytes.fromhex(it["mask"]), bytes.fromhex(it["error"]))
    return eval_word(R, bytes.fromhex(it["word"]), bytes.fromhex(it["mask"]))


CHILD_MODES = {
    "python -O": ["-O"],  # assert statements stripped
    "fresh interpreter, first calls malformed": [],  # the first calls ever made on the class are ones that fail
}


def run_child(items, mode="python -O"):
    """evaluate the items in a child interpreter; -> list of (index, what, expected, actual) | str (infrastructure)"""
    import json
    import sys

    flags = CHILD_MODES[mode]

    here = os.path.dirname(os.path.abspath(__file__))
    code = (
        "import sys, json\n"
        f"sys.path.insert(0, {os.path.dirname(here)!r}); sys.path.insert(0, {here!r})\n"
        "import c11\n"
        "assert_on = False\n"
        "try:\n    assert False\nexcept AssertionError:\n    assert_on = True\n"
        "R = c11.rs()\n"
        "src = sys.modules[R.__module__].__file__\n"
        f"first_bad = {('-O' not in flags)!r}\n"
        "if first_bad:\n"
        "    for f, a in ((R.check, (b'\\x00' * 11, b'\\x00' * 3)), (R.generate, (b'', b'')), (R.generate, (None, None)), (R.check, (b'\\x00' * 13, b'\\x01')), (R.log_multiply, (256, 256))):\n"
        "        try:\n            f(*a)\n        except BaseException:\n            pass\n"
        "items = json.load(sys.stdin)\n"
        "out = []\n"
        "for i, it in enumerate(items):\n"
        "    r = c11.eval_item(R, it)\n"
        "    if r is not None:\n        out.append([i, r[0], r[1], r[2]])\n"
        "sys.stdout.write(json.dumps({'assert_on': assert_on, 'src': src, 'fails': out}))\n"
    )
    try:
        p = subprocess.run([sys.executable] + flags + ["-c", code], input=json.dumps(items), capture_output=True, text=True, timeout=300)
        res = json.loads(p.stdout)
    except Exception as ex:  # noqa
        return f"child interpreter did not answer: {type(ex).__name__}"
    if res.get("assert_on") == ("-O" in flags):
        return "child interpreter: assertions are not in the expected state"
    if res.get("src") != sys.modules[rs().__module__].__file__:
        return f"child interpreter imported another copy of the module ({res.get('src')})"
    return [tuple(x) for x in res["fails"]]


# ------------------------------------------------------------------------------------------------
def rs():
    from okdmr.dmrlib.etsi.fec.reed_solomon_12_9_4 import ReedSolomon1294

    return ReedSolomon1294


def std_masks():
    from okdmr.dmrlib.etsi.layer2.elements.crc_masks import CrcMasks

    return [
        ("VoiceLCHeader", CrcMasks.VoiceLCHeader.value.to_bytes(3, byteorder="big")),
        ("TerminatorWithLC", CrcMasks.TerminatorWithLC.value.to_bytes(3, byteorder="big")),
    ]


def call(fn, *a):
    try:
        return fn(*a)
    except BaseException as e:  # noqa
        return impl_error(e)


def out_mul(r):
    return r if isinstance(r, str) else str(int(r))


def out_gen(r):
    return r if isinstance(r, str) else hex_str(bytes(r))


def out_chk(r):
    if isinstance(r, str):
        return r
    return "1" if r is True else ("0" if r is False else f"ERR not-bool {type(r).__name__}")


# captured full link control words of the repository's own test (data+parity, mask name)
CORPUS = [
    ("0300002635a903d475cb8795", "VoiceLCHeader"),
    ("03000003d4752635a96fed09", "VoiceLCHeader"),
    ("03000003d4752635a960e206", "TerminatorWithLC"),
    ("0300002635a903d475c4889a", "TerminatorWithLC"),
]
# error patterns of weight 3 that vanish at two of the three roots (captured from a trial in which alpha^3 was not tested)
PATTERN_CORPUS = ["0000010000004d0069000000"]


# ------------------------------------------------------------------------------------------------
# single evaluations of the property on the real code; each returns None (holds) or
# (what, expected, actual).  Used by run() and by replay().
def eval_mul(R, a, b):
    got = call(R.log_multiply, a, b)
    exp = gf_mul(a, b)
    if got != exp:
        return (f"log_multiply({a},{b}) differs from multiplication in GF(2^8) mod 0x11D", exp, out_mul(got))
    return None


def eval_generate(R, data: bytes, mask: bytes):
    c = call(R.generate, data, mask)
    if isinstance(c, str):
        return ("generate raises on a 9-octet message and 3-octet mask", "12 octets", c)
    c = bytes(c)
    if len(c) != 12 or c[:9] != data:
        return ("generate does not return the message followed by three parity octets", hex_str(data) + "??????", hex_str(c))
    s = syndromes(unmask(c, mask))
    if any(s):
        return ("generated word, mask removed, has non-zero syndromes at alpha^1..alpha^3 (not a multiple of g)", [0, 0, 0], s)
    ref = data + xor_b(ref_parity(data), mask)
    if c != ref:  # implied by the two checks above (the code word with a given data part is unique)
        return ("generated word differs from polynomial long division by g", hex_str(ref), hex_str(c))
    k = call(R.check, c, mask)
    if k is not True:
        return ("check rejects the word generate produced under the same mask", True, out_chk(k))
    return None


def eval_word(R, word: bytes, mask: bytes):
    """check accepts exactly the words with zero syndromes under the mask"""
    k = call(R.check, word, mask)
    want = not any(syndromes(unmask(word, mask)))
    if k is not want:
        return ("check disagrees with 'all three syndromes of the unmasked word are zero'", want, out_chk(k))
    return None


def eval_detect(R, data: bytes, mask: bytes, err: bytes):
    """err: 12 octets, 1..3 non-zero"""
    c = call(R.generate, data, mask)
    if isinstance(c, str):
        return ("generate raises on a 9-octet message and 3-octet mask", "12 octets", c)
    w = xor_b(bytes(c), err)
    k = call(R.check, w, mask)
    if k is not False:
        return (f"corruption of {sum(1 for x in err if x)} octet(s) of a generated word is not detected", False, out_chk(k))
    return None


def eval_linear(R, a: bytes, b: bytes):
    z = b"\x00\x00\x00"
    ca, cb, cab = call(R.generate, a, z), call(R.generate, b, z), call(R.generate, xor_b(a, b), z)
    if any(isinstance(x, str) for x in (ca, cb, cab)):
        return ("generate raises on a 9-octet message", "12 octets", str((ca, cb, cab)))
    if xor_b(bytes(ca), bytes(cb)) != bytes(cab):
        return ("generate is not additive (GF(2)-linear) under the zero mask", hex_str(xor_b(bytes(ca), bytes(cb))), hex_str(bytes(cab)))
    return None


def eval_scale(R, a: bytes, s: int):
    """GF(256)-linearity: generate(s*a) = s*generate(a) under the zero mask"""
    z = b"\x00\x00\x00"
    ca = call(R.generate, a, z)
    sa = bytes(gf_mul(s, x) for x in a)
    cs = call(R.generate, sa, z)
    if isinstance(ca, str) or isinstance(cs, str):
        return ("generate raises on a 9-octet message", "12 octets", str((ca, cs)))
    want = bytes(gf_mul(s, x) for x in bytes(ca))
    if bytes(cs) != want:
        return ("generate is not GF(256)-homogeneous under the zero mask", hex_str(want), hex_str(bytes(cs)))
    return None


# ------------------------------------------------------------------------------------------------
# histories: the property speaks of a function of (message, mask) / (word, mask).  A script is a list of steps
#   {"op": "generate", "data": hex | {"ref": name}, "dtype": T, "mask": hex | None | {"ref": name}, "mtype": T, "call": "pos"|"kw", "as": name}
#   {"op": "check",    "word": hex | {"ref": name}, "wtype": T, "mask": hex | {"ref": name}, "mtype": T, "call": ..., "as": name}
#   {"op": "mutate",   "target": name, "xor": {position: value}}
# generate binds `name` to the returned object and `name.data` / `name.mask` to the argument objects, check binds
# `name.word` / `name.mask`.  mutate edits the named object in place when it is mutable (bytearray, list) and
# replaces it by an edited copy otherwise.  Every answer is compared with the reference (long division / syndromes
# of the *current* contents), and after every step every object the caller holds must still have the contents the
# caller gave it: nothing the library returned or was given may change behind the caller's back.
ARG_TYPES = {
    "bytes": bytes,
    "bytearray": bytearray,
    "list": list,
    "tuple": tuple,
    "memoryview": lambda b: memoryview(bytes(b)),
}
OCTET_STRINGS = ("bytes", "bytearray")  # the property's octet strings; the other types only "where accepted"


def obj_value(o):
    if isinstance(o, (bytes, bytearray, memoryview, list, tuple)):
        try:
            return bytes(o)
        except Exception:  # noqa
            return None
    return None


def apply_xor(b: bytes, x) -> bytes:
    r = bytearray(b)
    for p, v in x.items():
        r[int(p)] ^= int(v)
    return bytes(r)


def run_script(R, steps):
    """-> {"fail": None | (what, expected, actual), "pairs": [(component, line, impl_out)], "calls": n, "skipped": n}"""
    objs, want, tname = {}, {}, {}
    res = {"fail": None, "pairs": [], "calls": 0, "skipped": 0}

    def arg(spec, tn, name):
        if isinstance(spec, dict):
            n = spec["ref"]
            return (objs.get(n), tname.get(n, "?"))
        b = b"" if spec in ("", "-") else bytes.fromhex(spec)
        o = ARG_TYPES[tn](b)
        objs[name], want[name], tname[name] = o, b, tn
        return (o, tn)

    for idx, st in enumerate(steps):
        op = st["op"]
        name = st.get("as") or f"_{idx}"
        if op == "mutate":
            t = st["target"]
            o = objs.get(t)
            if o is None:
                continue
            new = apply_xor(want[t], st["xor"])
            if isinstance(o, (bytearray, list)):
                for p, v in st["xor"].items():
                    o[int(p)] ^= int(v)
            elif isinstance(o, tuple):
                objs[t] = tuple(new)
            elif isinstance(o, memoryview):
                objs[t] = memoryview(new)
            else:
                objs[t] = new
            want[t] = new
        elif op in ("generate", "check"):
            first = "data" if op == "generate" else "word"
            a1, t1 = arg(st[first], st.get("dtype" if op == "generate" else "wtype", "bytes"), f"{name}.{first}")
            nomask = st.get("mask") is None
            a2, t2 = (None, "bytes") if nomask else arg(st["mask"], st.get("mtype", "bytes"), f"{name}.mask")
            if a1 is None or (a2 is None and not nomask):
                continue  # refers to an object an earlier (skipped) step did not produce
            v1 = obj_value(a1)
            v2 = bytes(3) if nomask else obj_value(a2)
            fn = R.generate if op == "generate" else R.check
            res["calls"] += 1
            r = None
            if st.get("call") == "kw":  # parameter names are not part of the property: fall back to positional
                r = call(lambda: fn(data=a1)) if nomask else call(lambda: fn(data=a1, mask=a2))
                if r == "ERR TypeError":
                    r = None
            if r is None:
                r = call(fn, a1) if nomask else call(fn, a1, a2)
            in_domain = t1 in OCTET_STRINGS and t2 in OCTET_STRINGS
            if v1 is None or v2 is None or len(v1) != (9 if op == "generate" else 12) or len(v2) != 3:
                res["skipped"] += 1  # malformed length: outside the property; what matters is what the next calls answer
                continue
            desc = f"step {idx}: {op}({t1} {hex_str(v1)}, {'default mask' if nomask else t2 + ' ' + hex_str(v2)})"
            if isinstance(r, str):
                if in_domain:
                    res["fail"] = (f"{desc} raises", "an answer", r)
                    return res
                res["skipped"] += 1
                continue
            if op == "generate":
                exp = v1 + xor_b(ref_parity(v1), v2)
                got = obj_value(r)
                res["pairs"].append(("generate", f"rs.gen {hex_str(v1)} {hex_str(v2)}", out_gen(r) if got is not None else f"ERR not-octets {type(r).__name__}"))
                if got != exp:
                    res["fail"] = (f"{desc} does not return the message followed by the parity of the long division by g (xor mask)", hex_str(exp), hex_str(got) if got is not None else type(r).__name__)
                    return res
                objs[name], want[name], tname[name] = r, exp, type(r).__name__
            else:
                exp = not any(syndromes(unmask(v1, v2)))
                res["pairs"].append(("check", f"rs.check {hex_str(v1)} {hex_str(v2)}", out_chk(r)))
                if r is not exp:
                    res["fail"] = (f"{desc} disagrees with 'all three syndromes of the unmasked word are zero'", exp, out_chk(r))
                    return res
        else:
            raise KeyError(op)
        for n, o in objs.items():
            if obj_value(o) != want[n]:
                got = obj_value(o)
                res["fail"] = (f"after step {idx} ({op}) the object `{n}` held by the caller no longer has the contents the caller gave it / received", hex_str(want[n]), hex_str(got) if got is not None else type(o).__name__)
                return res
    return res


def make_scripts(rng, std, n, pool):
    """n short histories from six templates; pool = structured messages to mix with corpus / random ones"""
    scripts = []

    def rmsg():
        r = rng.random()
        if r < 0.2:
            return bytes.fromhex(rng.choice(CORPUS)[0])[:9]
        if r < 0.45 and pool:
            return rng.choice(pool)
        return bytes(rng.randrange(256) for _ in range(9))

    def rmask():
        return rng.choice(std) if rng.random() < 0.85 else bytes(rng.randrange(256) for _ in range(3))

    def rxor(where=None):
        where = where or rng.choice(("parity", "parity", "data", "any"))
        k = rng.randrange(1, 4)
        pos = rng.sample({"parity": range(9, 12), "data": range(9), "any": range(12)}[where], k)
        return {str(p): rng.randrange(1, 256) for p in pos}

    def mt():
        return rng.choice(("bytes", "bytes", "bytearray", "list", "tuple", "memoryview"))

    def dt():
        return rng.choice(("bytes", "bytearray", "bytearray"))

    def cs():
        return rng.choice(("pos", "pos", "kw"))

    def G(d, dtype, m, mtype, name):
        if isinstance(m, bytes) and len(m) == 3 and not any(m) and rng.random() < 0.3:
            m = None  # default mask argument
        return {"op": "generate", "data": d if isinstance(d, dict) else hex_str(d), "dtype": dtype,
                "mask": m if (m is None or isinstance(m, dict)) else hex_str(m), "mtype": mtype, "call": cs(), "as": name}

    def C(w, wtype, m, mtype, name=None):
        st = {"op": "check", "word": w if isinstance(w, dict) else hex_str(w), "wtype": wtype,
              "mask": m if isinstance(m, dict) else hex_str(m), "mtype": mtype, "call": cs()}
        if name:
            st["as"] = name
        return st

    def MUT(t, x):
        return {"op": "mutate", "target": t, "xor": x}

    def R_(nm):
        return {"ref": nm}

    for i in range(n):
        d, m = rmsg(), rmask()
        word = d + xor_b(ref_parity(d), m)
        t = i % 7
        if t == 0:  # edit the returned word in place, ask again
            x = rxor()
            bad = apply_xor(word, x)
            s = [G(d, dt(), m, mt(), "a"), MUT("a", x), C(R_("a"), "-", m, mt()), C(bad, "bytes", m, "bytes"),
                 G(d, "bytes", m, "bytes", "b"), C(word, dt(), m, mt()), G(d, "bytearray", m, mt(), "c")]
            if rng.random() < 0.6:
                s += [MUT("c", rxor()), C(R_("c"), "-", m, "bytes"), G(d, dt(), m, mt(), "e"), C(R_("b"), "-", m, mt()), C(R_("e"), "-", m, mt())]
            lab = "mutate-result"
        elif t == 1:  # the caller reuses its own buffers after the call
            x1 = {str(rng.randrange(9)): rng.randrange(1, 256)}
            xm = {str(rng.randrange(3)): rng.randrange(1, 256)}
            s = [G(d, "bytearray", m, rng.choice(("bytearray", "list")), "a"), MUT("a.data", x1),
                 G(R_("a.data"), "-", R_("a.mask"), "-", "b"), G(d, dt(), m, mt(), "c"), MUT("a.mask", xm),
                 G(d, dt(), R_("a.mask"), "-", "e"), G(R_("a.data"), "-", m, mt(), "f"), C(R_("a"), "-", m, mt()),
                 C(R_("b"), "-", R_("a.mask"), "-"), C(R_("e"), "-", R_("a.mask"), "-")]
            lab = "mutate-argument"
        elif t == 2:  # one word buffer, contents edited between checks
            x = rxor("any")
            w0 = word if rng.random() < 0.5 else apply_xor(word, x)
            s = [C(w0, "bytearray", m, rng.choice(("bytearray", "list", "bytes")), "w"), MUT("w.word", x), C(R_("w.word"), "-", R_("w.mask"), "-"),
                 MUT("w.word", x), C(R_("w.word"), "-", R_("w.mask"), "-"),
                 MUT("w.mask", {str(rng.randrange(3)): rng.randrange(1, 256)}), C(R_("w.word"), "-", R_("w.mask"), "-"),
                 C(w0, "bytes", m, "bytes"), G(d, dt(), m, mt(), "g")]
            lab = "same-buffer-check"
        elif t == 3:  # related requests, all answers held
            rel = [(d, m)]
            rel += [(d, m2) for m2 in std if m2 != m]
            d2 = bytearray(d); d2[8] ^= rng.randrange(1, 256)
            d3 = bytearray(d); d3[0] ^= rng.randrange(1, 256)
            d4 = bytes(d[:8]) + bytes([d[8] ^ 0x80])
            rel += [(bytes(d2), m), (bytes(d3), m), (d4, m), (bytes(x ^ 255 for x in d), m), (d[::-1], m), (d, bytes(3)), (d, m[::-1])]
            # relatives that collide under a sloppy cache key: same multiset / sum / xor of octets, same length-8 prefix or suffix
            i1, i2 = rng.sample(range(9), 2)
            d5 = bytearray(d); d5[i1], d5[i2] = d5[i2], d5[i1]
            d6 = bytearray(d); d6[i1] = (d6[i1] + 1) & 255; d6[i2] = (d6[i2] - 1) & 255
            d7 = bytearray(d); d7[i1] ^= 0x55; d7[i2] ^= 0x55
            rel += [(bytes(d5), m), (bytes(d6), m), (bytes(d7), m), (d[1:] + d[:1], m), (bytes([d[0] ^ 1]) + d[1:], m), (d, m[1:] + m[:1])]
            rel = list(dict.fromkeys(rel))
            rng.shuffle(rel)
            s = [G(dd, dt(), mm, mt(), f"r{j}") for j, (dd, mm) in enumerate(rel)]
            s += [G(d, dt(), m, mt(), "again"), C(word, dt(), m, mt())]
            lab = "related-held"
        elif t == 4:  # check and generate interleaved on one message
            bad1, bad2 = apply_xor(word, rxor("parity")), apply_xor(word, rxor("parity"))
            m2 = rng.choice([q for q in std if q != m])
            s = [C(bad1, dt(), m, mt()), G(d, dt(), m, mt(), "a"), C(word, dt(), m, mt()), C(bad2, dt(), m, mt()), C(word, dt(), m, mt()),
                 G(d, dt(), m2, mt(), "b"), C(word, dt(), m2, mt()), C(R_("b"), "-", m2, mt()), C(R_("b"), "-", m, mt()), C(R_("a"), "-", m, mt())]
            lab = "check-generate-interleaved"
        elif t == 5:  # calls that fail (malformed length, a type the code rejects half-way) must leave nothing behind
            junk = []
            for _ in range(rng.randrange(1, 4)):
                k = rng.randrange(5)
                if k == 0:
                    junk.append(G(d[: rng.choice((0, 1, 8))], dt(), m, mt(), None))
                elif k == 1:
                    junk.append(G(d + bytes([rng.randrange(256)] * rng.choice((1, 3))), dt(), m, mt(), None))
                elif k == 2:
                    junk.append(C(word[: rng.choice((0, 9, 11))], dt(), m, mt()))
                elif k == 3:
                    junk.append(G(d, rng.choice(("list", "tuple", "memoryview")), m, mt(), None))
                else:
                    junk.append(G(d, dt(), m[: rng.choice((0, 1, 2))] if rng.random() < 0.5 else m + m, mt(), None))
            bad = apply_xor(word, rxor("any"))
            s = junk[:1] + [G(d, dt(), m, mt(), "a")] + junk[1:] + [C(word, dt(), m, mt()), C(bad, dt(), m, mt()), G(d, dt(), m, mt(), "b")]
            lab = "after-failed-call"
        else:  # argument types / call styles only
            w = rng.choice((word, apply_xor(word, rxor("any"))))
            s = [G(d, rng.choice(list(ARG_TYPES)), m, rng.choice(list(ARG_TYPES)), "a"), C(w, rng.choice(list(ARG_TYPES)), m, rng.choice(list(ARG_TYPES))),
                 G(d, dt(), m, mt(), "b"), C(w, dt(), m, mt())]
            lab = "argument-types"
        scripts.append((lab, s))
    return scripts


def long_script(rng, std, n):
    """n results held at once (n distinct messages), a fifth of them edited in place, then everything asked again"""
    ds = []
    for j in range(n):
        d = bytearray(rng.randrange(256) for _ in range(9))
        if j and rng.random() < 0.3:
            d = bytearray(ds[rng.randrange(j)][0])
            d[rng.randrange(9)] ^= rng.randrange(1, 256)
        ds.append((bytes(d), rng.choice(std)))
    ds = list(dict.fromkeys(ds))
    s = [{"op": "generate", "data": hex_str(d), "dtype": rng.choice(("bytes", "bytearray", "bytearray")), "mask": hex_str(m),
          "mtype": rng.choice(("bytes", "bytearray")), "call": "pos", "as": f"h{j}"} for j, (d, m) in enumerate(ds)]
    for j in rng.sample(range(len(ds)), max(1, len(ds) // 5)):
        k = rng.randrange(1, 4)
        s.append({"op": "mutate", "target": f"h{j}", "xor": {str(p): rng.randrange(1, 256) for p in rng.sample(range(9, 12), k)}})
    for j, (d, m) in enumerate(ds):
        s.append({"op": "generate", "data": hex_str(d), "dtype": rng.choice(("bytes", "bytearray")), "mask": hex_str(m), "mtype": "bytes", "call": "pos", "as": f"k{j}"})
        s.append({"op": "check", "word": {"ref": f"h{j}"}, "wtype": "-", "mask": hex_str(m), "mtype": "bytes", "call": "pos"})
    return s


# ------------------------------------------------------------------------------------------------
def rand_error(rng, weight=None, positions=None):
    pos = positions if positions is not None else rng.sample(range(12), weight)
    e = [0] * 12
    for p in pos:
        e[p] = rng.randrange(1, 256)
    return bytes(e)


def run_transl(ctx):
    """Differential validation of the source translator (tools/py2lean.py) and its semantic prelude (Model/Py.lean), which are
    in the trusted base of Props/C11t: the definitions TRANSLATED from the source of log_multiply / xor_bytes / generate /
    check (`Gen/TranslRs.lean`, driver operations `t.rs.*`) against the real functions, on structured, random, boundary and
    malformed arguments of the annotated types (negative and out-of-range ints, every length of message / mask / word, the
    default mask).  A difference is a translator or prelude bug, never a finding about /repo."""
    if ctx.search_only or not ctx.driver_ok:
        return
    R = rs()
    rng = ctx.rng

    def canon(v):
        if isinstance(v, BaseException):
            return impl_error(v)
        if isinstance(v, bool):
            return "1" if v else "0"
        if isinstance(v, int):
            return str(v)
        return hex_str(bytes(v))

    def call_(fn, *a):
        try:
            return canon(fn(*a))
        except Exception as e:  # noqa: the real code's exception is the observable
            return canon(e)

    def rb(n):
        return bytes(rng.randrange(256) for _ in range(n))

    pairs = []
    edge = [-1000, -513, -512, -511, -257, -256, -255, -2, -1, 0, 1, 2, 127, 128, 254, 255, 256, 257, 511, 512, 1000]
    muls = [(a, b) for a in edge for b in edge]
    muls += [(rng.randrange(256), rng.randrange(256)) for _ in range(ctx.budget(300, 3000))]
    muls += [(rng.randrange(-600, 600), rng.randrange(-600, 600)) for _ in range(ctx.budget(150, 1500))]
    for a, b in muls:
        pairs.append((f"t.rs.mul {a} {b}", call_(R.log_multiply, a, b)))
    ctx.count("transl:log_multiply", len(muls))
    n = 0
    for la in list(range(0, 14)) + [40]:
        for lb in (0, 1, 2, 3, 4, la, la + 1):
            for _ in range(2):
                a, b = rb(la), rb(lb)
                pairs.append((f"t.rs.xor {hex_str(a)} {hex_str(b)}", call_(R.xor_bytes, a, b)))
                n += 1
    ctx.count("transl:xor_bytes", n)
    std = [m for _, m in std_masks()]
    msgs = [bytes(9), b"\xff" * 9, bytes(range(1, 10)), bytes.fromhex("c3259a101234567810")]
    msgs += [bytes([0] * i + [rng.randrange(1, 256)] + [0] * (8 - i)) for i in range(9)]
    msgs += [rb(9) for _ in range(ctx.budget(150, 1500))]
    msgs += [rb(k) for k in (0, 1, 2, 8, 10, 11, 12, 13, 24) for _ in range(3)]
    masks = std + [bytes(3), b"\xff\xff\xff"]
    n = m = 0
    words = []
    for d in msgs:
        for mk in ([rng.choice(masks), rb(3)] + ([rb(k) for k in (0, 1, 2, 4, 9)] if rng.random() < 0.15 else [])):
            out = call_(R.generate, d, mk)
            pairs.append((f"t.rs.gen {hex_str(d)} {hex_str(mk)}", out))
            n += 1
            if not out.startswith("ERR") and len(mk) == 3:
                words.append((bytes.fromhex(out), mk))
        pairs.append((f"t.rs.gen1 {hex_str(d)}", call_(R.generate, d)))
        n += 1
    ctx.count("transl:generate", n)
    for w, mk in words[: ctx.budget(200, 2000)]:
        e = bytearray(w)
        for _ in range(rng.randrange(1, 4)):
            e[rng.randrange(12)] ^= rng.randrange(1, 256)
        for cand, cm in ((w, mk), (bytes(e), mk), (w, rng.choice(masks)), (w[: rng.randrange(0, 12)], mk), (w + rb(rng.randrange(1, 4)), mk),
                         (w, rb(rng.choice((0, 1, 2, 4))))):
            pairs.append((f"t.rs.check {hex_str(cand)} {hex_str(cm)}", call_(R.check, cand, cm)))
            m += 1
    for _ in range(ctx.budget(100, 1000)):
        cand, cm = rb(12), rng.choice(masks)
        pairs.append((f"t.rs.check {hex_str(cand)} {hex_str(cm)}", call_(R.check, cand, cm)))
        m += 1
    ctx.count("transl:check", m)
    ctx.correspond("transl", pairs)


def run(ctx):
    R = rs()
    rng = ctx.rng
    masks = std_masks()
    mask_by_name = dict(masks)
    zero = b"\x00\x00\x00"
    ctx.rule = (
        "log_multiply: all 65,536 octet pairs against shift-and-add multiplication mod 0x11D (both tiers; the "
        "correspondence takes all pairs in thorough, 4,096 seeded pairs + all pairs with an operand in {0,1,2,3,127,128,254,255} in quick). "
        "generate/check: messages = the 4 captured LC words of the repository's test, all-zero, all-0xFF, single-symbol "
        "basis messages (9 positions x seeded values; all 9x255 in thorough), messages built so that the LFSR feedback symbol "
        "takes every value 0..255 (every position in thorough; the zero-feedback step on a non-zero register at every position "
        "in both tiers), seeded random messages; masks = the two 24-bit "
        "CrcMasks the standard defines for RS(12,9) (VoiceLCHeader, TerminatorWithLC), the zero default and seeded random masks; "
        "per generated word: every single position with a seeded value, seeded 2- and 3-symbol errors (in thorough every "
        "position pair/triple on sampled words and all 12x255 single errors), errors confined to parity, the other masks; "
        "random 12-octet words and words at distance 4 (xor of two code words) through check against independently computed "
        "syndromes; additivity and GF(256)-homogeneity of generate. Structured algebraic inputs, solved with the harness's own "
        "GF(2^8) linear algebra (any nine symbols of a code word may be prescribed): messages q(x)g(x) (zero parity, FEC field = bare mask), "
        "messages whose parity / transmitted FEC field hits 000000, ffffff, the mask, another mask, a constant, or equals message octets, "
        "minimum-weight (4) code words on prescribed supports, messages whose LFSR register takes a prescribed value (zero, ff, zero components) "
        "after i octets; stationary / periodic division register (`stationary_msgs`): for EVERY non-zero fixed point of the step map R -> (R*X + x*X^3) mod g "
        "(one per symbol x, 255) and every step 3..8 at which a register can be prescribed a message whose register is that state and whose next octet is the one "
        "symbol that keeps it there, crossed with the relations between that symbol and the octets that follow (all equal / only the last equal / one different in "
        "between / all but the last / stays then leaves / next and last equal / first octet equal / random); registers on cycles of period 2..4 under a non-constant "
        "symbol word (under ONE repeated symbol no cycle shorter than 85 exists besides the fixed point) with the same tail relations; steps that leave exactly two of the "
        "three cells unchanged; the register equal to the next three octets / the last three / a mask of the standard; on each the property on generate + check and corruptions of "
        "the octets that FOLLOW the stationary stretch; the harness's fixed points and registers are compared with the Lean definitions (`rs.fix`, `rs.reg`); "
        "arithmetic relations among the message octets / 16- and 24-bit words and the mask (xor, sum, difference, and, or, rotation, complement; two at once), parity tied to xor-combinations / an alpha-multiple of message octets; "
        "received words that only look like these (bare mask / constants / message octets in the FEC field, permuted parity, "
        "patterns, weight-4 code words with octets cleared). Super-codes (a checker that passes a SUBSET of the checks accepts the low-weight words "
        "of a larger code, which random corruption never meets): on words returned by the real generate (captured, zero, random, zero-parity; the two standard "
        "masks, zero, ff, two others) error patterns SOLVED with the harness's linear algebra — for each of the 220 position triples and each proper subset of "
        "the roots {a, a^2, a^3} a weight-3 pattern vanishing exactly there, for each of the 66 pairs and each root a weight-2 pattern vanishing there, the same for "
        "the three octets of the re-encoding difference parity(e[:9])^e[9:] (what a regenerate-and-compare checker sees), near misses at distance 1 of all those "
        "(octet changed / cleared / added / moved), patterns whose syndromes / re-encoding difference take a value a wrong zero test lets through (three equal octets for every "
        "value, a mask, xor of two masks, single bits, two equal, xor zero, geometric, arithmetic), patterns that make a prefix of the word a multiple of g; and COMPLETELY, in both "
        "tiers, the weight-3 words of the three 2-root super-codes (3 x 220 x 255) and the weight-2 words of the three 1-root super-codes (3 x 66 x 255). Words of other codes through "
        "check (generator roots a^0..2, a^2..4, a^1,2,4, a^-1..-3, another primitive element, field polynomials 0x11B / 0x12B, 4-root sub-codes = code words, 1-/2-root super-codes; "
        "whole word / message / parity in another order; the mask on other octets, reversed, rotated, partial, complemented). A fixed sample (generate, detect on super-code patterns, check) "
        "once more with the root logger at DEBUG, sys.stdout raising, random reseeded, in a child interpreter started with -O and in a fresh child interpreter whose first calls on the class are malformed ones. Histories (scripts of generate / check / edit-in-place steps, six templates plus one "
        "session holding >= 160 results): arguments as bytes / bytearray (list, tuple, memoryview where the code accepts them), positional / "
        "keyword / default-mask calls, the returned word edited in place in 1..3 octets and asked again, the caller's own argument buffers edited "
        "after the call, one buffer checked with changing contents, related requests (same message other mask, same prefix, one octet changed) all "
        "held; every answer is compared with the reference and after every step every object the caller holds must be unchanged. Out-of-domain inputs (other lengths, operands >= 256) are "
        "compared with the model as a note only. A case is non-trivial unless message and mask are all-zero (a product: unless an operand is 0); "
        "distinct = distinct (operation, operands)."
    )
    ctx.trusted_base += [
        "Lean 4.33 kernel",
        "tools/extract_rs.py (reads EXPONENTIAL_TABLE / LOG_TABLE / POLYNOMIAL of ReedSolomon1294 and the two 24-bit CrcMasks from /repo)",
        "hand-written model of log_multiply / generate / check / xor_bytes (Model/Rs.lean) tied to the code by this run's correspondence",
        "the reference multiplication clmulMod (carry-less product, long division by 0x11D) is the definition of GF(2^8) the theorems are relative to",
        "harness-side independent GF(2^8) arithmetic (shift-and-add) used by the oracle",
    ]
    ctx.assumptions += [
        "messages, masks and received words are Python octet strings (bytes or bytearray; every element an octet); the theorems carry this as the hypothesis isBytes; "
        "the model is a function of the octet values, so the Python type, the call style and the call history are canonicalised away: the history runs tie this to the code. "
        "Masks given as list / tuple / memoryview are checked for their answers where the code accepts them; an exception for such a type gives no verdict",
        "the mask has 3 octets (the two masks the standard defines, the default, or any other 3 octets)",
    ]

    ctx.trusted_base += [
        "tools/py2lean.py + tools/extract_transl.py (source translator: Gen/TranslRs.lean from inspect.getsource of the live functions) and "
        "lean/DmrVerif/Model/Py.lean (semantics of the Python subset); validated on every run by the differential operations t.rs.* (run_transl); "
        "Props/C11t proves the translated definitions equal to Model/Rs.lean for all arguments",
    ]
    run_transl(ctx)

    # ------------------------------------------------------------------ multiplication
    pairs = []
    # oracle: exhaustive in both tiers (cheap)
    bad = 0
    for a in range(256):
        for b in range(256):
            r = eval_mul(R, a, b)
            ctx.case(("mul", a, b), nontrivial=(a != 0 and b != 0))
            if r is not None:
                bad += 1
                if bad <= 20:
                    ctx.fail("mul", {"a": a, "b": b}, r[0], expected=r[1], actual=r[2])
    ctx.count("mul:oracle-pairs", 65536)
    # reachable table entries, stated directly (redundant with the above, but names the entry)
    for i in range(509):
        if R.EXPONENTIAL_TABLE[i] != gf_pow(ALPHA, i % 255):
            ctx.fail("exp-table", {"index": i}, f"EXPONENTIAL_TABLE[{i}] is not alpha^{i}", expected=gf_pow(ALPHA, i % 255), actual=int(R.EXPONENTIAL_TABLE[i]))
            break
    if ctx.thorough() or ctx.boost > 1:
        cpairs = [(a, b) for a in range(256) for b in range(256)]
    else:
        cpairs = {(rng.randrange(256), rng.randrange(256)) for _ in range(ctx.budget(4096, 4096))}
        edge = [0, 1, 2, 3, 127, 128, 254, 255]
        cpairs |= {(a, b) for a in edge for b in range(256)} | {(a, b) for a in range(256) for b in edge}
        cpairs = sorted(cpairs)
    # out-of-range operands: the zero short-cut is taken before any table access
    oor = [(256, 1), (1, 256), (0, 256), (256, 0), (300, 7), (7, 511), (0, 100000), (512, 512), (255, 256)]
    ood = []  # outside the property's domain: compared with the model, differences are notes, never a verdict
    for a, b in cpairs:
        got = call(R.log_multiply, a, b)
        pairs.append((f"rs.mul {a} {b}", out_mul(got)))
        ctx.case(("mul-corr", a, b), nontrivial=(a != 0 and b != 0), sample={"op": "log_multiply", "a": a, "b": b, "out": out_mul(got)} if (a, b) in ((2, 128), (255, 255)) else None)
    for a, b in oor:
        ood.append(("log_multiply(out-of-range operand)", f"rs.mul {a} {b}", out_mul(call(R.log_multiply, a, b))))
    ctx.count("mul:zero-operand", sum(1 for a, b in cpairs if a == 0 or b == 0))
    if not ctx.search_only and ctx.driver_ok:
        ctx.correspond("log_multiply", pairs)

    # the oracle's own arithmetic must describe the same generator polynomial as the module (sanity of the oracle)
    if GENPOLY != [1, 14, 56, 64]:
        raise RuntimeError("harness arithmetic broken")
    if list(R.POLYNOMIAL[:4])[::-1] != GENPOLY or any(R.POLYNOMIAL[4:]):
        ctx.fail("polynomial", {}, "POLYNOMIAL is not x^3+14x^2+56x+64 = (x-a)(x-a^2)(x-a^3)", expected=GENPOLY[::-1], actual=list(R.POLYNOMIAL))

    # ------------------------------------------------------------------ messages and masks
    msgs = []
    for hx, mname in CORPUS:
        msgs.append((bytes.fromhex(hx)[:9], mask_by_name[mname], "corpus"))
    msgs += [(bytes(9), zero, "zero"), (bytes([255] * 9), zero, "ones"), (bytes(9), masks[0][1], "zero"), (bytes([255] * 9), masks[1][1], "ones")]
    if ctx.thorough():
        basis = [(p, v) for p in range(9) for v in range(1, 256)]
    else:
        basis = [(p, v) for p in range(9) for v in {1, 2, 128, 255, rng.randrange(1, 256), rng.randrange(1, 256)}]
    for p, v in basis:
        d = bytearray(9)
        d[p] = v
        msgs.append((bytes(d), rng.choice(masks + [("zero", zero)])[1], "basis"))
    # directed: force every LFSR feedback symbol s = data[i] ^ parity[2] (so every product P[k]*s the encoder can
    # form), at every position, on top of a random non-zero register; s = 0 (the "nothing to feed back" step) with a
    # non-zero register at every position.  The register is predicted with the harness-side long division.
    if ctx.thorough():
        targets = [(sv, i) for sv in range(256) for i in range(9)]
    else:
        targets = [(sv, rng.randrange(9)) for sv in range(256)] + [(0, i) for i in range(1, 9)] * 2
    for sv, i in targets:
        d = bytearray(rng.randrange(256) for _ in range(9))
        if i > 0 and not any(d[:i]):
            d[0] = rng.randrange(1, 256)
        d[i] = sv ^ ref_parity(bytes(d[:i]))[0]
        msgs.append((bytes(d), rng.choice(masks + [("zero", zero)])[1], "feedback-zero" if sv == 0 else "feedback-forced"))
    for _ in range(ctx.budget(250, 4000)):
        d = bytes(rng.randrange(256) for _ in range(9))
        r = rng.random()
        if r < 0.35:
            m = masks[0][1]
        elif r < 0.7:
            m = masks[1][1]
        elif r < 0.8:
            m = zero
        else:
            m = bytes(rng.randrange(256) for _ in range(3))
        msgs.append((d, m, "random"))
    # structured algebraic messages: kernel and prescribed targets of the parity map, minimum-weight code words,
    # prescribed LFSR register mid-way (each class has probability 2^-24 .. 2^-8 under random sampling)
    alg = algebraic_msgs(rng, [m for _, m in masks] + [zero], ctx.thorough(), scale=ctx.boost)
    msgs += alg
    # special-looking messages and masks a guard could single out: constant messages under every mask, runs of 00 / ff
    # at the start / middle / end, masks with zero / ff / single-bit octets
    smasks = [bytes.fromhex(h) for h in ("000001", "010000", "000100", "00ff00", "ff00ff", "ffffff", "800000", "000080", "969600", "009999", "999996", "969699", "7f7f7f", "808080")]
    for v in (0, 255, 1, 0x96, 0x99, rng.randrange(256)):
        for m in [mm for _, mm in masks] + [zero, b"\xff\xff\xff", bytes([v] * 3)]:
            msgs.append((bytes([v] * 9), m, "constant"))
    for _ in range(ctx.budget(60, 600)):
        d = bytearray(rng.randrange(256) for _ in range(9))
        a = rng.randrange(9)
        b = rng.randrange(a + 1, 10)
        fill = rng.choice((0, 0, 255))
        d[a:b] = bytes([fill] * (b - a))
        msgs.append((bytes(d), rng.choice(masks + [("zero", zero)])[1], "run-of-00/ff"))
    for m in smasks:
        for _ in range(ctx.budget(2, 10)):
            msgs.append((bytes(rng.randrange(256) for _ in range(9)), m, "structured-mask"))

    # arithmetic relations among the message octets / words and the mask
    for d, m, origin in relation_msgs(rng, ctx.budget(300, 3000)):
        msgs.append((d, m if rng.random() < 0.5 else rng.choice(masks + [("zero", zero)])[1], origin))

    gen_pairs, chk_pairs = [], []
    all_masks = [m for _, m in masks] + [zero]

    def chk_line(w, m):
        k = call(R.check, w, m)
        chk_pairs.append((f"rs.check {hex_str(w)} {hex_str(m)}", out_chk(k)))
        return k

    # captured words first: they must be accepted as they are
    for hx, mname in CORPUS:
        w = bytes.fromhex(hx)
        m = mask_by_name[mname]
        k = chk_line(w, m)
        ctx.case(("check", hx, mname), sample={"op": "check", "word": hx, "mask": hex_str(m), "out": out_chk(k)})
        r = eval_word(R, w, m)
        if r is not None:
            ctx.fail("check-exact", {"word": hx, "mask": hex_str(m)}, r[0], expected=r[1], actual=r[2])

    n_deep = 0
    for idx, (d, m, origin) in enumerate(msgs):
        nontriv = any(d) or any(m)
        c = call(R.generate, d, m)
        gen_pairs.append((f"rs.gen {hex_str(d)} {hex_str(m)}", out_gen(c)))
        ctx.case(("gen", d, m), nontrivial=nontriv, sample={"op": "generate", "data": hex_str(d), "mask": hex_str(m), "out": out_gen(c)} if idx in (0, 9) else None)
        ctx.count(f"msg:{origin}")
        r = eval_generate(R, d, m)
        if r is not None:
            ctx.fail("generate", {"data": hex_str(d), "mask": hex_str(m)}, r[0], expected=r[1], actual=r[2])
        if isinstance(c, str):
            continue
        c = bytes(c)
        chk_line(c, m)
        # the same word under the other masks: unmasked it is a code word plus a non-zero word confined to the parity,
        # so it must be rejected
        for m2 in all_masks:
            if m2 != m:
                k = chk_line(c, m2)
                ctx.case(("othermask", d, m, m2), nontrivial=nontriv)
                r = eval_word(R, c, m2)
                if r is not None:
                    ctx.fail("check-exact", {"word": hex_str(c), "mask": hex_str(m2)}, r[0], expected=r[1], actual=r[2])
        # error patterns
        errs = []
        for p in range(12):  # every single position
            errs.append(rand_error(rng, positions=[p]))
        for _ in range(4):
            errs.append(rand_error(rng, 2))
            errs.append(rand_error(rng, 3))
        errs.append(rand_error(rng, positions=rng.sample(range(9, 12), rng.randrange(1, 4))))  # parity only
        errs.append(rand_error(rng, positions=[rng.randrange(9), rng.randrange(9, 12)]))
        # low-weight-looking patterns: equal values / single bits
        v = rng.randrange(1, 256)
        ps = rng.sample(range(12), 3)
        errs.append(bytes(v if i in ps else 0 for i in range(12)))
        errs.append(bytes((1 << rng.randrange(8)) if i in ps[:2] else 0 for i in range(12)))
        if idx < 4 or idx % 97 == 0 or (origin.startswith("alg:") and idx % 31 == 0):
            # every single-bit error (a comparison that ignores one bit of one octet), all 96
            errs += [bytes((1 << bit) if i == p else 0 for i in range(12)) for p in range(12) for bit in range(8)]
            ctx.count("errors:all-96-single-bit")
        deep = ctx.thorough() and origin in ("corpus", "random") and n_deep < 12
        if deep:
            n_deep += 1
            if n_deep <= 3:
                errs += [bytes(v if i == p else 0 for i in range(12)) for p in range(12) for v in range(1, 256)]
            errs += [rand_error(rng, positions=list(ps2)) for ps2 in itertools.combinations(range(12), 2) for _ in range(3)]
            errs += [rand_error(rng, positions=list(ps3)) for ps3 in itertools.combinations(range(12), 3) for _ in range(2)]
        for e in errs:
            wgt = sum(1 for x in e if x)
            w = xor_b(c, e)
            k = chk_line(w, m)
            ctx.case(("detect", d, m, e), nontrivial=True, sample={"op": "check(corrupted)", "data": hex_str(d), "mask": hex_str(m), "error": hex_str(e), "out": out_chk(k)} if idx == 1 and wgt == 3 else None)
            ctx.count(f"error-weight:{wgt}")
            if k is not False:
                ctx.fail("detect", {"data": hex_str(d), "mask": hex_str(m), "error": hex_str(e)}, f"corruption of {wgt} octet(s) of a generated word is not detected", expected=False, actual=out_chk(k))
        if not ctx.search_only and len(chk_pairs) > 200000 and ctx.driver_ok:
            ctx.correspond("check", chk_pairs)
            chk_pairs.clear()

    # ------------------------------------------------------------------ stationary / periodic division register
    # every non-zero fixed point of the step map at every step it can be reached, cycles of period 2..4 under symbol
    # words, the register meeting the data — crossed with the equalities between the stationary symbol(s) and the octets
    # that follow.  Per message: the property on generate (+ check of the result), then corruptions of the octets that
    # FOLLOW the stationary stretch (an encoder / checker that stopped dividing there cannot see them).
    reg_pairs = []  # harness arithmetic vs the Lean model's register (specification side; no code involved)
    n_stat = 0
    listed_stat = {}
    for idx, (d, origin, info) in enumerate(stationary_msgs(rng, ctx.thorough(), scale=min(ctx.boost, 4))):
        m = (all_masks + [b"\xff\xff\xff"])[idx % 4] if idx % 9 else bytes(rng.randrange(256) for _ in range(3))
        m = info.get("mask", m)
        n_stat += 1
        ctx.count("msg:" + origin)
        ctx.count(f"stationary:first-step:{info['i']}")
        c = call(R.generate, d, m)
        gen_pairs.append((f"rs.gen {hex_str(d)} {hex_str(m)}", out_gen(c)))
        ctx.case(("gen", d, m), nontrivial=True, sample={"op": "generate", "class": origin, "register-stationary-from-step": info["i"], "data": hex_str(d), "mask": hex_str(m), "out": out_gen(c)} if idx in (5, 1500) else None)
        r = eval_generate(R, d, m)
        if r is not None:
            listed_stat[origin] = listed_stat.get(origin, 0) + 1
            if listed_stat[origin] <= 2 and len(listed_stat) <= 12:
                ctx.fail("generate", {"data": hex_str(d), "mask": hex_str(m), "class": origin, "register-stationary-from-step": info["i"], "period": info["k"]},
                         r[0] + f" (message class: {origin}; the division register before step {info['i']} is a fixed point / on a cycle of the step map)", expected=r[1], actual=r[2])
            else:
                ctx.count("stationary:failing-not-listed")
        if idx % 16 == 0:
            i, k = info["i"], max(info["k"], 1)
            for cut in (i, min(i + k, 9)):
                rr = ref_parity(d[:cut])
                reg_pairs.append((f"rs.reg {hex_str(d[:cut])}", f"{rr[2]} {rr[1]} {rr[0]}"))
        if isinstance(c, str) or len(bytes(c)) != 12:
            continue
        c = bytes(c)
        chk_line(c, m)
        after = list(range(min(info["i"] + max(info["k"], 1), 9), 9))  # octets that follow the stationary stretch
        errs = []
        if after:
            errs.append(rand_error(rng, positions=rng.sample(after, rng.randrange(1, min(3, len(after)) + 1))))
            if len(after) > 1:
                errs.append(rand_error(rng, positions=[rng.choice(after[:-1])]))  # in between, the last one kept
        if idx % 3 == 0:
            errs.append(rand_error(rng, rng.randrange(1, 4)))
            errs.append(rand_error(rng, positions=[info["i"] if info["i"] < 9 else 8]))
        for e in errs:
            w = xor_b(c, e)
            k_ = chk_line(w, m)
            ctx.case(("detect", d, m, e), nontrivial=True)
            ctx.count("stationary:corruptions")
            if k_ is not False:
                key = "detect:" + origin
                listed_stat[key] = listed_stat.get(key, 0) + 1
                if listed_stat[key] <= 2 and len(listed_stat) <= 12:
                    ctx.fail("detect", {"data": hex_str(d), "mask": hex_str(m), "error": hex_str(e), "class": origin},
                             f"corruption of {weight(e)} octet(s) of a generated word is not detected (message class: {origin})", expected=False, actual=out_chk(k_))
                else:
                    ctx.count("stationary:failing-not-listed")
    ctx.count("stationary:messages", n_stat)
    F1 = cycle_state([1])
    for x in range(256):  # the fixed point of every symbol, by the harness's linear algebra, against the Lean definition
        F = [gf_mul(x, c_) for c_ in F1]
        reg_pairs.append((f"rs.fix {x ^ F[0]}", f"{F[2]} {F[1]} {F[0]} {x}"))

    # ------------------------------------------------------------------ arbitrary received words
    for _ in range(ctx.budget(1500, 30000)):
        m = rng.choice(all_masks) if rng.random() < 0.8 else bytes(rng.randrange(256) for _ in range(3))
        kind = rng.random()
        if kind < 0.5:
            w = bytes(rng.randrange(256) for _ in range(12))
            ctx.count("word:random")
        elif kind < 0.75:
            # a valid word built by the reference encoder (never touched the code under test)
            d = bytes(rng.randrange(256) for _ in range(9))
            w = d + xor_b(ref_parity(d), m)
            ctx.count("word:reference-codeword")
        else:
            # distance exactly >= 4 from a code word in a structured way: xor of two valid words = valid word under zero mask
            d1 = bytes(rng.randrange(256) for _ in range(9))
            d2 = bytearray(9)
            d2[rng.randrange(9)] = rng.randrange(1, 256)
            w1 = d1 + xor_b(ref_parity(d1), m)
            w = xor_b(w1, bytes(d2) + ref_parity(bytes(d2)))
            ctx.count("word:codeword-plus-weight4-codeword")
        k = chk_line(w, m)
        ctx.case(("word", w, m))
        r = eval_word(R, w, m)
        if r is not None:
            ctx.fail("check-exact", {"word": hex_str(w), "mask": hex_str(m)}, r[0], expected=r[1], actual=r[2])

    # structured received words: reference code words of the algebraic classes (never touched generate), and words
    # that only look like them (bare mask / constant / message octets in the FEC field, permuted parity, patterns,
    # minimum-weight code words with octets cleared)
    sw = [(d + xor_b(ref_parity(d), m), m, origin.replace("alg:", "codeword:")) for d, m, origin in alg]
    sw += structured_words(rng, all_masks, ctx.budget(600, 6000))
    for w, m, lab in sw:
        k = chk_line(w, m)
        ctx.case(("word", w, m))
        ctx.count(f"word:{lab}" if not lab.startswith("codeword:") else "word:algebraic-reference-codeword")
        r = eval_word(R, w, m)
        if r is not None:
            ctx.fail("check-exact", {"word": hex_str(w), "mask": hex_str(m), "class": lab}, r[0], expected=r[1], actual=r[2])

    # ------------------------------------------------------------------ super-codes: a checker that passes a SUBSET of the checks
    # Generated words (by the real generate) corrupted by patterns of weight 1..3 that were SOLVED FOR: they meet a
    # proper subset of the conditions that define the code (vanish at one or two of the three roots; the re-encoding
    # difference is zero in one or two of its three octets), or their syndromes / re-encoding difference take a value a
    # wrong zero test lets through.  The verdict is the property's: every corruption of 1..3 octets is rejected.
    hosts = []  # (message, mask, word returned by the real generate)
    host_msgs = [(bytes.fromhex(hx)[:9], mask_by_name[mname]) for hx, mname in CORPUS[:2]]
    host_msgs += [(bytes(9), zero)]  # the zero word: the corrupted word IS the pattern
    for m in all_masks + [b"\xff\xff\xff", bytes(rng.randrange(256) for _ in range(3)), bytes.fromhex("0096ff"), bytes.fromhex("ff0096"), bytes.fromhex("969900")]:
        host_msgs.append((bytes(rng.randrange(256) for _ in range(9)), m))
        host_msgs.append((rng.choice(alg)[0], m))
    for d, m in host_msgs:
        c = call(R.generate, d, m)
        if isinstance(c, str) or len(bytes(c)) != 12:
            continue  # reported by eval_generate above
        hosts.append((d, m, bytes(c)))
    by_mask = {}
    for h in hosts:
        by_mask.setdefault(h[1], []).append(h)
    host_masks = list(by_mask)
    n_sub = 0

    listed = {}

    def undetected(d, m, e, lab, k):
        # the first three of every class are listed (a 2-root checker accepts 168,300 of the patterns below)
        listed[lab] = listed.get(lab, 0) + 1
        if listed[lab] <= 3 and sum(min(v, 3) for v in listed.values()) <= 60:
            ctx.fail("detect", {"data": hex_str(d), "mask": hex_str(m), "error": hex_str(e), "class": lab},
                     f"corruption of {weight(e)} octet(s) of a generated word is not detected (pattern class: {lab})", expected=False, actual=out_chk(k))
        else:
            ctx.count("super-code:undetected-not-listed")

    def corrupt(d, m, c, e, lab):
        w = xor_b(c, e)
        k = call(R.check, w, m)
        chk_pairs.append((f"rs.check {hex_str(w)} {hex_str(m)}", out_chk(k)))
        ctx.case(("detect", d, m, e), nontrivial=True)
        if k is not False:
            undetected(d, m, e, lab, k)

    spec_pairs = []  # the oracle's own arithmetic against the specification side of the Lean model (no code involved)

    def spec_lines(e, m):
        s3 = syndromes(e)
        spec_pairs.append((f"rs.syn {hex_str(e)}", " ".join(str(x) for x in s3)))
        for js in ("12", "13", "23", "1", "123"):
            w = bytes(e[:9]) + xor_b(bytes(e[9:]), m)  # the pattern on top of the zero code word, under the mask
            spec_pairs.append((f"rs.checkroots {js} {hex_str(w)} {hex_str(m)}", "0" if any(s3[int(ch) - 1] for ch in js) else "1"))

    if hosts:
        pats = [(bytes.fromhex(h), "corpus") for h in PATTERN_CORPUS]
        pats += subcode_patterns(rng, ctx.thorough()) + target_patterns(rng, ctx.thorough(), ctx.boost)
        for i, (e, lab) in enumerate(pats):
            if not 1 <= weight(e) <= 3:
                raise RuntimeError("harness arithmetic broken (pattern weight)")
            ctx.count("super-code:" + lab)
            if i % 4 == 0:
                spec_lines(e, host_masks[i % len(host_masks)])
            # under every mask the standard defines and the default, plus one of the other masks in turn; the host word rotating
            extra = [m for m in host_masks if m not in all_masks]
            for mi, m in enumerate([m for m in all_masks if m in by_mask] + extra[i % len(extra): i % len(extra) + 1] if extra else host_masks):
                hs = by_mask[m]
                d, _, c = hs[(i + mi) % len(hs)]
                corrupt(d, m, c, e, lab)
                n_sub += 1
        for d, m, c in hosts:
            for e, lab in prefix_patterns(rng, unmask(c, m), ctx.budget(12, 120)):
                ctx.count("super-code:" + lab)
                corrupt(d, m, c, e, lab)
        # the complete low-weight part of the three 2-root super-codes (3 x 220 x 255 patterns of weight 3) and of the
        # three 1-root super-codes (3 x 66 x 255 patterns of weight 2): every member once, hosts and masks rotating
        MUL = [[gf_mul(t, b) for b in range(256)] for t in range(256)]
        fam3, fam2 = two_root_families()
        chk = R.check
        n = 0
        for Z, S, base in fam3 + fam2:
            lab = "syn:family:" + ("w3:" if len(S) == 3 else "w2:") + zs_name("syn", Z)
            d, m, c = hosts[n % len(hosts)]
            n += 1
            for t in range(1, 256):
                row = MUL[t]
                wb = bytearray(c)
                for p, b in zip(S, base):
                    wb[p] ^= row[b]
                w = bytes(wb)
                try:
                    k = chk(w, m)
                except BaseException as ex:  # noqa
                    k = impl_error(ex)
                if t % 16 == n % 16:
                    chk_pairs.append((f"rs.check {hex_str(w)} {hex_str(m)}", out_chk(k)))
                ctx.case(("detect-family", n, t), nontrivial=True)
                if k is not False:
                    undetected(d, m, xor_b(w, c), lab, k)
            ctx.count("super-code:" + lab, 255)
        ctx.count("super-code:checks", n_sub)

    # words of other codes (another generator / primitive element / field, another coefficient order, the mask on the
    # wrong octets, 4-root sub-codes — these ARE code words —, 1- and 2-root super-codes)
    for w, m, lab in sibling_words(rng, all_masks, ctx.budget(6, 60)):
        k = chk_line(w, m)
        ctx.case(("word", w, m))
        ctx.count("word:" + lab)
        if lab.startswith("other-code:sub-code") and any(syndromes(unmask(w, m))):
            raise RuntimeError("harness arithmetic broken (sub-code word)")
        r = eval_word(R, w, m)
        if r is not None:
            ctx.fail("check-exact", {"word": hex_str(w), "mask": hex_str(m), "class": lab}, r[0], expected=r[1], actual=r[2])

    # ------------------------------------------------------------------ ambient interpreter state
    sample = []
    for d, m, _c in hosts[:6]:
        sample.append({"op": "generate", "data": hex_str(d), "mask": hex_str(m)})
    if hosts:
        for i, (Z, S, base) in enumerate(fam3[:: max(1, len(fam3) // 120)] + fam2[:: max(1, len(fam2) // 40)]):
            d, m, c = hosts[i % len(hosts)]
            t = 1 + (i * 37) % 255
            e = bytearray(12)
            for p, b in zip(S, base):
                e[p] = MUL[t][b]
            sample.append({"op": "detect", "data": hex_str(d), "mask": hex_str(m), "error": hex_str(bytes(e))})
        for d, m, c in hosts:
            sample.append({"op": "word", "word": hex_str(c), "mask": hex_str(m)})
            sample.append({"op": "detect", "data": hex_str(d), "mask": hex_str(m), "error": hex_str(rand_error(rng, rng.randrange(1, 4)))})
    for mode in AMBIENTS:
        for it in sample:
            r = with_ambient(mode, lambda: eval_item(R, it))
            ctx.case(("ambient", mode, repr(it)), nontrivial=True)
            if r is not None:
                ctx.fail("ambient", {"ambient": mode, "item": it}, r[0] + f" (ambient state: {mode})", expected=r[1], actual=r[2])
        ctx.count("ambient:" + mode, len(sample))
    for mode in (CHILD_MODES if sample else ()):
        res = run_child(sample, mode)
        if isinstance(res, str):
            ctx.notes.append(f"ambient {mode}: {res} (no verdict)")
        else:
            ctx.count(f"ambient:child interpreter ({mode})", len(sample))
            for i, what, exp, act in res[:5]:
                ctx.fail("ambient", {"ambient": mode, "item": sample[i]}, what + f" (in a child interpreter: {mode})", expected=exp, actual=act)

    # ------------------------------------------------------------------ linearity of the encoder
    for _ in range(ctx.budget(200, 3000)):
        a = bytes(rng.randrange(256) for _ in range(9))
        b = bytes(rng.randrange(256) for _ in range(9))
        ctx.case(("linear", a, b))
        r = eval_linear(R, a, b)
        if r is not None:
            ctx.fail("linearity", {"a": hex_str(a), "b": hex_str(b)}, r[0], expected=r[1], actual=r[2])
        s = rng.randrange(2, 256)
        r = eval_scale(R, a, s)
        ctx.case(("scale", a, s))
        if r is not None:
            ctx.fail("homogeneity", {"a": hex_str(a), "s": s}, r[0], expected=r[1], actual=r[2])

    # ------------------------------------------------------------------ histories, argument types, aliasing
    # generate / check are functions of the octets they are given: the answer may not depend on earlier calls, on the
    # Python type of the octet string (bytes / bytearray; list, tuple, memoryview masks where accepted), on the call
    # style, nor on what the caller later does with a returned word or with its own argument buffers.
    pool = [d for d, _, _ in alg]
    scripts = make_scripts(rng, all_masks, ctx.budget(240, 3000), pool)
    scripts += [("many-held", long_script(rng, all_masks, 160 if not ctx.thorough() else 600))]
    if ctx.thorough():
        scripts += [("many-held", long_script(rng, all_masks, 300)) for _ in range(4)]
    nfail = 0
    for lab, steps in scripts:
        res = run_script(R, steps)
        ctx.case(("history", lab, repr(steps)), sample={"op": "history", "template": lab, "steps": steps} if lab == "mutate-result" and not nfail and ctx.hist.get("history:mutate-result", 0) == 0 else None)
        ctx.count(f"history:{lab}")
        ctx.count("history:calls", res["calls"])
        if res["skipped"]:
            ctx.count("history:calls-with-a-type-the-code-does-not-accept(no verdict)", res["skipped"])
        for comp, ln, out in res["pairs"]:
            (gen_pairs if comp == "generate" else chk_pairs).append((ln, out))
        if res["fail"] is not None:
            nfail += 1
            if nfail <= 10:
                f = res["fail"]
                ctx.fail("history", {"template": lab, "steps": steps}, f[0], expected=f[1], actual=f[2])

    # ------------------------------------------------------------------ malformed lengths
    # Outside the property (it speaks of 9-octet messages, 3-octet masks, 12-octet words).  The model mirrors the
    # assertions and the zip truncation of xor_bytes; the comparison is reported as a note, never as a verdict.
    for _ in range(ctx.budget(60, 400)):
        ld = rng.choice([0, 1, 8, 10, 12, 9, 9])
        lm = rng.choice([0, 1, 2, 4, 6]) if ld == 9 else rng.choice([0, 1, 2, 3, 4, 6])
        d = bytes(rng.randrange(256) for _ in range(ld))
        m = bytes(rng.randrange(256) for _ in range(lm))
        ood.append(("generate(malformed length)", f"rs.gen {hex_str(d)} {hex_str(m)}", out_gen(call(R.generate, d, m))))
        lw = rng.choice([0, 9, 11, 13, 12, 12])
        if lw == 12 and lm == 3:
            lw = 11
        w = bytes(rng.randrange(256) for _ in range(lw))
        if lw == 12 and lm > 3 and rng.random() < 0.5:
            w = w[:9] + xor_b(ref_parity(w[:9]), m)  # accepted: zip stops after three mask octets
        ood.append(("check(malformed length)", f"rs.check {hex_str(w)} {hex_str(m)}", out_chk(call(R.check, w, m))))
        ctx.count(f"out-of-domain:data{ld}/mask{lm}/word{lw}")

    # ------------------------------------------------------------------ generic history / object-identity probes
    import histories

    histories.run(ctx, ENTRY_POINTS)

    # ------------------------------------------------------------------ after everything above: nothing has worn off
    # (class-level tables / scratch state edited by some call): all products once more, the captured words, the first
    # messages of the run once more
    bad = 0
    for a in range(256):
        for b in range(256):
            r = eval_mul(R, a, b)
            if r is not None:
                bad += 1
                if bad <= 3:
                    ctx.fail("mul", {"a": a, "b": b, "when": "at the end of the run"}, r[0] + " (at the end of the run; it was re-verified after all other calls)", expected=r[1], actual=r[2])
    ctx.count("final-state:products", 65536)
    for d, m, origin in msgs[:40]:
        r = eval_generate(R, d, m)
        ctx.count("final-state:messages")
        if r is not None:
            ctx.fail("generate", {"data": hex_str(d), "mask": hex_str(m)}, r[0] + " (at the end of the run)", expected=r[1], actual=r[2])

    if not ctx.search_only and ctx.driver_ok:
        ctx.correspond("generate", gen_pairs)
        ctx.correspond("check", chk_pairs)
        if ctx.lean.get("build_ok") and not ctx.lean.get("failed") and not ctx.lean.get("extract_errors"):
            # syndromes and root-subset checkers: harness arithmetic vs the Lean definitions the theorems are about
            ctx.correspond("specification(syndromes, root-subset checker: oracle arithmetic vs Lean)", spec_pairs)
            ctx.correspond("specification(division register after a prefix, fixed points of the step map: oracle arithmetic vs Lean)", reg_pairs)
        outs = ctx.drive([ln for _, ln, _ in ood])
        ndiff = 0
        for (comp, ln, impl), model in zip(ood, outs):
            if impl != model:
                ndiff += 1
                if ndiff <= 5:
                    ctx.notes.append(f"out-of-domain behaviour differs from the model (not part of C11, no verdict): {comp}: {ln} -> implementation {impl}, model {model}")
        ctx.count("out-of-domain:compared", len(ood))
        if ndiff:
            ctx.count("out-of-domain:differences", ndiff)


# ------------------------------------------------------------------------------------------------
# history / object-identity probes (harness/histories.py): the entry points of ReedSolomon1294, described once
def ENTRY_POINTS():
    import histories
    from okdmr.dmrlib.etsi.layer2.elements.crc_masks import CrcMasks

    R = rs()
    masks = [m for _, m in std_masks()] + [bytes(3), b"\xff\xff\xff"]
    kinds = (bytes, bytes, bytearray)

    def message(rng):
        r = rng.random()
        if r < 0.1:
            return bytes(9)
        if r < 0.2:
            return bytes.fromhex(rng.choice(CORPUS)[0])[:9]
        return bytes(rng.randrange(256) for _ in range(9))

    def mask(rng):
        return rng.choice(masks) if rng.random() < 0.8 else bytes(rng.randrange(256) for _ in range(3))

    def gen_args(rng):
        d, m = message(rng), mask(rng)
        return (rng.choice(kinds)(d), rng.choice(kinds)(m))

    def chk_args(rng):
        d, m = message(rng), mask(rng)
        w = d + xor_b(ref_parity(d), m)
        if rng.random() < 0.4:
            e = rand_error(rng, weight=rng.choice([1, 2, 3]))
            w = xor_b(w, e)
        return (rng.choice(kinds)(w), rng.choice(kinds)(m))

    def mul_args(rng):
        return (rng.choice([0, 1, 2, 255, rng.randrange(256)]), rng.randrange(256))

    # the masks as a caller may hold them: the enum member, its value, hex text (type confusions of the standard's constants)
    mask_bad = [(f"CrcMasks.{m.name}", m) for m in CrcMasks] + [(f"CrcMasks.{m.name}.value", m.value) for m in CrcMasks][:6] + [
        ("mask as hex text", "969696"), ("mask of 2 octets", b"\x96\x96"), ("mask as list with 256", [150, 256, 150])]
    state = histories.class_state(R)
    return [
        histories.EP("generate", R.generate, gen_args, canon=lambda r: out_gen(r) if isinstance(r, (bytes, bytearray)) else histories.canon(r),
                     kind="encode", bad_args={1: mask_bad}, observe=state, draws=2),
        histories.EP("check", R.check, chk_args, kind="check", bad_args={1: mask_bad}, observe=state, draws=2),
        histories.EP("log_multiply", R.log_multiply, mul_args, kind="encode", observe=state),
    ]


def _model(lines):
    exe = os.path.join(BIN, "drv_c11")
    if not os.path.exists(exe):
        return ["(model driver not built)"] * len(lines)
    p = subprocess.run([exe], input="\n".join(lines) + "\n", capture_output=True, text=True, timeout=60)
    return p.stdout.split("\n")[: len(lines)]


def replay(obj):
    f = obj.get("failure") or {}
    inp = f.get("input") or {}
    kind = f.get("kind")
    R = rs()
    print(f"replay C11 kind={kind} what={f.get('what')}")
    r = None
    lines = []
    if kind == "mul":
        a, b = int(inp["a"]), int(inp["b"])
        print(f"implementation log_multiply({a},{b}) = {out_mul(call(R.log_multiply, a, b))}; GF(2^8) mod 0x11D: {gf_mul(a, b)}")
        lines = [f"rs.mul {a} {b}"]
        r = eval_mul(R, a, b)
    elif kind == "exp-table":
        i = int(inp["index"])
        print(f"implementation EXPONENTIAL_TABLE[{i}] = {R.EXPONENTIAL_TABLE[i]}; alpha^{i} = {gf_pow(ALPHA, i % 255)}")
        r = None if R.EXPONENTIAL_TABLE[i] == gf_pow(ALPHA, i % 255) else ("table entry", gf_pow(ALPHA, i % 255), R.EXPONENTIAL_TABLE[i])
    elif kind == "polynomial":
        print(f"implementation POLYNOMIAL = {list(R.POLYNOMIAL)}; (x-a)(x-a^2)(x-a^3) low first = {GENPOLY[::-1]}")
        r = None if (list(R.POLYNOMIAL[:4])[::-1] == GENPOLY and not any(R.POLYNOMIAL[4:])) else ("polynomial", GENPOLY[::-1], list(R.POLYNOMIAL))
    elif kind == "generate":
        d, m = bytes.fromhex(inp["data"]), bytes.fromhex(inp["mask"])
        c = call(R.generate, d, m)
        print(f"implementation generate({d.hex()}, {m.hex()}) = {out_gen(c)}")
        if not isinstance(c, str):
            print(f"syndromes of the unmasked word at alpha^1..3 = {syndromes(unmask(bytes(c), m))}; check = {out_chk(call(R.check, bytes(c), m))}")
        lines = [f"rs.gen {hex_str(d)} {hex_str(m)}"]
        r = eval_generate(R, d, m)
    elif kind == "detect":
        d, m, e = bytes.fromhex(inp["data"]), bytes.fromhex(inp["mask"]), bytes.fromhex(inp["error"])
        c = call(R.generate, d, m)
        print(f"implementation generate({d.hex()}, {m.hex()}) = {out_gen(c)}")
        if not isinstance(c, str):
            w = xor_b(bytes(c), e)
            print(f"implementation check({w.hex()}, {m.hex()}) = {out_chk(call(R.check, w, m))}  (error pattern {e.hex()})")
            lines = [f"rs.check {hex_str(w)} {hex_str(m)}"]
        r = eval_detect(R, d, m, e)
    elif kind == "check-exact":
        w, m = bytes.fromhex(inp["word"]), bytes.fromhex(inp["mask"])
        print(f"implementation check({w.hex()}, {m.hex()}) = {out_chk(call(R.check, w, m))}; syndromes of the unmasked word = {syndromes(unmask(w, m))}")
        lines = [f"rs.check {hex_str(w)} {hex_str(m)}"]
        r = eval_word(R, w, m)
    elif kind == "linearity":
        r = eval_linear(R, bytes.fromhex(inp["a"]), bytes.fromhex(inp["b"]))
    elif kind == "homogeneity":
        r = eval_scale(R, bytes.fromhex(inp["a"]), int(inp["s"]))
    elif kind == "ambient":
        it, mode = inp["item"], inp["ambient"]
        print(f"ambient state: {mode}; item {it}")
        if mode in CHILD_MODES:
            res = run_child([it], mode)
            print(f"child interpreter: {res}")
            r = None if (isinstance(res, str) or not res) else res[0][1:]
        else:
            r = with_ambient(mode, lambda: eval_item(R, it))
    elif isinstance(kind, str) and kind.startswith("history:"):
        import histories

        return histories.replay(inp, ENTRY_POINTS)
    elif kind == "history":
        res = run_script(R, inp["steps"])
        for i, st in enumerate(inp["steps"]):
            print(f"  step {i}: {st}")
        print(f"{res['calls']} calls made, {res['skipped']} skipped (argument type not accepted)")
        lines = [ln for _, ln, _ in res["pairs"]][-3:]
        r = res["fail"]
    else:
        print("unknown failure kind; nothing to replay")
        return 0
    for ln, out in zip(lines, _model(lines)):
        print(f"model {ln} = {out}")
    if r is None:
        print("property holds on this input now")
        return 0
    print(f"STILL FAILS: {r[0]}; expected {r[1]} actual {r[2]}")
    return 1
